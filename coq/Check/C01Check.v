(* Case type and the two checks evaluated on harness cases for C01.

   One case = one byte stream sent on one connection (then the peer half-closes), served by the real
   Server.ServeConn under several configurations, each under several read chunkings (whole, 1 byte at a
   time, random pieces).  Observed per run: the handler invocations in order (method, RequestURI, body —
   None when the body had been pre-parsed into a multipart form) and the responses in wire order
   (status, carries "Connection: close").  The connection is always closed by the server in the end
   (EOF from the peer at the latest), so "closed" is visible as: no further dispatch. *)
From FH Require Import Model.Base Model.ReqHead Model.Framing Spec.Rfc9112.
Open Scope nat_scope.

Definition dobs := (bytes * bytes * option bytes)%type.
Definition robs := (Z * bool)%type.
Inductive obs := Obs (ds : list dobs) (rs : list robs).
Inductive c01run := Run (c : fcfg) (os : list obs).
Inductive c01case := C01Case (stream : bytes) (runs : list c01run).

Definition mkc (reduce nonorm getonly noprep : bool) (bsize : nat) (maxbody : Z) : fcfg :=
  {| c_reduce := reduce; c_nonorm := nonorm; c_getonly := getonly; c_noprep := noprep;
     c_bsize := bsize; c_maxbody := maxbody |}.

Definition dobs_eqb (a b : dobs) : bool :=
  beq (fst (fst a)) (fst (fst b)) && beq (snd (fst a)) (snd (fst b)) && option_eqb beq (snd a) (snd b).
Definition robs_eqb (a b : robs) : bool := Z.eqb (fst a) (fst b) && Bool.eqb (snd a) (snd b).

(* the bool: responses may have been lost (outcome OEofBody: the writer is released unflushed; how many of the
   last responses were still unflushed depends on how the input arrived, which the model does not represent) *)
Definition model_obs (c : fcfg) (stream : bytes) : option (list dobs * list robs * bool) :=
  match serve_frames c stream with
  | (_, _, OBug) | (_, _, OFuel) => None              (* never equal to an implementation run *)
  | (ds, rs, o) =>
      Some (map (fun d => (dp_method d, dp_uri d, dp_body d)) ds,
            map (fun r => (rs_status r, rs_close r)) rs,
            match o with OEofBody => true | _ => false end)
  end.

Fixpoint is_prefix (a b : list robs) : bool :=
  match a, b with
  | [], _ => true
  | x :: a', y :: b' => robs_eqb x y && is_prefix a' b'
  | _ :: _, [] => false
  end.

Definition obs_eqb (m : option (list dobs * list robs * bool)) (o : obs) : bool :=
  match m, o with
  | Some (ds, rs, lossy), Obs ds' rs' =>
      list_eqb dobs_eqb ds ds' && (if lossy then is_prefix rs' rs else list_eqb robs_eqb rs rs')
  | None, _ => false
  end.

Definition corr_ok (x : c01case) : bool :=
  match x with
  | C01Case stream runs =>
      forallb (fun r => match r with Run c os => let m := model_obs c stream in forallb (obs_eqb m) os end) runs
  end.

(* ---- the property, judged on what the implementation did ---- *)
Definition req_match (r : request) (d : dobs) : bool :=
  beq (r_method r) (fst (fst d)) && beq (r_target r) (snd (fst d)) &&
  match r_body r, snd d with
  | Some a, Some b => beq a b
  | _, _ => true                (* the RFC assigns no body / the handler saw a parsed form, not bytes *)
  end.

(* The handler invocations must be, in order, the RFC's messages of the stream: same method, target and
   body, hence the same boundaries; a message that is not Clean may be handed over (when its framing is
   defined) but nothing may follow it; an Invalid message, or anything where the RFC finds no complete
   message, must not be handed over at all.  Handing over FEWER requests is always allowed: the server
   may reject or close at any boundary. *)
Fixpoint judge (fr : list (request * fclass)) (ds : list dobs) : bool :=
  match ds with
  | [] => true
  | d :: ds' =>
      match fr with
      | [] => false
      | (r, c) :: fr' =>
          match c with
          | Invalid => false
          | Clean => req_match r d && judge fr' ds'
          | AmbiguousMustClose => req_match r d && match ds' with [] => true | _ => false end
          end
      end
  end.

Definition prop_ok (x : c01case) : bool :=
  match x with
  | C01Case stream runs =>
      let fr := rfc_requests stream in
      forallb (fun r => match r with Run _ os => forallb (fun o => match o with Obs ds _ => judge fr ds end) os end) runs
  end.
