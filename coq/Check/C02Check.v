(* Case type and the two checks evaluated on harness cases for C02. *)
From FH Require Import Model.Base Model.BodyConsume Spec.BodyConsumeSpec.
Open Scope Z_scope.

(* One connection: the server configuration, the pipelined requests as sent (the last one is a
   plain sentinel GET), and what was observed: in wire order, "100 Continue" (E100), handler
   invocation (EDispatch id nread rc; ids 1000000+j = the j-th 32-byte unit of a body filled with
   "GET /sNNNNN HTTP/1.1\r\nHost:x\r\n\r\n", -1 = any other path), final responses (EResp status
   has-"Connection: close"), and the hijack handler running (EHijack). *)
Inductive c02case :=
| C02Case (c : cfg) (rs : list req) (impl : list event)
(* several connections served one after the other by the same process (the requestStream pool is shared) *)
| C02Multi (c : cfg) (conns : list (list req)) (impls : list (list event)).

Definition rc_eqb (a b : rc) : bool :=
  match a, b with RcOk, RcOk | RcEof, RcEof | RcErr, RcErr => true | _, _ => false end.

Definition ev_eqb (a b : event) : bool :=
  match a, b with
  | E100, E100 | EHijack, EHijack | EClose, EClose | ESilent, ESilent => true
  | EDispatch i n x, EDispatch j m y => (i =? j) && (n =? m) && rc_eqb x y
  | EResp s c, EResp t d => (s =? t) && Bool.eqb c d
  | EParse x, EParse y => x =? y
  | EDesync a b c, EDesync d e f => (a =? d) && (b =? e) && (c =? f)
  | _, _ => false
  end.


Definition smuggle_unit : Z := 32.
Definition smuggle_base : Z := 1000000.

Fixpoint find_req (id : Z) (rs : list req) : option req :=
  match rs with [] => None | r :: rest => if r_id r =? id then Some r else find_req id rest end.

(* what the server dispatches first when it goes on parsing at offset rel of request id's body:
   predictable when the body is a fixed-length pattern body and rel is the start of a whole unit *)
Definition predicted_smuggle (c : cfg) (rs : list req) (id rel : Z) : option Z :=
  match find_req id rs with
  | Some r =>
      match r_fr r, r_mp r with
      | FFixed n, None =>
          if (rel mod smuggle_unit =? 0) && (rel + smuggle_unit <=? n) && negb (truncated r) then Some (smuggle_base + rel / smuggle_unit) else None
      | FChunked _ zl tl, _ =>
          (* the crafted alternative end of a chunked body is followed by a whole unit *)
          match r_alt r with
          | Some (a, sid) => if (rel =? a + 2 + zl + tl) && negb (truncated r) then Some (smuggle_base + sid) else None
          | None => None
          end
      | _, _ => None
      end
  | None => None
  end.

Fixpoint cmp (c : cfg) (rs : list req) (m impl : list event) : bool :=
  match m with
  | [] => match impl with [] => true | _ => false end
  | EDesync id rel _ :: _ =>
      match predicted_smuggle c rs id rel with
      | Some sid => match impl with EDispatch j 0 RcOk :: _ => j =? sid | _ => false end
      | None => true                    (* garbage is parsed: not predicted at this level *)
      end
  | e :: m' => match impl with i :: impl' => ev_eqb e i && cmp c rs m' impl' | [] => false end
  end.

(* A connection that ends silently (ESilent: io.EOF while reading a body) does not flush the buffered
   writer: responses of earlier pipelined requests that were written while more input was already
   buffered never reach the peer.  Whether they were still buffered depends on how the input arrived
   in the bufio.Reader, which the model does not have: for such traces the implementation may lack
   keep-alive responses from some point on (its handler calls are still reported, in order). *)
Definition is_silent (e : event) : bool := match e with ESilent => true | _ => false end.
Definition keeps (e : event) : bool := visible e || is_silent e.

Fixpoint cmp_lossy (m impl : list event) (lost : bool) : bool :=
  match m with
  | [] => match impl with [] => true | _ => false end
  | ESilent :: m' => cmp_lossy m' impl lost
  | EResp s false :: m' =>
      if lost then cmp_lossy m' impl true
      else match impl with
           | i :: impl' => (ev_eqb (EResp s false) i && cmp_lossy m' impl' false) || cmp_lossy m' impl true
           | [] => cmp_lossy m' [] true
           end
  | e :: m' => match impl with i :: impl' => ev_eqb e i && cmp_lossy m' impl' lost | [] => false end
  end.

Definition cmp_trace (c : cfg) (rs : list req) (m impl : list event) : bool :=
  let m' := filter keeps m in
  if existsb is_silent m' then cmp_lossy m' impl false else cmp c rs (filter visible m) impl.

Definition model_trace (c : cfg) (rs : list req) : list event := filter visible (serve c rs 0).

Fixpoint cmp_conns (c : cfg) (conns : list (list req)) (ms impls : list (list event)) : bool :=
  match conns, ms, impls with
  | [], [], [] => true
  | rs :: cr, m :: mr, i :: ir => cmp_trace c rs m i && cmp_conns c cr mr ir
  | _, _, _ => false
  end.

Fixpoint judge_conns (c : cfg) (conns : list (list req)) (impls : list (list event)) : bool :=
  match conns, impls with
  | [], [] => true
  | rs :: cr, i :: ir => judge c rs i && judge_conns c cr ir
  | _, _ => false
  end.

Definition corr_ok (x : c02case) : bool :=
  match x with
  | C02Case c rs impl => cmp_trace c rs (serve c rs 0) impl
  | C02Multi c conns impls => cmp_conns c conns (serve_conns releaseRequestStream c conns []) impls
  end.

Definition prop_ok (x : c02case) : bool :=
  match x with
  | C02Case c rs impl => judge c rs impl
  | C02Multi c conns impls => judge_conns c conns impls
  end.
