(* Case type and the two checks evaluated on harness cases for C03. *)
From FH Require Import Model.Base Model.PackedBytes Gen.GenC03 Gen.GenC05 Model.Cookie Model.HeaderWrite Model.RespWrite
  Spec.RespParse Spec.RespSpec.
Open Scope Z_scope.

(* one request of a connection: method, what the server saw of it, the handler program, StatusMessage(final code) *)
Definition c03req := (meth * reqinfo * list hop * bytes)%type.

(* second opinion: what net/http.ReadResponse + io.ReadAll(Body) made of the same bytes, response by response
   (status, body); the list stops at its first error *)
Definition nhview := list (Z * bytes).

Inductive c03case :=
| C03Conn (cfg : srvcfg) (date : bytes) (reqs : list c03req)
          (wire : bytes)       (* every byte the peer received, Date values replaced by `date` *)
          (closed : bool)      (* the server closed the connection itself (it did not wait for another request) *)
          (nh : nhview).

Definition bufioSize : Z := defaultWriteBufferSize.   (* what a failed Write can leave unflushed *)

Fixpoint is_prefix (p s : bytes) : bool :=
  match p, s with
  | [], _ => true
  | x :: p', y :: s' => (x =? y)%N && is_prefix p' s'
  | _ :: _, [] => false
  end.

Definition corr_ok (c : c03case) : bool :=
  match c with
  | C03Conn cfg date reqs wire closed _ =>
      let '(full, part, cl) := serve_conn date cfg (map (fun r => match r with (_, q, prog, smsg) => (q, prog, smsg) end) reqs) in
      match part with
      | [] => beq wire full && Bool.eqb closed cl
      | _ =>
          (* a Write failed: the connection is closed without a flush; the peer has a prefix, at most one
             bufio buffer short *)
          closed && cl && is_prefix wire (full ++ part) &&
          (Z.of_nat (length (full ++ part)) - Z.of_nat (length wire) <=? bufioSize)
      end
  end.

(* net/http must not contradict the independent reader on the responses both accept *)
Fixpoint nh_agrees (ms : list meth) (wire : bytes) (nh : nhview) : bool :=
  match ms, nh with
  | m :: ms', (st, body) :: nh' =>
      match resp_parse m wire with
      | Some p => (p_status p =? st) && beq (p_body p) body && nh_agrees ms' (p_rest p) nh'
      | None => true
      end
  | _, _ => true
  end.

Definition prop_ok (c : c03case) : bool :=
  match c with
  | C03Conn cfg date reqs wire closed nh =>
      judge_conn (c_noNorm cfg) (map (fun r => match r with (m, _, prog, _) => (m, prog) end) reqs) wire closed &&
      nh_agrees (map (fun r => match r with (m, _, _, _) => m end) reqs) wire nh
  end.
