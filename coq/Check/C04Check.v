(* Case type and the two checks evaluated on harness cases for C04.

   C04Seq: a sequential history on a real HostClient over scripted in-memory connections.  The driver below turns every operation
   into the canonical sequence of LTS labels (Model/ClientConn.v, [step]) and the model's observation after every operation is
   compared with the implementation's (corr_ok).
   C04Hist: a recorded concurrent history (HostClient stress or PipelineClient): judged by the property oracle only. *)
From FH Require Import Model.Base Model.ClientConn.
Open Scope nat_scope.
Open Scope list_scope.

Record script := mkScript {
  sc_resp : resp;       (* the response the server produces for the request *)
  sc_send : nat;        (* how many symbols of it the server sends right away *)
  sc_close : bool;      (* ... and then closes the connection *)
  sc_wfail : bool       (* the client's write on the connection fails *)
}.

Inductive op :=
| OpCall (t : nat) (o : opts) (scs : list script)   (* HostClient.Do for request id t (< 100), until it returns; one script per attempt *)
| OpSrvMore (t : nat) (n : nat) (cl : bool)     (* the server sends n more symbols on the connection held by t (then closes) *)
| OpSrvConn (cid : nat) (n : nat) (cl : bool)   (* the same on connection number cid, wherever it is (nothing if it was closed) *)
| OpStreamRead (t : nat) (n : nat)              (* the caller reads up to n units from resp.BodyStream() *)
| OpCloseStream (t : nat) (werr : bool)         (* resp.CloseBodyStream() / resp.closeBodyStream(err) *)
| OpCleanIdle.                                  (* HostClient.CloseIdleConnections() *)

(* one recorded call of a concurrent history *)
Record hcall := mkH { hc_id : N; hc_head : bool; hc_code : N; hc_hdr : N; hc_body : list N }.

Inductive c04case :=
| C04Seq (max maxconns : nat) (reset lifo : bool) (ops : list op) (obs : list (list N))
| C04Hist (calls : list hcall).

(* ---- observations --------------------------------------------------------------------------------------------------------- *)
Definition code (o : outcome) : N := match o with OOk => 0 | OTimeout => 1 | OTooLarge => 2 | OErr => 3 end%N.
Definition NOFREE : N := 9%N.
Definition OUTOFMODEL : N := 99%N.

(* the a-th attempt (RoundTrip) of request t is thread t + 100*a of the LTS; its symbols carry that tag, the wire carries X-Id t.
   a delivered symbol: 4*(tag mod 100) + class (0 genuine head, 1 body unit that is a crafted head, 2 plain body unit); chunk framing is invisible *)
Definition enc_sym (ts : tsym) : list N :=
  match snd ts with
  | SHead _ => [N.of_nat (4 * (fst ts mod 100))]
  | SChunk _ => []
  | SBody (Some _) => [N.of_nat (4 * (fst ts mod 100) + 1)]
  | SBody None => [N.of_nat (4 * (fst ts mod 100) + 2)]
  | STerm => []
  end.
Definition enc (l : list tsym) : list N := flat_map enc_sym l.

Definition held_count (s : st) (ts : list nat) : nat :=
  length (filter (fun t => match s_thr s t with TRun _ _ _ => true | _ => false end) ts).

(* [idle; open] = IdleConnsCount(), ConnsCount() *)
Definition pool_obs (s : st) (ts : list nat) : list N :=
  [N.of_nat (length (s_idle s)); N.of_nat (length (s_idle s) + held_count s ts)].

(* ---- the driver ------------------------------------------------------------------------------------------------------------- *)
Record dst := mkD { d_st : st; d_thr : list nat; d_rd : list (nat * nat) }.   (* d_rd: units of an in-memory stream already read *)

Definition try_step (s : st) (l : label) : st := match step s l with Some s1 => s1 | None => s end.

Fixpoint srv_sends (s : st) (l : loc) (n : nat) : st :=
  match n with
  | 0 => s
  | S m => match step s (LSrvSend l) with Some s1 => srv_sends s1 l m | None => s end
  end.

(* the client side of RoundTrip after the write: read until it returns *)
Fixpoint read_loop (fuel : nat) (s : st) (t : nat) : st :=
  match fuel with
  | 0 => s
  | S f =>
      match s_thr s t with
      | TRun x p k =>
          if is_stream_phase p then s
          else match c_inb k with
               | _ :: _ => match step s (LRead t) with Some s1 => read_loop f s1 t | None => s end
               | [] =>
                   match p with
                   | PBodyIdent _ => if c_srvclosed k then try_step s (LReadEof t) else try_step s (LFail t OTimeout)
                   | _ => try_step s (LFail t (if c_srvclosed k then OErr else OTimeout))
                   end
               end
      | _ => s
      end
  end.

Definition body_part (g : list tsym) : list tsym := match g with [] => [] | _ :: b => b end.
Definition head_part (g : list tsym) : list tsym := match g with [] => [] | a :: _ => [a] end.

Definition call_obs (s : st) (ts : list nat) (t : nat) : list N :=
  match s_thr s t with
  | TDone x OOk _ => [0%N; N.of_nat (x_cid x)] ++ pool_obs s ts ++ enc (x_got x)
  | TDone x o _ => [code o; N.of_nat (x_cid x)] ++ pool_obs s ts
  | TRun x p _ =>
      if is_stream_phase p then [0%N; N.of_nat (x_cid x)] ++ pool_obs s ts ++ enc (head_part (x_got x))
      else [OUTOFMODEL]
  | TNone => [OUTOFMODEL]
  end.

(* one RoundTrip as thread u; the result says whether HostClient.Do may try again (RoundTrip's retry flag) *)
Definition do_attempt (maxconns : nat) (reset lifo : bool) (d : dst) (u : nat) (o : opts) (sc : script) : dst * list N * bool :=
  let s := d_st d in
  let ts := u :: d_thr d in
  (* ConnPoolStrategy: LIFO takes the most recently released connection, FIFO (the default) the least recently released one *)
  let from := match s_idle s with [] => None | _ :: r => Some (if lifo then 0 else length r) end in
  if match from with None => Nat.leb maxconns (held_count s (d_thr d)) | Some _ => false end then (d, [NOFREE], false) else
  match step s (LAcquire u o from) with
  | None => (d, [OUTOFMODEL], false)
  | Some s1 =>
      let fin s' := (mkD s' ts (d_rd d), call_obs s' ts u,
                     match s_thr s' u with TDone _ OTimeout _ | TDone _ OErr _ => true | _ => false end) in
      if sc_wfail sc then fin (try_step s1 (LFail u OErr)) else
      (* sync.Pool hands back a pooled reader if there is one (which one is unobservable) *)
      let s2 := try_step s1 (LWrite u reset (match s_rfree s1 with [] => None | _ :: _ => Some 0 end)) in
      (* the scripted server delivers whatever it was holding back on this connection, then reads the request *)
      let s2 := srv_sends s2 (HeldBy u) 64 in
      let s3 := try_step s2 (LSrvRead (HeldBy u) (sc_resp sc)) in
      let s4 := srv_sends s3 (HeldBy u) (sc_send sc) in
      let s5 := if sc_close sc then try_step s4 (LSrvClose (HeldBy u)) else s4 in
      fin (read_loop 48 s5 u)
  end.

(* HostClient.Do: the retry loop (all requests of the replay are idempotent: GET / HEAD) *)
Fixpoint do_call (maxconns : nat) (reset lifo : bool) (d : dst) (t a : nat) (o : opts) (scs : list script) : dst * list N :=
  match scs with
  | [] => (d, [OUTOFMODEL])
  | sc :: rest =>
      let '(d1, ob, again) := do_attempt maxconns reset lifo d (t + 100 * a) o sc in
      match rest with
      | _ :: _ => if again then do_call maxconns reset lifo d1 t (S a) o rest else (d1, ob)
      | [] => (d1, ob)
      end
  end.

(* the thread that stands for request t now: its last attempt *)
Definition cur (s : st) (t : nat) : nat :=
  match s_thr s (t + 200), s_thr s (t + 100) with
  | TRun _ _ _, _ => t + 200
  | _, TRun _ _ _ => t + 100
  | _, _ => t
  end.

Fixpoint clean_idle (n : nat) (s : st) : st :=
  match n with
  | 0 => s
  | S m => match step s (LCleanIdle 0) with Some s1 => clean_idle m s1 | None => s end
  end.

Definition rd_count (d : dst) (t : nat) : nat :=
  match find (fun p => Nat.eqb (fst p) t) (d_rd d) with Some p => snd p | None => 0 end.

(* reading a requestStream: [status] ++ delivered units; status 0 = all n units, 1 = io.EOF reached, 2 = error *)
Fixpoint stream_loop (fuel n : nat) (s : st) (t : nat) (acc : list N) : st * list N :=
  match fuel, n with
  | 0, _ | _, 0 => (s, 0%N :: acc)
  | S f, S m =>
      match s_thr s t with
      | TRun x p k =>
          match p with
          | PStreamLen 0 _ | PStreamLen _ true | PStreamChunked _ true | PStreamIdent true => (s, 1%N :: acc)
          | PStreamBroken => (s, 2%N :: acc)
          | _ =>
              match c_inb k with
              | (tg, sy) :: _ =>
                  match step s (LStreamRead t) with
                  | Some s1 =>
                      match p, sy with
                      | PStreamChunked 0 _, STerm => (s1, 1%N :: acc)
                      | PStreamChunked 0 _, _ => stream_loop f n s1 t acc        (* the chunk-size line: no unit yet *)
                      | _, _ => stream_loop f m s1 t (acc ++ enc_sym (tg, sy))
                      end
                  | None => (try_step s (LStreamErr t), 2%N :: acc)
                  end
              | [] =>
                  if c_srvclosed k
                  then match stream_eof p with
                       | Some _ => (try_step s (LStreamEof t), 1%N :: acc)
                       | None => (s, 2%N :: acc)
                       end
                  else (try_step s (LStreamErr t), 2%N :: acc)
              end
          end
      | _ => (s, [OUTOFMODEL])
      end
  end.

(* where connection number cid is *)
Fixpoint idle_index (cid : nat) (l : list conn) (i : nat) : option nat :=
  match l with
  | [] => None
  | k :: r => if Nat.eqb (c_id k) cid then Some i else idle_index cid r (S i)
  end.
Definition find_conn (s : st) (ts : list nat) (cid : nat) : option loc :=
  match idle_index cid (s_idle s) 0 with
  | Some i => Some (AtIdle i)
  | None =>
      match find (fun t => match s_thr s t with TRun _ _ k => Nat.eqb (c_id k) cid | _ => false end) ts with
      | Some t => Some (HeldBy t)
      | None => None
      end
  end.

Definition firstn_skipn {A} (a n : nat) (l : list A) : list A := firstn n (skipn a l).

Definition do_op (maxconns : nat) (reset lifo : bool) (d : dst) (o : op) : dst * list N :=
  let s := d_st d in
  match o with
  | OpCall t o scs => do_call maxconns reset lifo d t 0 o scs
  | OpSrvMore t0 n cl =>
      let t := cur s t0 in
      let s1 := srv_sends s (HeldBy t) n in
      let s2 := if cl then try_step s1 (LSrvClose (HeldBy t)) else s1 in
      (mkD s2 (d_thr d) (d_rd d), [])
  | OpSrvConn cid n cl =>
      match find_conn s (d_thr d) cid with
      | Some l =>
          let s1 := srv_sends s l n in
          let s2 := if cl then try_step s1 (LSrvClose l) else s1 in
          (mkD s2 (d_thr d) (d_rd d), [])
      | None => (d, [])
      end
  | OpStreamRead t0 n =>
      let t := cur s t0 in
      match s_thr s t with
      | TRun x PHold _ =>
          let a := rd_count d t in
          let units := enc (firstn_skipn a n (body_part (x_got x))) in
          let st_ := if Nat.ltb (length units) n then 1%N else 0%N in
          (mkD s (d_thr d) ((t, a + length units) :: d_rd d), st_ :: units)
      | TRun _ _ _ => let '(s1, ob) := stream_loop (S (S (n + n))) n s t [] in (mkD s1 (d_thr d) (d_rd d), ob)
      | _ => (d, [OUTOFMODEL])
      end
  | OpCloseStream t0 werr =>
      let t := cur s t0 in
      match step s (LCloseStream t werr) with
      | Some s1 => (mkD s1 (d_thr d) (d_rd d), pool_obs s1 (d_thr d))
      | None => (d, [OUTOFMODEL])
      end
  | OpCleanIdle =>
      let s1 := clean_idle (length (s_idle s)) s in
      (mkD s1 (d_thr d) (d_rd d), pool_obs s1 (d_thr d))
  end.

Fixpoint do_ops (maxconns : nat) (reset lifo : bool) (d : dst) (ops : list op) : list (list N) :=
  match ops with
  | [] => []
  | o :: rest => let '(d1, ob) := do_op maxconns reset lifo d o in ob :: do_ops maxconns reset lifo d1 rest
  end.

Definition model_obs (max maxconns : nat) (reset lifo : bool) (ops : list op) : list (list N) :=
  do_ops maxconns reset lifo (mkD (init max) [] []) ops.

Definition corr_ok (c : c04case) : bool :=
  match c with
  | C04Seq max maxconns reset lifo ops obs => list_eqb (list_eqb N.eqb) (model_obs max maxconns reset lifo ops) obs
  | C04Hist _ => true
  end.

(* ---- the property, judged on the implementation's observation only --------------------------------------------------------- *)
(* every delivered unit carries the caller's own id and no crafted head is taken for a response head *)
Definition own_units (t : nat) (l : list N) : bool :=
  forallb (fun v => N.eqb (N.div v 4) (N.of_nat t)) l.
Definition own_head (t : nat) (l : list N) : bool :=
  match l with
  | [] => true
  | hd :: b => N.eqb hd (N.of_nat (4 * t)) && own_units t b
  end.

Definition op_ok (o : op) (ob : list N) : bool :=
  match o, ob with
  | OpCall t _ _, c :: _ :: _ :: _ :: delivered => if N.eqb c 0 then own_head t delivered else true
  | OpStreamRead t _, _ :: units => own_units t units
  | _, _ => true
  end.

Fixpoint ops_ok (ops : list op) (obs : list (list N)) : bool :=
  match ops, obs with
  | o :: r, ob :: r' => op_ok o ob && ops_ok r r'
  | _, _ => true
  end.

Definition hcall_ok (h : hcall) : bool :=
  if N.eqb (hc_code h) 0
  then N.eqb (hc_hdr h) (hc_id h) && forallb (N.eqb (hc_id h)) (hc_body h)
       && (if hc_head h then match hc_body h with [] => true | _ => false end else true)
  else true.

Definition prop_ok (c : c04case) : bool :=
  match c with
  | C04Seq _ _ _ _ ops obs => ops_ok ops obs
  | C04Hist calls => forallb hcall_ok calls
  end.
