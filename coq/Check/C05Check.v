(* Case type and the two checks evaluated on harness cases for C05. *)
From FH Require Import Model.Base Gen.GenC05 Model.Ints Model.ByteClassModel Model.Cookie Model.HeaderWrite Model.ReqUri Spec.HeadLines.
From FH Require Model.Args.
Open Scope N_scope.

(* what a second-opinion parser (fasthttp's own, net/http) reported about the serialised bytes:
   None = it rejected them; Some (field names, bytes left unread after the message, body it delivered) *)
Definition peerview := option (list bytes * Z * bytes).

Inductive c05case :=
(* ResponseHeader: ops, StatusMessage(final code), Header() with the Date value replaced by fixedDate, TrailerHeader() *)
| CResp (ops : list rop) (smsg : bytes) (impl : bytes) (impl_trailer : bytes) (peers : list peerview)
(* RequestHeader: ops, Header(), TrailerHeader() *)
| CReq (ops : list qop) (impl : bytes) (impl_trailer : bytes) (peers : list peerview)
(* Response.Write with an in-memory body *)
| CRespWrite (ops : list rop) (smsg : bytes) (skipBody : bool) (body : bytes) (impl : bytes) (peers : list peerview)
(* Request.Write: header ops, then the URI-derived inputs (read from the real URI object), body; None = error *)
| CReqWrite (ops : list qop) (parsedURI useHostHeader : bool) (uriHost uriRequestURI user pass body : bytes)
            (impl : option bytes) (peers : list peerview)
(* Request.Write after the caller worked on the URI object obtained from req.URI(): header ops, normalizePath answers,
   the object's state right after req.URI() (read through its getters), the URI setter calls, body; None = error *)
| CReqWriteU (ops : list qop) (parsedURI useHostHeader : bool) (np : list (bytes * bytes)) (u0 : uriobj) (uops : list uop)
             (body : bytes) (impl : option bytes) (peers : list peerview)
(* httpProxyDial: target address, base64 auth; what was written to the proxy connection (None = refused before dialing) *)
| CConnect (addr auth : bytes) (impl : option bytes) (peers : list peerview)
(* removeNewLines on its own *)
| CRNL (s : bytes) (impl : bytes).

Definition fixedDate : bytes := s2b "Thu, 01 Jan 1970 00:00:00 GMT".
Definition obeq (a b : option bytes) : bool := option_eqb beq a b.

Definition corr_ok (c : c05case) : bool :=
  match c with
  | CResp ops smsg impl implt _ =>
      let r := rrun ops in
      beq (RespAppendBytes (fun _ => smsg) fixedDate r) impl && beq (RespTrailerHeader r) implt
  | CReq ops impl implt _ =>
      let q := qrun ops in
      beq (ReqAppendBytes [] q) impl && beq (ReqTrailerHeader q) implt
  | CRespWrite ops smsg skip body impl _ =>
      beq (snd (ResponseWrite (fun _ => smsg) fixedDate (rrun ops) skip body)) impl
  | CReqWrite ops parsed useHost uh uu user pass body impl _ =>
      obeq (option_map snd (RequestWrite (qrun ops) parsed useHost uh uu user pass body)) impl
  | CReqWriteU ops parsed useHost np u0 uops body impl _ =>
      obeq (option_map snd (RequestWriteU (qrun ops) parsed useHost (urun (np_of_table np) u0 uops) body)) impl
  | CConnect addr auth impl _ => obeq (connectRequest addr auth) impl
  | CRNL s impl => beq (removeNewLines s) impl
  end.

(* ---- the property, judged on the implementation's bytes ---- *)
(* which field names a setter call may legitimately cause (a table about the API, not about its code) *)
Definition N_ (s : string) : bytes := s2b s.
Definition rop_names (o : rop) : list bytes :=
  match o with
  | ROSet k _ | ROAdd k _ | ROSetCanonical k _ => [asked_name k]
  | ROSetContentType _ => [N_ "Content-Type"]
  | ROSetContentEncoding _ => [N_ "Content-Encoding"]
  | ROSetServer _ => [N_ "Server"]
  | ROSetContentLength _ => [N_ "Content-Length"; N_ "Transfer-Encoding"; N_ "Connection"]
  | ROSetConnectionClose => [N_ "Connection"]
  | ROSetTrailer _ | ROAddTrailer _ => [N_ "Trailer"]
  | ROSetCookie _ => [N_ "Set-Cookie"]
  | _ => []
  end.
Definition qop_names (o : qop) : list bytes :=
  match o with
  | QOSet k _ | QOAdd k _ | QOSetCanonical k _ => [asked_name k]
  | QOSetHost _ => [N_ "Host"]
  | QOSetUserAgent _ => [N_ "User-Agent"]
  | QOSetReferer _ | QOSetRefererBytes _ => [N_ "Referer"]
  | QOSetContentType _ | QOSetMultipartFormBoundary _ => [N_ "Content-Type"]
  | QOSetContentEncoding _ | QOSetContentEncodingBytes _ => [N_ "Content-Encoding"]
  | QOSetContentLength _ => [N_ "Content-Length"; N_ "Transfer-Encoding"]
  | QOSetConnectionClose => [N_ "Connection"]
  | QOSetTrailer _ | QOAddTrailer _ => [N_ "Trailer"]
  | QOSetCookie _ _ => [N_ "Cookie"]
  | _ => []
  end.

Definition count_name (n : bytes) (l : list bytes) : nat := length (filter (name_eq n) l).
(* every name seen is producible, and not seen more often than calls that can produce it *)
Definition names_within (produced : list bytes) (seen : list bytes) : bool :=
  forallb (fun n => (1 <=? count_name n produced)%nat && (count_name n seen <=? count_name n produced)%nat) seen.

(* bytes are CRLF-structured: every CR is followed by LF and every LF preceded by CR *)
Fixpoint crlf_paired (b : bytes) : bool :=
  match b with
  | [] => true
  | 13 :: 10 :: r => crlf_paired r
  | c :: r => negb (is_crlf c) && crlf_paired r
  end.

Definition empty_key_asked (names : list bytes) : bool := existsb (fun n => beq n []) names.

(* The model-independent reader sees exactly one head: CR/LF only as line terminators, no CR/LF inside the first
   line or any field, names producible and not more frequent than the calls that can produce them, and what follows
   the head is one of `bodies`.  If it rejects the bytes, that is acceptable only when the caller asked for an empty
   header name (the only way AppendBytes can write a line without a field name). *)
Definition head_check (produced : list bytes) (bodies : list bytes) (out : bytes) : bool :=
  match read_head out with
  | None => empty_key_asked produced
  | Some (Head first fs rest) =>
      crlf_paired (firstn (length out - length rest) out) &&
      no_crlf first && forallb (fun nv => no_crlf (fst nv) && no_crlf (snd nv)) fs &&
      names_within produced (map fst fs) && existsb (beq rest) bodies
  end.
Definition trailer_within (out : bytes) : bool :=
  crlf_paired out &&
  match read_trailer out with
  | None => false
  | Some (fs, rest) => forallb (fun nv => no_crlf (fst nv) && no_crlf (snd nv)) fs && beq rest []
  end.

(* fasthttp's header object reports names it derives itself (Connection: close for a response without length,
   default Content-Type, Content-Length, Host taken from an absolute-form target) next to the ones it read: they are tolerated in a second opinion *)
Definition peer_derived : list bytes :=
  [N_ "Connection"; N_ "Content-Length"; N_ "Content-Type"; N_ "Transfer-Encoding"; N_ "Host" (* from an absolute request target *)].
Definition peer_ok (produced0 : list bytes) (bodies : list bytes) (p : peerview) : bool :=
  let produced := peer_derived ++ produced0 in
  match p with
  | None => true                                      (* rejected by the peer *)
  | Some (names, leftover, pbody) => names_within produced names && (leftover =? 0)%Z && existsb (beq pbody) bodies
  end.

Definition resp_always : list bytes := [N_ "Date"; N_ "Content-Type"].
Definition req_always : list bytes := [N_ "Content-Type"].

Definition judge (produced : list bytes) (bodies : list bytes) (out : bytes) (peers : list peerview) : bool :=
  head_check produced bodies out && forallb (peer_ok produced bodies) peers.

Definition prop_ok (c : c05case) : bool :=
  match c with
  | CResp ops _ impl implt peers =>
      crlf_paired impl && judge (resp_always ++ flat_map rop_names ops) [[]] impl peers && trailer_within implt
  | CReq ops impl implt peers =>
      crlf_paired impl && judge (req_always ++ flat_map qop_names ops) [[]] impl peers && trailer_within implt
  | CRespWrite ops _ skip body impl peers =>
      (* the body follows the head, or is absent when the status / SkipBody forbids one *)
      judge (resp_always ++ [N_ "Content-Length"] ++ flat_map rop_names ops) [body; []] impl peers
  | CReqWrite ops _ _ _ _ _ _ body impl peers =>
      match impl with
      | None => true                                   (* the message is refused *)
      | Some out =>
          judge (req_always ++ [N_ "Host"; N_ "Authorization"; N_ "Content-Length"] ++ flat_map qop_names ops)
                [body; []] out peers
      end
  | CReqWriteU ops _ _ _ _ _ body impl peers =>
      match impl with
      | None => true
      | Some out =>
          judge (req_always ++ [N_ "Host"; N_ "Authorization"; N_ "Content-Length"] ++ flat_map qop_names ops)
                [body; []] out peers
      end
  | CConnect addr auth impl peers =>
      match impl with
      | None => true
      | Some out => crlf_paired out && judge [N_ "Host"; N_ "Proxy-Authorization"] [[]] out peers
      end
  | CRNL s impl => no_crlf impl && beq impl (neutralise s)
  end.
