(* Case type and the two checks evaluated on harness cases for C06. *)
From FH Require Import Model.Base Gen.GenC06 Model.Ints Model.ByteClassModel Model.Cookie Spec.CookieSpec.
Open Scope N_scope.

Definition cookie_eqb (a b : cookie) : bool :=
  beq (ck_key a) (ck_key b) && beq (ck_value a) (ck_value b) && beq (ck_domain a) (ck_domain b) && beq (ck_path a) (ck_path b) &&
  (ck_expire a =? ck_expire b)%Z && (ck_maxAge a =? ck_maxAge b)%Z && sameSite_eqb (ck_sameSite a) (ck_sameSite b) &&
  Bool.eqb (ck_httpOnly a) (ck_httpOnly b) && Bool.eqb (ck_secure a) (ck_secure b) && Bool.eqb (ck_partitioned a) (ck_partitioned b).

Inductive c06case :=
(* Cookie setters: normalizePath answers, setter calls, the object's getters afterwards, Cookie() bytes,
   Cookie.ParseBytes of those bytes (None = error), and the same cookie recovered through
   ResponseHeader.SetCookie -> Response.Write -> Response.Read -> Header.Cookie (None = not recovered / parse error) *)
| CCookie (np : list (bytes * bytes)) (ops : list cop) (stored : cookie) (impl : bytes)
          (parsed : option cookie) (via_header : option cookie)
(* Cookie.ParseBytes on an arbitrary string (model correspondence of the parser's branches) *)
| CParse (src : bytes) (parsed : option cookie)
(* RequestHeader.SetCookie calls; the Cookie header value; what parseRequestCookies makes of it; what a server
   that reads the written request reports through VisitAllCookie (None = it rejected the request) *)
| CReqCookies (sets : list (bytes * bytes)) (line : bytes) (seen : list (bytes * bytes)) (wire : option (list (bytes * bytes)))
(* parseRequestCookies on an arbitrary string *)
| CReqParse (src : bytes) (seen : list (bytes * bytes))
(* RequestHeader cookie jar under SetCookie / DelCookie / DelAllCookies / Set("Cookie", "k=v; ..."): the jar as
   VisitAllCookie shows it on the same object, the Cookie header value, what parseRequestCookies reads from it,
   RequestHeader.Cookie(key) for some keys, and the server's view of the written request *)
| CReqJar (ops : list jop) (direct : kvs) (line : bytes) (seen : kvs) (peeks : list (bytes * option bytes)) (wire : option kvs)
(* ResponseHeader cookie jar under SetCookie(cookie) / DelCookie / DelClientCookie / DelAllCookies: normalizePath answers,
   the operations (cookies as setter sequences), the same operations with the cookie objects' observed state, the jar as
   VisitAllCookie shows it with Cookie.ParseBytes of every value, and the values a client reads from the written response *)
| CRespJar (np : list (bytes * bytes)) (ops : list (rjop_src)) (sops : list sjop) (direct : list (bytes * bytes * option cookie))
           (wire : option (list (bytes * option cookie)))
with rjop_src := RSSet (cops : list cop) | RSDel (k : bytes) | RSDelClient (k : bytes) | RSDelAll
with sjop := SJSet (stored : cookie) | SJDel (k : bytes) | SJDelClient (k : bytes) | SJDelAll.

Definition kvs_eqb (a b : kvs) : bool := list_eqb kv_eqb a b.

Definition parse_matches (p : presult) (impl : option cookie) : bool :=
  match p, impl with
  | PCookie c, Some c' => cookie_eqb c c'
  | PUnmodelledExpires, _ => true          (* time.Parse fallbacks are not modelled *)
  | POutOfFuel, _ => false
  | PCookie _, None => false
  | _, None => true
  | _, Some _ => false
  end.

Definition corr_ok (c : c06case) : bool :=
  match c with
  | CCookie np ops stored impl parsed _ =>
      let m := crun (np_of_table np) ops in
      cookie_eqb m stored && beq (Cookie_ m) impl && parse_matches (ParseBytes impl) parsed
  | CParse src parsed => parse_matches (ParseBytes src) parsed
  | CReqCookies sets line seen _ =>
      let jar := fold_left (fun j kv => jarSetCookie j (fst kv) (snd kv)) sets [] in
      beq (appendRequestCookieBytes [] jar) line && option_eqb kvs_eqb (parseRequestCookies [] line) (Some seen)
  | CReqParse src seen => option_eqb kvs_eqb (parseRequestCookies [] src) (Some seen)
  | CReqJar ops direct line seen peeks _ =>
      let jar := jrun ops in
      kvs_eqb jar direct && beq (appendRequestCookieBytes [] jar) line &&
      option_eqb kvs_eqb (parseRequestCookies [] line) (Some seen) &&
      forallb (fun p => option_eqb beq (jarCookie jar (fst p)) (snd p)) peeks
  | CRespJar np ops _ direct _ =>
      let f := np_of_table np in
      let jar := rjrun (map (fun o => match o with RSSet cops => RJSet (crun f cops) | RSDel k => RJDel k
                                      | RSDelClient k => RJDelClient k | RSDelAll => RJDelAll end) ops) in
      kvs_eqb jar (map fst direct) && forallb (fun d => parse_matches (ParseBytes (snd (fst d))) (snd d)) direct
  end.

(* ---- the property on the implementation's observables ---- *)
(* the attributes a parsed Set-Cookie must show for a cookie object in state `s` (documented semantics: max-age
   wins over expires, a negative max-age is written as 0, outer blanks / one pair of quotes are not significant) *)
Definition attrs_match (s p : cookie) : bool :=
  (ck_maxAge p =? Z.max 0 (ck_maxAge s))%Z &&
  (ck_expire p =? (if (ck_maxAge s =? 0)%Z then ck_expire s else zeroTime))%Z &&
  beq (ck_domain p) (attr_norm (ck_domain s)) && beq (ck_path p) (attr_norm (ck_path s)) &&
  Bool.eqb (ck_httpOnly p) (ck_httpOnly s) && Bool.eqb (ck_secure p) (ck_secure s) &&
  sameSite_eqb (ck_sameSite p) (ck_sameSite s) && Bool.eqb (ck_partitioned p) (ck_partitioned s).

(* path characters a Set-Cookie parser accepts (net/http's validCookiePathByte) *)
Definition path_octets (s : bytes) : bool := forallb (fun c => (32 <=? c) && (c <? 127) && negb (c =? 59)) s.
Definition plain (s : bytes) : bool := beq (attr_norm s) s.

Definition octet_class (s : cookie) : bool :=
  cookie_name (ck_key s) && octets (ck_value s) && octets (ck_domain s) && path_octets (ck_path s) && plain (ck_path s).

Definition view_ok (s : cookie) (p : option cookie) : bool :=
  match p with
  | Some p =>
      attrs_match s p &&
      (if octet_class s then beq (ck_key p) (ck_key s) && beq (ck_value p) (ck_value s) else true)
  | None => negb (octet_class s)              (* a parse error is a rejection, but octet cookies must round-trip *)
  end.

(* The same cookie observed through a written and re-read response: the header reader drops optional whitespace
   (SP / HTAB) around the whole Set-Cookie field value before the cookie parser sees it, so blanks at the very start or
   end of the serialised cookie (a tab-only domain as last attribute, a value starting with a tab under an empty key)
   may be gone and a quote pair may become removable.  Text attributes are therefore compared up to blanks and double
   quotes; everything else exactly as in the direct view. *)
Definition squash (s : bytes) : bytes := filter (fun c => negb ((c =? 32) || (c =? 9) || (c =? 34))) s.
Definition attrs_match_wire (s p : cookie) : bool :=
  (ck_maxAge p =? Z.max 0 (ck_maxAge s))%Z &&
  (ck_expire p =? (if (ck_maxAge s =? 0)%Z then ck_expire s else zeroTime))%Z &&
  beq (squash (ck_domain p)) (squash (ck_domain s)) && beq (squash (ck_path p)) (squash (ck_path s)) &&
  Bool.eqb (ck_httpOnly p) (ck_httpOnly s) && Bool.eqb (ck_secure p) (ck_secure s) &&
  sameSite_eqb (ck_sameSite p) (ck_sameSite s) && Bool.eqb (ck_partitioned p) (ck_partitioned s).
Definition view_ok_wire (s p : cookie) : bool :=
  attrs_match_wire s p &&
  (if octet_class s then beq (ck_key p) (ck_key s) && beq (ck_value p) (ck_value s) else true).

Definition stored_clean (s : cookie) : bool :=
  no_sep (ck_key s) && no_sep (ck_value s) && no_sep (ck_domain s) && no_sep (ck_path s).

(* request side *)
Definition distinct_keys (sets : list (bytes * bytes)) : nat := length (jar_of sets).
Definition seen_ok (sets : list (bytes * bytes)) (seen : list (bytes * bytes)) : bool :=
  subseq kv_eqb seen (map seen_pair (jar_of sets)) && (length seen <=? distinct_keys sets)%nat.
(* through the wire the header reader may additionally drop blanks/tabs around the whole value *)
Definition loose (s : bytes) : bytes := filter (fun c => negb ((c =? 32) || (c =? 9))) s.
Definition wire_ok (sets : list (bytes * bytes)) (seen : list (bytes * bytes)) : bool :=
  (length seen <=? distinct_keys sets)%nat &&
  forallb (fun kv => existsb (fun e => beq (loose (fst kv)) (loose (fst e))) (map seen_pair (jar_of sets))) seen.

(* the cookies that were set, operation by operation *)
Fixpoint del_key (j : list (bytes * bytes)) (k : bytes) : list (bytes * bytes) :=
  match j with [] => [] | kv :: r => if beq k (fst kv) then del_key r k else kv :: del_key r k end.
Definition sjar_step (j : list (bytes * bytes)) (o : jop) : list (bytes * bytes) :=
  match o with
  | JSet k v => assoc_set j (clean k) (clean v)
  | JDel k => del_key j k
  | JDelAll => []
  | JRaw pairs => j ++ pairs        (* the generator only gives token=octets pairs here *)
  end.
Definition sjar (ops : list jop) : list (bytes * bytes) := fold_left sjar_step ops [].
Fixpoint lookup_kv (j : list (bytes * bytes)) (k : bytes) : option bytes :=
  match j with [] => None | kv :: r => if beq (fst kv) k then Some (snd kv) else lookup_kv r k end.

Fixpoint rs_set (j : list cookie) (c : cookie) : list cookie :=
  match j with [] => [c] | x :: r => if beq (ck_key c) (ck_key x) then c :: r else x :: rs_set r c end.
Definition rs_del (j : list cookie) (k : bytes) : list cookie := filter (fun x => negb (beq k (ck_key x))) j.
Definition deletion_cookie (k : bytes) : cookie := mkCookie (clean k) [] [] [] 1257894000%Z 0 SSDisabled false false false.
Definition rs_step (j : list cookie) (o : sjop) : list cookie :=
  match o with
  | SJSet c => rs_set j c
  | SJDel k => rs_del j k
  | SJDelClient k => rs_set (rs_del j k) (deletion_cookie k)
  | SJDelAll => []
  end.
Fixpoint all2 {A B} (f : A -> B -> bool) (a : list A) (b : list B) : bool :=
  match a, b with [], [] => true | x :: a', y :: b' => f x y && all2 f a' b' | _, _ => false end.

Definition prop_ok (c : c06case) : bool :=
  match c with
  | CCookie _ _ stored impl parsed via =>
      stored_clean stored && view_ok stored parsed &&
      match via with Some p => view_ok_wire stored p | None => true end
  | CParse _ _ => true
  | CReqCookies sets line seen wire =>
      seen_ok sets seen && match wire with Some w => wire_ok sets w | None => true end
  | CReqParse _ _ => true
  | CReqJar ops direct line seen peeks wire =>
      let j := sjar ops in
      (* the server sees a subsequence of the cookies that are set, read as key=value texts, never more *)
      subseq kv_eqb seen (map seen_pair j) && (length seen <=? length j)%nat &&
      forallb (fun p => option_eqb beq (lookup_kv j (fst p)) (snd p)) peeks &&
      match wire with
      | Some w => (length w <=? length j)%nat &&
                  forallb (fun kv => existsb (fun e => beq (loose (fst kv)) (loose (fst e))) (map seen_pair j)) w
      | None => true
      end
  | CRespJar _ _ sops direct wire =>
      let j := fold_left rs_step sops [] in
      (* exactly one Set-Cookie per key that is set, each reading back as the cookie last set under that key *)
      forallb stored_clean j && all2 (fun d s => view_ok s (snd d)) direct j &&
      match wire with
      | Some w => (length w <=? length j)%nat &&
                  forallb (fun vp => match snd vp with
                                     | Some p => existsb (fun s => view_ok_wire s p) j
                                     | None => true end) w
      | None => true
      end
  end.
