(* Case type and the two checks evaluated on harness cases for C07. *)
From FH Require Import Model.Base Gen.GenC30 Gen.GenC34 Gen.GenC07 Model.Ints Model.Body Model.BodyWrite Model.StreamLife
     Model.SizeLimits Model.Lines Model.ReqHead Spec.IntsSpec Spec.BodySpec Check.C34Check Proof.SizeLimitsHeadProof.
Open Scope Z_scope.

(* body framing modes *)
Inductive bmode := MFixed | MChunked | MIdentity.

Inductive c07case :=
(* readBody / readBodyChunked / readBodyIdentity called directly with dst = nil; capobs = cap(returned slice) *)
| CReadFn (m : bmode) (cl L : Z) (wire : bytes) (o : robs) (capobs : Z)
(* Request.ReadLimitBody / Response.ReadLimitBody; wire = what follows the head *)
| CReadMsg (mk : mkind) (m : bmode) (cl L : Z) (wire : bytes) (o : robs)
(* bodies too big for a Coq term: framed = body length announced by the framing, all bytes delivered *)
| CReadBig (mk : mkind) (m : bmode) (L framed : Z) (okLen : option Z) (tooLarge : bool) (capobs : Z)
(* a real Server over an in-memory listener: configured MaxRequestBodySize, what came back *)
| CServer (cfgMax : Z) (m : bmode) (framed : Z) (status : Z) (closed dispatched : bool) (seenLen : Z)
(* a real HostClient with MaxResponseBodySize = L *)
| CClient (L : Z) (m : bmode) (framed : Z) (okLen : option Z) (tooLarge : bool)
(* Body*WithLimit on a compressed body that inflates to inflatedLen bytes (bad_end: the compressed data is cut) *)
| CInflate (codec : Z) (mk : mkind) (L inflatedLen : Z) (bad_end : bool) (okLen : option Z) (tooLarge : bool) (allocDelta : Z)
(* Request.MultipartFormWithLimit: 0 = parsed, 1 = ErrBodyTooLarge, 2 = other error *)
| CMultipart (L ce bodyLen inflatedLen : Z) (res : Z)
(* a real Server with ReadBufferSize cfgBuf and a request head of headLen bytes *)
| CHead (cfgBuf headLen : Z) (status : Z) (closed dispatched : bool)
(* the same with the head's bytes, through the ReqHead model *)
| CHeadModel (cfgBuf : Z) (input : bytes) (status : Z) (closed dispatched : bool)
| CRoundUp (n r : Z)
(* Request.ReadLimitBody (+ ContinueReadBody after Expect: 100-continue) on a multipart/form-data request with
   Content-Length cl and cl body bytes that form a valid form; res: 0 = form pre-parsed, 1 = ErrBodyTooLarge,
   2 = other error, 3 = plain body read (no pre-parse); seen = bytes in the form / body *)
| CMpRead (L cl : Z) (preParse expect : bool) (res seen : Z)
(* the same through a real Server with MaxRequestBodySize = cfgMax *)
| CMpServer (cfgMax cl : Z) (preParse expect : bool) (status : Z) (closed dispatched : bool) (seen : Z).

(* ---------------- correspondence ---------------- *)
Definition read_fn (m : bmode) (cl L : Z) (wire : bytes) : bres :=
  match m with
  | MFixed => readBody cl L [] wire 0
  | MChunked => readBodyChunked L [] wire
  | MIdentity => readBodyIdentity L 0 [] wire
  end.

Definition cl_of (m : bmode) (cl : Z) : Z := match m with MFixed => cl | MChunked => -1 | MIdentity => -2 end.

Definition read_msg (mk : mkind) (m : bmode) (cl L : Z) (wire : bytes) : bres :=
  match mk with
  | MReq => reqReadBody trailer_reject (cl_of m cl) L wire
  | MResp => respReadBody trailer_reject (cl_of m cl) L 0 [] wire
  end.

(* the decision for a complete, well-formed body of `framed` bytes *)
Definition big_expected (L framed : Z) : option Z * bool :=
  if (L >? 0) && (framed >? L) then (None, true) else (Some framed, false).

Definition oz_eqb (a b : option Z) : bool := option_eqb Z.eqb a b.

Definition head_status (cfgBuf : Z) (input : bytes) : Z :=
  match srv_err_of_head (req_read default_cfg (Z.to_nat (serverReadBuf cfgBuf)) input PEEof) with
  | Some e => defaultErrorHandler e
  | None => 200
  end.

Definition corr_ok (c : c07case) : bool :=
  match c with
  | CReadFn m cl L wire o capobs =>
      let r := read_fn m cl L wire in
      robs_eqb (robs_of (blen wire) r) o
      && match m with
         | MIdentity => true
         | _ => (bres_peak r <=? capobs) && (capobs <=? roundUpForSliceCap (bres_peak r))
         end
  | CReadMsg mk m cl L wire o =>
      let r := read_msg mk m cl L wire in
      has_trailer_fields r || robs_eqb (robs_of (blen wire) r) o
  | CReadBig mk m L framed okLen tooLarge capobs =>
      let '(e1, e2) := big_expected L framed in oz_eqb okLen e1 && Bool.eqb tooLarge e2
  | CServer cfgMax m framed status closed dispatched seenLen =>
      if framed >? serverMaxBody cfgMax
      then (status =? StatusBadRequest) && closed && negb dispatched
      else (status =? 200) && dispatched && (seenLen =? framed)
  | CClient L m framed okLen tooLarge =>
      let '(e1, e2) := big_expected L framed in oz_eqb okLen e1 && Bool.eqb tooLarge e2
  | CInflate codec mk L n bad_end okLen tooLarge alloc =>
      match fst (withLimit_len L n bad_end) with
      | KOk k => oz_eqb okLen (Some k) && negb tooLarge
      | KTooLarge => oz_eqb okLen None && tooLarge
      | KErr => oz_eqb okLen None && negb tooLarge
      end
  | CMultipart L ce bodyLen inflatedLen res =>
      match multipartWithLimit L ce (rpt bodyLen 97) (rpt inflatedLen 97) false with
      | MPParse _ => res =? 0
      | MPTooLarge => res =? 1
      | MPErr => res =? 2
      end
  | CHead cfgBuf headLen status closed dispatched =>
      if headLen >? serverReadBuf cfgBuf
      then (status =? StatusRequestHeaderFieldsTooLarge) && closed && negb dispatched
      else (status =? 200) && dispatched
  | CHeadModel cfgBuf input status closed dispatched =>
      (status =? head_status cfgBuf input) && Bool.eqb dispatched (status =? 200)
  | CRoundUp n r => roundUpForSliceCap n =? r
  | CMpRead L cl preParse expect res seen =>
      match continueReadBody trailer_reject preParse true (fun _ => true) cl L (rpt cl 97) with
      | RQForm form _ => (res =? 0) && (seen =? blen form)
      | RQBody (BOk body _ _) => (res =? 3) && (seen =? blen body)
      | RQBody (BErr EBodyTooLarge _ _) => res =? 1
      | _ => res =? 2
      end
  | CMpServer cfgMax cl preParse expect status closed dispatched seen =>
      match serveContinueReadBody trailer_reject preParse true (fun _ => true) cfgMax cl (rpt cl 97) with
      | SDispatch body _ => (status =? 200) && dispatched && (seen =? blen body)
      | SAnswerClose st => (status =? st) && closed && negb dispatched
      | SCloseSilently => false
      end
  end.

(* ---------------- the property ---------------- *)
Definition framed_of (m : bmode) (cl : Z) (wire : bytes) : option Z :=
  match m with
  | MFixed => if (0 <=? cl) && (cl <=? blen wire) then Some cl else None
  | MChunked => match dechunk wire with Some (body, _) => Some (zlen body) | None => None end
  | MIdentity => Some (blen wire)
  end.

Definition robs_len (o : robs) : option Z := match o with ROk b _ => Some (blen b) | _ => None end.
Definition robs_toolarge (o : robs) : bool := match o with RErr EBodyTooLarge => true | _ => false end.

Definition mib : Z := 1024 * 1024.

Definition prop_ok (c : c07case) : bool :=
  match c with
  | CReadFn m cl L wire o capobs =>
      limit_ok L (framed_of m cl wire) (robs_len o) (robs_toolarge o)
      && ((L <=? 0) || (capobs <=? roundUpForSliceCap (Z.max (L + 2) identityInitialBuf)))
  | CReadMsg mk m cl L wire o =>
      limit_ok L (framed_of m cl wire) (robs_len o) (robs_toolarge o)
  | CReadBig mk m L framed okLen tooLarge capobs =>
      limit_ok L (Some framed) okLen tooLarge
      && ((L <=? 0) || (capobs <=? roundUpForSliceCap (Z.max (L + 2) identityInitialBuf)))
  | CServer cfgMax m framed status closed dispatched seenLen =>
      let L := if cfgMax <=? 0 then 4 * mib else cfgMax in
      if framed >? L then (400 <=? status) && closed && negb dispatched     (* an error response, and the connection is closed *)
      else if dispatched then seenLen <=? L else true
  | CClient L m framed okLen tooLarge => limit_ok L (Some framed) okLen tooLarge
  | CInflate codec mk L n bad_end okLen tooLarge alloc =>
      if L <=? 0 then true
      else match okLen with
           | Some k => (k <=? L) && (k =? n)
           | None => true
           end
           && (if n >? L then negb (match okLen with Some _ => true | None => false end) else true)
           (* a bomb must not be buffered: allocation stays far below the inflated size *)
           && (if (32 * mib <=? n) && (L <=? mib) then alloc <=? 32 * mib else true)
  | CMultipart L ce bodyLen inflatedLen res =>
      if L <=? 0 then true
      else let fed := if ce =? 1 then inflatedLen else bodyLen in
           if fed >? L then negb (res =? 0) else true
  | CHead cfgBuf headLen status closed dispatched =>
      let S := if cfgBuf <=? 0 then 4096 else cfgBuf in
      if headLen >? S then (status =? 431) && closed && negb dispatched else true
  | CHeadModel cfgBuf input status closed dispatched =>
      let S := if cfgBuf <=? 0 then 4096 else cfgBuf in
      if blen input >? S then (status =? 431) && closed && negb dispatched else true
  | CRoundUp n r => true
  | CMpRead L cl preParse expect res seen =>
      if L <=? 0 then true
      else if cl >? L then res =? 1                       (* over the limit: ErrBodyTooLarge, nothing buffered as a body *)
      else if (res =? 0) || (res =? 3) then seen <=? L else true
  | CMpServer cfgMax cl preParse expect status closed dispatched seen =>
      let L := if cfgMax <=? 0 then 4 * mib else cfgMax in
      if cl >? L then (400 <=? status) && closed && negb dispatched
      else if dispatched then seen <=? L else true
  end.
