(* Case type and checks for C08 (message parsers terminate, never panic and never over-read).

   KReqHead / KRespHead : head-only reads, compared with the model (corr_ok) — the part of C08 that is proved.
   KMsg                 : Request.ReadLimitBody / Response.ReadLimitBody on fuzzed input, as recorded by Go under
                          recover() and a watchdog; the head part is compared with the model, the consumed count is
                          checked exactly where the message length is known from the head (Content-Length).
   KVal                 : the value parsers (Cookie, URI, Args, byte range, header params, multipart), recorded by Go:
                          validation by search, no model. *)
From FH Require Import Model.Base Gen.GenC09 Model.Lines Model.ReqHead Model.RespHead Spec.HeadSpec Check.C09Check.
From FH Require Model.HeaderParams Model.ByteRange Model.Args.   (* value parsers compared with their models *)
From FH Require Gen.GenC08 Model.Body.     (* the body readers of m-c07-c34: readHexInt with the regenerated maxHexIntChars64 *)
Open Scope nat_scope.

(* the tie of the body-reader model to the regenerated constant: both specs name the same source constant *)
Example hex_limit_tie : GenC08.maxHexIntChars64 = GenC30.maxHexIntChars64.
Proof. reflexivity. Qed.

Record msg_obs := {
  m_panic : bool; m_timeout : bool; m_ok : bool;
  m_consumed : Z;            (* bytes taken from the source minus bytes still buffered *)
  m_bodylen : Z;             (* len(Body()) when ok *)
  m_cl : Z;                  (* Header.ContentLength() of a head-only read of the same input by the implementation (-3: head not accepted) *)
  m_status : Z               (* response status code of that head-only read (0 for requests) *) }.

Inductive c08case :=
| KReqHead (cfg : hcfg) (bsize chunk : nat) (input : bytes) (o : try_res req_head)   (* chunk: bytes per source Read, 0 = all *)
| KRespHead (cfg : hcfg) (bsize chunk : nat) (input : bytes) (o : try_res resp_head)
| KMsg (resp : bool) (input : bytes) (maxBody : Z) (o : msg_obs)
| KVal (parser : N) (input_len : Z) (panicked timed_out : bool)
| KParams (input : bytes) (visited : list (bytes * bytes)) (panicked timed_out : bool)   (* VisitHeaderParams, f = always true *)
| KRange (input : bytes) (contentLength : Z) (res : option (Z * Z)) (panicked timed_out : bool)   (* ParseByteRange *)
| KArgs (input : bytes) (pairs : list (bytes * bytes)) (panicked timed_out : bool).      (* Args.ParseBytes, then VisitAll *)

Definition str100Continue : bytes := s2b "100-continue".

(* ---- body readers: outcome class of Model.Body on what follows the head ---- *)
Inductive bclass := BCOk (consumed : Z) | BCErr | BCPanic | BCUnknown.

Definition class_of_body (after_head : nat) (rest : bytes) (r : Body.bres) : bclass :=
  match r with
  | Body.BOk _ rest' _ => BCOk (Z.of_nat after_head + Z.of_nat (length rest) - Z.of_nat (length rest'))
  | Body.BErr Body.ETrailer _ _ => BCUnknown       (* trailer fields: parseTrailer is not part of Body.v's stand-in *)
  | Body.BErr _ _ _ => BCErr
  | Body.BPanic => BCPanic
  | Body.BOutOfFuel => BCUnknown
  end.

Definition class_matches (m : bclass) (o : msg_obs) : bool :=
  match m with
  | BCOk c => m_ok o && negb (m_panic o) && Z.eqb (m_consumed o) c
  | BCErr => negb (m_ok o) && negb (m_panic o)
  | BCPanic => m_panic o
  | BCUnknown => true
  end.

Definition strMultipartFormData : bytes := s2b "multipart/form-data".

(* what the head model + the body-reader model say about a whole-message read (default configuration,
   everything buffered, then EOF) *)
Definition msg_corr_req (input : bytes) (maxBody : Z) (o : msg_obs) : bool :=
  if m_timeout o then true      (* judged by prop_ok *)
  else
  match req_read default_cfg 4096 input PEEof with
  | TOk hd n =>
      let rest := skipn n input in
      let cl := content_length hd in
      let m :=
        if beq (peekArgBytes (fields hd) strExpect) str100Continue then BCOk (Z.of_nat n)      (* MayContinue *)
        else if Z.ltb 0 cl && has_prefix strMultipartFormData (ctype hd) then BCUnknown           (* pre-parsed form *)
        else class_of_body n rest (Body.reqReadBody Body.trailer_reject cl maxBody rest) in
      class_matches m o
  | TBug => false
  | _ => negb (m_ok o) && negb (m_panic o)        (* a rejected or incomplete head never yields a message *)
  end.

Definition is_interim (code : Z) : bool := Z.leb 100 code && Z.leb code 199 && negb (Z.eqb code 101).

Definition msg_corr_resp (input : bytes) (maxBody : Z) (o : msg_obs) : bool :=
  if m_timeout o then true
  else
  match resp_read default_cfg 4096 input PEEof with
  | TOk hd n =>
      let rest := skipn n input in
      let cl := rcontent_length hd in
      let m :=
        if is_interim (status hd) then BCUnknown                 (* further heads follow *)
        else if mustSkipContentLength (status hd) then BCOk (Z.of_nat n)
        else if Z.eqb cl (-2) then BCUnknown                      (* identity: read sizes are not recorded *)
        else class_of_body n rest (Body.respReadBody Body.trailer_reject cl maxBody 0%Z [] rest) in
      class_matches m o
  | TBug => false
  | _ => negb (m_ok o) && negb (m_panic o)
  end.

Definition corr_ok (c : c08case) : bool :=
  match c with
  | KReqHead cfg bs k input o =>
      try_res_eqb req_head_eqb (req_read_chunks cfg bs k input PEEof) o
      && (if k =? 0 then try_res_eqb req_head_eqb (req_read cfg bs input PEEof) o else true)
  | KRespHead cfg bs k input o =>
      try_res_eqb resp_head_eqb (resp_read_chunks cfg bs k input PEEof) o
      && (if k =? 0 then try_res_eqb resp_head_eqb (resp_read cfg bs input PEEof) o else true)
  | KMsg false input mb o => msg_corr_req input mb o
  | KMsg true input mb o => msg_corr_resp input mb o
  | KVal _ _ _ _ => true
  | KParams input visited p t =>
      if p || t then true
      else match HeaderParams.VisitHeaderParams input with Ok l => kvs_eqb l visited | _ => false end
  | KRange input n res p t =>
      if p || t then true
      else match ByteRange.ParseByteRange input n, res with
           | ByteRange.BROk s e, Some (s', e') => Z.eqb s s' && Z.eqb e e'
           | ByteRange.BRErr, None => true
           | _, _ => false
           end
  | KArgs input pairs p t =>
      if p || t then true
      else match Args.ParseBytes Args.emptyArgs input with Some a => kvs_eqb (Args.All a) pairs | None => false end
  end.

(* the property: no panic, no hang, consumed within the input; where the head announces the length of the message
   (Content-Length, judged with the Spec's head length and the Content-Length the implementation itself reports)
   nothing beyond the message is consumed *)
Definition not_bug {A} (o : try_res A) : bool := match o with TBug => false | _ => true end.
Definition consumed_within {A} (len : nat) (o : try_res A) : bool :=
  match o with TOk _ n => n <=? len | _ => true end.

Definition prop_ok (c : c08case) : bool :=
  match c with
  | KReqHead _ _ _ input o => not_bug o && consumed_within (length input) o
  | KRespHead _ _ _ input o => not_bug o && consumed_within (length input) o
  | KMsg resp input _ o =>
      negb (m_panic o) && negb (m_timeout o) &&
      Z.leb 0 (m_consumed o) && Z.leb (m_consumed o) (Z.of_nat (length input)) &&
      (if m_ok o && Z.leb 0 (m_cl o) && negb (resp && is_interim (m_status o))
       then match head_len input with
            | Some h => Z.leb (m_consumed o) (Z.of_nat h + m_cl o)
            | None => false            (* a message was returned although the input holds no complete head *)
            end
       else true)
  | KVal _ _ p t => negb p && negb t
  | KParams _ _ p t | KRange _ _ _ p t | KArgs _ _ p t => negb p && negb t
  end.
