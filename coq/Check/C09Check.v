(* Case type and checks for C09 (head parsing is decided by the head's own bytes). *)
From FH Require Import Model.Base Model.Lines Model.ReqHead Model.RespHead Spec.HeadSpec.
Open Scope nat_scope.

(* ---- equality of observables ---- *)
Definition kv_eqb (a b : bytes * bytes) : bool := beq (fst a) (fst b) && beq (snd a) (snd b).
Definition kvs_eqb (a b : kvs) : bool := list_eqb kv_eqb a b.
Definition bl_eqb (a b : list bytes) : bool := list_eqb beq a b.

Definition req_head_eqb (a b : req_head) : bool :=
  beq (meth a) (meth b) && beq (target a) (target b) && beq (proto a) (proto b) && Bool.eqb (http11 a) (http11 b)
  && kvs_eqb (fields a) (fields b) && beq (host a) (host b) && beq (ctype a) (ctype b) && beq (ua a) (ua b)
  && Z.eqb (content_length a) (content_length b) && beq (cl_bytes a) (cl_bytes b)
  && Bool.eqb (conn_close a) (conn_close b) && bl_eqb (trailer a) (trailer b) && beq (raw_headers a) (raw_headers b).

Definition resp_head_eqb (a b : resp_head) : bool :=
  Z.eqb (status a) (status b) && beq (status_msg a) (status_msg b) && beq (rproto a) (rproto b)
  && Bool.eqb (rhttp11 a) (rhttp11 b) && kvs_eqb (rfields a) (rfields b) && beq (rctype a) (rctype b)
  && beq (rcenc a) (rcenc b) && beq (rserver a) (rserver b) && kvs_eqb (rcookies a) (rcookies b)
  && Z.eqb (rcontent_length a) (rcontent_length b) && beq (rcl_bytes a) (rcl_bytes b)
  && Bool.eqb (rconn_close a) (rconn_close b) && bl_eqb (rtrailer a) (rtrailer b).

Definition herr_eqb (a b : herr) : bool :=
  match a, b with
  | EMissingMethod, EMissingMethod | EUnsupportedMethod, EUnsupportedMethod | ENoSpaceFirstLine, ENoSpaceFirstLine
  | EBadVersion, EBadVersion | EEmptyURI, EEmptyURI | EInvalidURI, EInvalidURI | EBadStatus, EBadStatus
  | EStartSpace, EStartSpace | EBadBlockEnd, EBadBlockEnd | EMissingColon, EMissingColon | EBadKeyLine, EBadKeyLine | EInvalidKey, EInvalidKey
  | EInvalidValue, EInvalidValue | EDupCL, EDupCL | EBadCL, EBadCL | EUnsupportedTE, EUnsupportedTE
  | ETooManyTE, ETooManyTE | ETooManyHost, ETooManyHost | EBadTrailer, EBadTrailer | EHostRequired, EHostRequired => true
  | _, _ => false
  end.

Definition try_res_eqb {A} (eq : A -> A -> bool) (a b : try_res A) : bool :=
  match a, b with
  | TOk x n, TOk y m => eq x y && (n =? m)
  | TNeedMore, TNeedMore | TEOF, TEOF | TNothingRead, TNothingRead | TSmallBuffer, TSmallBuffer | TIoErr, TIoErr => true
  | TErr e, TErr f => herr_eqb e f
  | _, _ => false          (* TBug never equals anything: an implementation panic is always a mismatch *)
  end.

(* "answered": accepted or rejected, as opposed to "asked for more input" *)
Definition answered {A} (o : try_res A) : bool :=
  match o with TOk _ _ | TErr _ | TSmallBuffer => true | _ => false end.
Definition consumed_is {A} (n : nat) (o : try_res A) : bool :=
  match o with TOk _ k => k =? n | _ => true end.

(* o0: Read over a reader that yields H and then fails with a sentinel error (never EOF);
   o1: Read over H ++ S1 then the sentinel; o2: Read over H ++ S2 then io.EOF *)
(* idle cases: the head is delivered by a schedule of Read chunks, then the connection is idle; the harness's
   reader counts successful Read calls and reports a Read attempted after the last chunk ("would block"):
   o = Answered result k  |  AsksMore k.   CServeIdle: the same schedule through Server.ServeConn; answered =
   the server wrote something before it attempted a Read on the idle connection. *)
Inductive c09case :=
| CReq (cfg : hcfg) (bsize : nat) (H S1 S2 : bytes) (o0 o1 o2 : try_res req_head)
| CResp (cfg : hcfg) (bsize : nat) (H S1 S2 : bytes) (o0 o1 o2 : try_res resp_head)
| CReqIdle (cfg : hcfg) (bsize : nat) (chunks : list bytes) (o : idle_res req_head)
| CRespIdle (cfg : hcfg) (bsize : nat) (chunks : list bytes) (o : idle_res resp_head)
| CServeIdle (chunks : list bytes) (answered : bool).

Definition idle_res_eqb {A} (eq : A -> A -> bool) (a b : idle_res A) : bool :=
  match a, b with
  | Answered r k, Answered r' k' => try_res_eqb eq r r' && (k =? k')
  | AsksMore k, AsksMore k' => k =? k'
  | _, _ => false
  end.
Definition is_answered {A} (o : idle_res A) : bool := match o with Answered _ _ => true | _ => false end.

Definition corr_ok (c : c09case) : bool :=
  match c with
  | CReq cfg bs H S1 S2 o0 o1 o2 =>
      try_res_eqb req_head_eqb (req_read cfg bs H PEOther) o0
      && try_res_eqb req_head_eqb (req_read cfg bs (H ++ S1) PEOther) o1
      && try_res_eqb req_head_eqb (req_read cfg bs (H ++ S2) PEEof) o2
  | CResp cfg bs H S1 S2 o0 o1 o2 =>
      try_res_eqb resp_head_eqb (resp_read cfg bs H PEOther) o0
      && try_res_eqb resp_head_eqb (resp_read cfg bs (H ++ S1) PEOther) o1
      && try_res_eqb resp_head_eqb (resp_read cfg bs (H ++ S2) PEEof) o2
  | CReqIdle cfg bs chunks o => idle_res_eqb req_head_eqb (req_read_idle cfg bs chunks) o
  | CRespIdle cfg bs chunks o => idle_res_eqb resp_head_eqb (resp_read_idle cfg bs chunks) o
  | CServeIdle chunks answered =>
      match req_read_idle default_cfg 4096 chunks with
      | Answered (TOk _ _) _ | Answered (TErr _) _ => answered
      | AsksMore _ => negb answered
      | _ => true
      end
  end.

(* the property, judged on the implementation's three results: for a complete head the two continuations
   get the same answer, an accepted head consumes exactly |H| bytes, and the head alone is answered *)
Definition prop_ok (c : c09case) : bool :=
  match c with
  | CReq _ _ H _ _ o0 o1 o2 =>
      if head_complete H
      then try_res_eqb req_head_eqb o1 o2 && consumed_is (length H) o1 && consumed_is (length H) o2 && answered o0
      else true
  | CResp _ _ H _ _ o0 o1 o2 =>
      if head_complete H
      then try_res_eqb resp_head_eqb o1 o2 && consumed_is (length H) o1 && consumed_is (length H) o2 && answered o0
      else true
  (* a complete head that fits the buffer is answered without a Read beyond the one that delivered its last byte *)
  | CReqIdle _ bs chunks o =>
      let H := concat chunks in
      if head_complete H && (length H <=? bs) then is_answered o else true
  | CRespIdle _ bs chunks o =>
      let H := concat chunks in
      if head_complete H && (length H <=? bs) then is_answered o else true
  | CServeIdle chunks ans =>
      let H := concat chunks in
      if head_complete H && (length H <=? 4096) then ans else true
  end.
