(* Case types and checks for C10 (connection persistence matches the Connection header sent). *)
From FH Require Import Model.Base Gen.GenC10 Model.ConnOpt Model.Serve Spec.ServeSpec Check.ServeCheck.
Open Scope nat_scope.

Inductive c10case :=
(* One connection history against the real Server.  reqs = per request (HTTP/1.1?, values of its Connection lines);
   ops / xst / stop as in ServeCheck.mk_env; cs = chunks read.
   Observed: wire = every response on the wire (status, Connection values) in order; seen = request targets the
   handler saw; early = the server closed the connection before the client closed its side. *)
| CHist (en : entry) (ad : admission) (cfg : scfg) (reqs : list (bool * list bytes)) (ops : list (list hop)) (xst : list Z) (stop : option N)
        (cs : list bytes) (t : tail)
        (wire : list (Z * list bytes)) (seen : list bytes) (early : bool)
(* RequestHeader.Read of a request with these Connection lines: ConnectionClose() *)
| CReqFlag (http11 : bool) (vals : list bytes) (impl : bool)
(* ResponseHeader.Read of a response (Content-Length: 0) with these Connection lines: ConnectionClose() *)
| CRespFlag (http11 : bool) (vals : list bytes) (impl : bool)
(* a real HostClient does two requests; the first response is HTTP/1.1 or 1.0 (http11), with Content-Length: 0 or
   (ident) without any framing header, and carries these Connection lines; reqclose: the first request has
   SetConnectionClose; reset: MaxConnDuration has expired (resetConnection); stream: StreamResponseBody.
   dials = connections opened *)
| CClient (http11 ident reqclose reset stream : bool) (vals : list bytes) (dials : Z)
(* a real PipelineClient does one call after the other (Do / DoTimeout / DoDeadline); the scripted server answers
   request i with protocol version and Connection lines resps[i] (Content-Length: 0) and never closes by itself;
   conns = the connection (numbered by first use) each request was written on *)
| CPipe (resps : list (bool * list bytes)) (conns : list Z)
(* operations on a ResponseHeader, then Header(): the Connection values written and ConnectionClose() *)
| CRespSet (ops : list hop) (written : list bytes) (flag : bool).

(* the server closes right behind a response (not from the idle state, not on the client's EOF) *)
Fixpoint model_early_from (after_resp : bool) (evs : list event) : bool :=
  match evs with
  | [] => false
  | Resp _ :: r => model_early_from true r
  | Flush :: r => model_early_from after_resp r
  | Close :: _ => after_resp
  | _ :: r => model_early_from false r
  end.
Definition model_early (evs : list event) : bool := model_early_from false evs.

Definition corr_ok (c : c10case) : bool :=
  match c with
  | CHist en ad cfg reqs ops xst stop cs t wire_i seen early =>
      let evs := run en ad cfg ops xst stop cs t in
      list_eqb resp_eqb (wire evs) wire_i && list_eqb beq (dispatched evs) seen
      && (match stop, t with Some _, _ | _, Open => true | None, Eof => Bool.eqb (model_early evs) early end)
  | CReqFlag http11 vals impl => Bool.eqb (req_conn_flag (negb http11) false vals) impl
  | CRespFlag http11 vals impl => Bool.eqb (resp_conn_flag (negb http11) false vals) impl
  | CClient http11 ident reqclose reset stream vals dials =>
      Z.eqb dials (if client_close_conn reset reqclose (resp_conn_flag (negb http11) ident vals) then 2 else 1)
  | CPipe resps conns =>
      list_eqb Z.eqb (pipeline_conn_ids 1 (map (fun r => resp_conn_flag (negb (fst r)) false (snd r)) resps)) conns
  | CRespSet ops written flag =>
      let h := h_rh (fold_left apply_hop ops (hstate0 200%Z false)) in
      list_eqb beq (rhdr_written h) written && Bool.eqb (rh_close h) flag
  end.

(* ---- the property on the implementation's observables ---- *)
Definition op_sets_close (o : hop) : bool :=
  match o with SetConnClose => true | SetHdrConn v => has_close [v] | _ => false end.
(* the handler's last word on Connection: SetConnectionClose, or a Set whose value has the close option,
   not undone by a later Set without it *)
Fixpoint handler_close (ops : list hop) (acc : bool) : bool :=
  match ops with
  | [] => acc
  | SetConnClose :: r => handler_close r true
  | SetHdrConn v :: r => handler_close r (has_close [v])
  | ResetConnClose :: r | DelHdrConn :: r | RespReset _ :: r => handler_close r false
  | TimeoutRespClose :: r => handler_close r true
  | _ :: r => handler_close r acc
  end.

Definition finals (wire : list (Z * list bytes)) : list (Z * list bytes) := filter (fun p => Z.leb 200 (fst p)) wire.

(* reasons_i -> response i carries close *)
Fixpoint reasons_hold (cfg : scfg) (stop : option N) (i : N) (reqs : list (bool * list bytes)) (ops : list (list hop))
         (rs : list (Z * list bytes)) : bool :=
  match reqs, rs with
  | (http11, vals) :: reqs', r :: rs' =>
      let reason := wants_close http11 vals || disable_keepalive cfg
                    || ((0 <? max_reqs cfg)%N && (max_reqs cfg <=? i)%N)
                    || handler_close (nth_req i ops []) false
                    || (close_on_shutdown cfg && match stop with Some k => (k <=? i)%N | None => false end) in
      (if reason then has_close (snd r) else true)
      && (http11 || has_close (snd r) || has_option opt_keep_alive (snd r))
      && reasons_hold cfg stop (i + 1)%N reqs' ops rs'
  | _, _ => true
  end.

(* every final response but the last was followed by another response, so it must not say close;
   the last one says close iff the server then closed the connection on its own *)
Fixpoint header_iff_close (rs : list (Z * list bytes)) (early : bool) (shutdown : bool) : bool :=
  match rs with
  | [] => true
  | [r] => if has_close (snd r) then early else (shutdown || negb early)
  | r :: rest => negb (has_close (snd r)) && header_iff_close rest early shutdown
  end.

(* no request is written on a connection after a response that said close was read on it *)
Fixpoint no_reuse_after_close (resps : list (bool * list bytes)) (conns : list Z) : bool :=
  match resps, conns with
  | (http11, vals) :: resps', c :: conns' =>
      (if wants_close http11 vals then forallb (fun c' => negb (Z.eqb c' c)) conns' else true)
      && no_reuse_after_close resps' conns'
  | _, _ => true
  end.

Definition prop_ok (c : c10case) : bool :=
  match c with
  | CHist en ad cfg reqs ops xst stop cs t wire_i seen early =>
      let rs := finals wire_i in
      header_iff_close rs early (match stop with Some _ => true | None => false end)
      && reasons_hold cfg stop 1%N reqs ops rs
  | CReqFlag http11 vals impl => if wants_close http11 vals then impl else true
  | CRespFlag http11 vals impl => if has_close vals then impl else true
  | CClient http11 ident reqclose reset stream vals dials =>
      (* the response said close (or is HTTP/1.0 without keep-alive), or the client itself asked for close *)
      if wants_close http11 vals || reqclose then Z.eqb dials 2 else true
  | CPipe resps conns => (length conns =? length resps) && no_reuse_after_close resps conns
  | CRespSet ops written flag => Bool.eqb (has_close written) flag
  end.
