(* Case type and the two checks evaluated on harness cases for C11. *)
From Coq Require Import String.
From FH Require Import Model.Base Model.CtxReset Spec.CtxResetSpec.
Open Scope string_scope.
Open Scope Z_scope.

(* what the harness logs on the connection, in order: deadline calls (seconds, 0 = cleared),
   SetDeadline(zero) before a hijack, and the handler being called *)
Inductive lev := LR (d : Z) | LW (d : Z) | LD | LH.

(* one served request: observed in the history, and the same request alone on a new connection of a
   new Server with the same configuration (the reference): handler called?, status of the response,
   digest of everything the handler could observe when it was called *)
Record robs := mkRobs { o_disp : bool; o_status : Z; o_snap : bytes; f_disp : bool; f_status : Z; f_snap : bytes }.

Inductive c11case :=
| CFields (names : list string)                              (* flattened field paths of RequestCtx by reflection, sorted *)
| CReset (k : rkind) (flags : list (string * bool))          (* all fields dirtied, the real reset called: field, is zero afterwards *)
| CRsFields (names : list string)                           (* field names of the pooled requestStream by reflection, sorted *)
| CRsAcquire (flags : list (string * bool))                 (* after acquireRequestStream on a pooled/new object: field, is zero *)
| CRsHygiene (clean : list bool)                            (* streams abandoned in many states, then probe requests: were totalBytesRead, chunkLeft, eof, err all zero when the probe's handler was called *)
| CWritten (names : list string)                            (* observable fields that are non-zero when a handler runs on a new server *)
| CHist (c : scfg) (conns : list (list lreq)) (obs : list (list robs)) (log : list (list lev)).

(* ---- sorting the model's field list the way the harness does (insertion sort on strings) ---- *)
Fixpoint str_leb (a b : string) : bool :=
  match a, b with
  | EmptyString, _ => true
  | String _ _, EmptyString => false
  | String x a', String y b' =>
      let nx := Ascii.N_of_ascii x in let ny := Ascii.N_of_ascii y in
      if (nx <? ny)%N then true else if (ny <? nx)%N then false else str_leb a' b'
  end.
Fixpoint insert_sorted (s : string) (l : list string) : list string :=
  match l with [] => [s] | x :: r => if str_leb s x then s :: l else x :: insert_sorted s r end.
Definition sort_strings (l : list string) : list string := fold_right insert_sorted [] l.

Definition flag_eqb (a b : string * bool) : bool := String.eqb (fst a) (fst b) && Bool.eqb (snd a) (snd b).

(* ---- the model's log of one connection ---- *)
Definition is_read (d : dcall) : bool := match d with DRead _ => true | DWrite _ => false end.
Definition lev_of (d : dcall) : lev := match d with DRead x => LR x | DWrite x => LW x end.

Definition dec_log (d : decision) : list lev :=
  (map lev_of (filter is_read (d_calls d))
   ++ (if d_dispatched d then [LH] else [])
   ++ map lev_of (filter (fun x => negb (is_read x)) (d_calls d))
   ++ (if d_hijack d then [LD] else []))%list.

Definition model_conn (c : scfg) (qs : list lreq) : list decision * list lev :=
  let '(ds, t) := lrun c (linit c) qs in
  (ds, (concat (map dec_log ds) ++ map lev_of t)%list).

Definition lev_eqb (a b : lev) : bool :=
  match a, b with
  | LR x, LR y | LW x, LW y => x =? y
  | LD, LD | LH, LH => true
  | _, _ => false
  end.

Fixpoint obs_match (ds : list decision) (os : list robs) : bool :=
  match ds, os with
  | [], [] => true
  | d :: ds', o :: os' => Bool.eqb (d_dispatched d) (o_disp o) && (d_status d =? o_status o) && obs_match ds' os'
  | _, _ => false
  end.

Fixpoint conns_match (c : scfg) (conns : list (list lreq)) (obs : list (list robs)) (log : list (list lev)) : bool :=
  match conns, obs, log with
  | [], [], [] => true
  | qs :: cr, os :: or, lg :: lr =>
      let '(ds, ml) := model_conn c qs in
      obs_match ds os && list_eqb lev_eqb ml lg && conns_match c cr or lr
  | _, _, _ => false
  end.

Definition corr_ok (x : c11case) : bool :=
  match x with
  | CFields names => list_eqb String.eqb (sort_strings all_fields) names
  | CReset k flags =>
      list_eqb flag_eqb (map (fun f => (f, zero_after k f)) (sort_strings (rk_fields k))) flags
  | CRsFields names => list_eqb String.eqb (sort_strings rs_fields) names
  | CRsAcquire flags =>
      (* acquire on a released object: exactly the assigned fields are set *)
      list_eqb flag_eqb (map (fun f => (f, negb (mem f rs_assigned))) (sort_strings rs_fields)) flags
  | CRsHygiene clean =>
      (* the model: a released object has every field zero, whatever state the stream was in *)
      forallb (Bool.eqb (forallb (zero_after KRsRelease) rs_fields)) clean
  | CWritten names =>
      (* the model's write set of parsing + loop initialisation covers what the real code writes *)
      forallb (fun f => mem f loop_fields || mem f assigned_fields || mem f appended_fields) names
  | CHist c conns obs log => conns_match c conns obs log
  end.

(* ---- the property on the implementation's observables ---- *)

(* requests of a connection paired with their observations (only served requests have one) *)
Fixpoint served {A B} (qs : list A) (os : list B) : list (A * B) :=
  match qs, os with q :: qr, o :: or => (q, o) :: served qr or | _, _ => [] end.

(* replay the connection log: armed read / write deadline; the k-th LH belongs to the k-th dispatched request *)
Fixpoint deadlines_ok (c : scfg) (disp : list lreq) (lg : list lev) (rd wr : Z) : bool :=
  match lg with
  | [] => true
  | LR d :: r => deadlines_ok c disp r d wr
  | LW d :: r => deadlines_ok c disp r rd d
  | LD :: r => deadlines_ok c disp r 0 0
  | LH :: r =>
      match disp with
      | [] => false
      | q :: dr =>
          (rd =? spec_rdl_body c q)
          (* the response is written under the request's write deadline: when one is prescribed, or one is still
             armed, the server must set / clear it right after the handler returns *)
          && (if (spec_wt c q >? 0) || (wr >? 0)
              then match r with LW d :: _ => d =? spec_wt c q | _ => false end
              else true)
          && deadlines_ok c dr r rd wr
      end
  end.

Definition robs_ok (o : robs) : bool :=
  Bool.eqb (o_disp o) (f_disp o) && (o_status o =? f_status o) && (if o_disp o then beq (o_snap o) (f_snap o) else true).

Fixpoint hist_ok (c : scfg) (conns : list (list lreq)) (obs : list (list robs)) (log : list (list lev)) : bool :=
  match conns, obs, log with
  | qs :: cr, os :: or, lg :: lr =>
      forallb robs_ok os
      && deadlines_ok c (map fst (filter (fun p => o_disp (snd p)) (served qs os))) lg 0 0
      && hist_ok c cr or lr
  | [], [], [] => true
  | _, _, _ => false
  end.

Definition prop_ok (x : c11case) : bool :=
  match x with
  | CFields _ => true
  | CRsFields _ => true
  | CRsAcquire flags =>
      (* nothing but what acquire assigns may be found in the object a new request gets *)
      forallb (fun p => mem (fst p) rs_assigned || snd p) flags
  | CRsHygiene clean => forallb (fun b => b) clean
  | CWritten _ => true
  | CReset k flags =>
      (* the resets a ctx goes through between two requests leave every observable field zero *)
      match k with
      | KCtxReset => forallb (fun p => if observable (fst p) then snd p else true) flags
      | KRequestReset | KResponseReset => forallb (fun p => if observable (fst p) then snd p else true) flags
      | KRsRelease => forallb snd flags          (* every field of a pooled requestStream: state or a reference that must not be kept *)
      | _ => true
      end
  | CHist c conns obs log => hist_ok c conns obs log
  end.
