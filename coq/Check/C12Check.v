(* Case type and the two checks evaluated on harness cases for C12 (connection limits and their counters). *)
From FH Require Import Model.Base Gen.GenC12 Model.Limits.
Open Scope Z_scope.

(* read from the real Server after every block of labels *)
Record obs := mkObs {
  o_conc : Z;                 (* GetCurrentConcurrency() *)
  o_open : Z;                 (* GetOpenConnectionsCount() *)
  o_serving : Z;              (* s.serving (export) *)
  o_perip : list (N * Z);     (* snapshot of s.perIPConnCounter.m (export) *)
  o_running : Z;              (* connections whose request loop is running: handler entered and not yet told to end *)
  o_live : list (N * Z)       (* harness bookkeeping: per IPv4, connections that were served and whose net.Conn is not closed *)
}.

Inductive block := Blk (ls : list label) (o : obs).

(* per connection, from the scripted net.Conn and the instrumented handler *)
Record connres := mkCR {
  cr_status : Z;     (* status of the first response the client received; 0 = nothing written; -1 = neither served nor rejected *)
  cr_entered : Z;    (* handler invocations *)
  cr_closed : Z;     (* Close calls on the scripted net.Conn *)
  cr_live : Z        (* sequential replay: connections of the same IPv4 address that had been admitted and whose net.Conn was not yet closed
                        when this one arrived, everything being at rest (-1: not known, concurrent run) *)
}.

Inductive c12case :=
(* documented: the run used one Serve call and no ServeConn, or only ServeConn (the uses for which Server.Concurrency is documented to work);
   drained: at the end every connection was finished / released and closed *)
| CReplay (cf : cfg) (documented drained : bool) (ips : list N) (blocks : list block) (conns : list connres) (peak : Z)
| CStress (cf : cfg) (documented : bool) (conns : list connres) (peak : Z) (peaklive : list (N * Z)) (final : obs)
(* directed schedule on the perIPConn wrapper pool: connection 0 (address ip1) is closed through its wrapper by a third party,
   connection 1 (ip2) arrives (recycled: it was given the same wrapper object), the goroutine of connection 0 finishes and closes
   its connection object.  victim_closed: the net.Conn of connection 1 was closed at that moment although connection 1 was being
   served and nobody closed it; perip_after: the per-IP map right after. *)
| CStale (recycled victim_closed : bool) (ip1 ip2 : N) (perip_after : list (N * Z))
(* overlapping Close calls (directed schedule, limit lim, one address ip): B and A are open; A's Close is inside the (gated) underlying Close
   when a second Close of A is issued; the gate opens; then C and D arrive.  mid = the counter of ip while A's Close is in flight and after the
   second Close returned, after = once both have returned, c_served / d_rejected = what happened to C and D, final = the counter after the drain *)
| CGate (lim : Z) (ip : N) (mid after : Z) (c_served d_rejected : bool) (final : Z)
(* the harness could not get two agreeing readings of the observables although every goroutine was at rest: not judged *)
| CUnstable.

Fixpoint alookup (l : list (N * Z)) (ip : N) : option Z :=
  match l with
  | [] => None
  | (k, v) :: r => if N.eqb k ip then Some v else alookup r ip
  end.

Definition optz_eqb := option_eqb Z.eqb.

Definition obs_ok (ips : list N) (s : st) (o : obs) : bool :=
  (get_concurrency s =? o_conc o) && (get_open s =? o_open o) && (serving s =? o_serving o)
  && forallb (fun ip => optz_eqb (perip s ip) (alookup (o_perip o) ip)) ips
  && (Z.of_nat (length (filter (fun ip => match perip s ip with Some _ => true | None => false end) ips))
      =? Z.of_nat (length (o_perip o)))
  && (n_serving s =? o_running o)
  && forallb (fun ip => n_live s ip =? match alookup (o_live o) ip with Some n => n | None => 0 end) ips.

Fixpoint replay (cf : cfg) (ips : list N) (s : st) (bs : list block) : option st :=
  match bs with
  | [] => Some s
  | Blk ls o :: r =>
      match run cf s ls with
      | Some s' => if obs_ok ips s' o then replay cf ips s' r else None
      | None => None
      end
  end.

Definition conn_corr (r : crec) (x : connres) : bool :=
  (if resp r =? 0 then negb ((cr_status x =? StatusTooManyRequests) || (cr_status x =? StatusServiceUnavailable) || (cr_status x =? -1))
   else cr_status x =? resp r)
  && Bool.eqb (closed r) (1 <=? cr_closed x)
  && (if resp r =? 0 then true else cr_entered x =? 0).

Fixpoint forallb2 {A B} (f : A -> B -> bool) (a : list A) (b : list B) : bool :=
  match a, b with
  | [], [] => true
  | x :: a', y :: b' => f x y && forallb2 f a' b'
  | _, _ => false
  end.

Definition corr_ok (c : c12case) : bool :=
  match c with
  | CReplay cf _ drained ips bs conns _ =>
      match replay cf ips init bs with
      | Some s => forallb2 conn_corr (Limits.conns s) conns && (if drained then all_terminal s else true)
      | None => false
      end
  | CStress _ _ _ _ _ _ => true
  | CStale recycled victim ip1 ip2 after =>
      match prun pinit [PAcquire ip1 None; PClose 0; PAcquire ip2 (if recycled then Some O else None); PClose 0] with
      | Some s => Bool.eqb (closes_own s) (negb victim) && optz_eqb (pm s ip1) (alookup after ip1) && optz_eqb (pm s ip2) (alookup after ip2)
      | None => false
      end
  | CGate lim ip mid after c_served d_rejected final =>
      match xrun lim xinit [XArrive ip; XArrive ip; XClose 1; XClose 1] with
      | Some s1 =>
          (pget (xm s1) ip =? mid) &&
          match xrun lim s1 [XUnder 1; XUnreg 1] with
          | Some s2 =>
              (pget (xm s2) ip =? after) &&
              match xrun lim s2 [XArrive ip; XArrive ip] with
              | Some s3 => Bool.eqb c_served (3 <=? Z.of_nat (length (xw s3))) && Bool.eqb d_rejected (Z.of_nat (length (xw s3)) <? 4)
              | None => false
              end
          | None => false
          end
      | None => false
      end && (final =? 0)
  | CUnstable => true
  end.

(* ---- the property, judged on what the implementation did ---------------------------------------- *)
Definition conn_prop (cf : cfg) (x : connres) : bool :=
  if (cr_status x =? StatusTooManyRequests) || (cr_status x =? StatusServiceUnavailable)
  then (cr_entered x =? 0) && (1 <=? cr_closed x)       (* rejected: answered 429 / 503, closed, never served *)
       (* 429 is for EXTRA connections: with everything at rest, fewer than MaxConnsPerIP open connections of the address means it must be
          admitted (a per-IP unit that was not given back - e.g. after a Close that returned an error - would lock the address out) *)
       && (if cr_status x =? StatusTooManyRequests then (cr_live x <? 0) || (maxip cf <=? cr_live x) else true)
  else negb (cr_status x =? -1).                          (* every connection is served or rejected *)

Definition live_prop (cf : cfg) (l : list (N * Z)) : bool :=
  if 0 <? maxip cf then forallb (fun e => N.eqb (fst e) 0 || (snd e <=? maxip cf)) l else true.

Definition block_prop (cf : cfg) (documented : bool) (b : block) : bool :=
  match b with
  | Blk _ o => (if documented then o_running o <=? effConc cf else true) && live_prop cf (o_live o)
  end.

Definition zero_obs (o : obs) : bool :=
  (o_conc o =? 0) && (o_open o =? 0) && match o_perip o with [] => true | _ => false end.

Definition prop_ok (c : c12case) : bool :=
  match c with
  | CReplay cf documented drained _ bs conns peak =>
      forallb (conn_prop cf) conns && forallb (block_prop cf documented) bs
      && (if documented then peak <=? effConc cf else true)
      && (if drained then match rev bs with Blk _ o :: _ => zero_obs o | [] => true end else true)
  | CStress cf documented conns peak peaklive final =>
      forallb (conn_prop cf) conns && (if documented then peak <=? effConc cf else true)
      && live_prop cf peaklive && zero_obs final
  | CStale _ victim _ _ _ => negb victim     (* a Close made for connection 0 must not close connection 1 *)
  (* with B still open and the limit 2: exactly one more connection of the address is admitted, the next one gets its 429; zero at the end *)
  | CGate lim _ _ _ c_served d_rejected final => (if lim =? 2 then c_served && d_rejected else true) && (final =? 0)
  | CUnstable => true
  end.
