(* Case type and the two checks evaluated on harness cases for C13 (worker pool). *)
From FH Require Import Model.Base Model.WorkerPool.
Open Scope Z_scope.

(* what the harness reads from the real pool under wp.lock after each block of labels *)
Record obs := mkObs { o_ready : list nat; o_wcount : Z; o_stop : bool }.

(* labels executed by the real code as one controller action, the observation after it, and the workers that had
   been idle in `ready` for longer than MaxIdleWorkerDuration when a clean pass started (empty for other blocks) *)
Inductive block := Blk (ls : list label) (o : obs) (overdue : list nat).

(* per connection, counted by the fake net.Conn / WorkerFunc / connState hook *)
Record connres := mkCR {
  cr_id : nat; cr_accepted : bool;       (* Serve / getCh returned a worker *)
  cr_served : Z;                         (* WorkerFunc invocations *)
  cr_closed : Z;                         (* net.Conn.Close calls *)
  cr_stclosed : Z; cr_sthij : Z;         (* connState(StateClosed) / connState(StateHijacked) reports *)
  cr_hij : bool                          (* WorkerFunc returned errHijacked *)
}.

Inductive c13case :=
| CReplay (cf : cfg) (blocks : list block) (conns : list connres)
| CStress (maxw : Z) (conns : list connres) (maxconc : Z) (final : obs)
(* through the public API: Server.Serve over a listener, one request per connection; counters per accepted connection
   (served = handler calls), number of clients that read a 503, clients that got no complete response, and the
   workerFunc goroutines left after Serve returned *)
| CServer (maxw : Z) (conns : list connres) (maxconc : Z) (n503 : Z) (lost : Z) (workers_left : Z).

Definition nat_list_eqb := list_eqb Nat.eqb.

Definition obs_ok (s : st) (o : obs) : bool :=
  nat_list_eqb (ready_ids s) (o_ready o) && (wcount s =? o_wcount o) && Bool.eqb (mustStop s) (o_stop o).

Fixpoint replay (cf : cfg) (s : st) (bs : list block) : option st :=
  match bs with
  | [] => Some s
  | Blk ls o _ :: r =>
      match run cf s ls with
      | Some s' => if obs_ok s' o then replay cf s' r else None
      | None => None
      end
  end.

Definition served_by (s : st) (c : nat) : list (nat * bool) :=
  map (fun e => (snd (fst e), snd e)) (filter (fun e => Nat.eqb (fst (fst e)) c) (served s)).

Definition conn_corr (s : st) (r : connres) : bool :=
  memb (cr_id r) (seen s)
  && Bool.eqb (cr_accepted r) (negb (memb (cr_id r) (rejected s)))
  && (Z.of_nat (length (served_by s (cr_id r))) =? cr_served r)
  && forallb (fun e => Bool.eqb (snd e) (cr_hij r)) (served_by s (cr_id r)).

Definition corr_ok (c : c13case) : bool :=
  match c with
  | CReplay cf bs conns =>
      match replay cf init bs with
      | Some s => forallb (conn_corr s) conns && (Z.of_nat (length (seen s)) =? Z.of_nat (length conns)) && quiescent s
      | None => false
      end
  | CStress _ _ _ _ => true
  | CServer _ _ _ _ _ _ => true
  end.

(* the property, judged on what the implementation did *)
Definition conn_prop (r : connres) : bool :=
  if cr_accepted r then
    (cr_served r =? 1)
    && (if cr_hij r then (cr_closed r =? 0) && (cr_sthij r =? 1) && (cr_stclosed r =? 0)
        else (cr_closed r =? 1) && (cr_stclosed r =? 1) && (cr_sthij r =? 0))
  else (cr_served r =? 0) && (cr_closed r =? 0) && (cr_stclosed r =? 0) && (cr_sthij r =? 0).

Definition block_prop (maxw : Z) (b : block) : bool :=
  match b with
  | Blk _ o overdue =>
      (o_wcount o <=? maxw) && (0 <=? o_wcount o)
      && forallb (fun w => negb (memb w (o_ready o))) overdue      (* idle too long => retired by this clean pass *)
      && (if o_stop o then match o_ready o with [] => true | _ => false end else true)
  end.

Definition final_prop (o : obs) : bool :=
  o_stop o && (o_wcount o =? 0) && match o_ready o with [] => true | _ => false end.

(* at the server the rejected connection is answered and closed by Serve itself *)
Definition conn_prop_srv (r : connres) : bool :=
  if cr_accepted r then
    (cr_served r =? 1)
    && (if cr_hij r then (cr_sthij r =? 1) && (cr_stclosed r =? 0)
        else (cr_closed r =? 1) && (cr_stclosed r =? 1) && (cr_sthij r =? 0))
  else (cr_served r =? 0) && (cr_closed r =? 1) && (cr_stclosed r =? 1) && (cr_sthij r =? 0).

Definition prop_ok (c : c13case) : bool :=
  match c with
  | CReplay cf bs conns =>
      forallb conn_prop conns && forallb (block_prop (maxw cf)) bs
      && match rev bs with Blk _ o _ :: _ => final_prop o | [] => true end   (* every replay ends with Stop + drain *)
  | CStress maxw conns maxconc final =>
      forallb conn_prop conns && (maxconc <=? maxw) && final_prop final
  | CServer maxw conns maxconc n503 lost wleft =>
      forallb conn_prop_srv conns && (maxconc <=? maxw)
      && (Z.of_nat (length (filter (fun r => negb (cr_accepted r)) conns)) =? n503)   (* rejected = answered 503, nothing dropped silently *)
      && (lost =? 0) && (wleft =? 0)
  end.
