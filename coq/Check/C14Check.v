(* Case type and checks for C14 (ConnState hook follows the documented state machine). *)
From FH Require Import Model.Base Gen.GenC10 Model.ConnOpt Model.Serve Spec.ServeSpec Check.ServeCheck.
Open Scope nat_scope.

(* One connection history.  states = the hook calls the implementation made for this connection;
   actives = for every StateActive call: (bytes the client had handed to the connection when the hook ran,
   total length of the requests completed before); cs = the chunks the server's Read calls returned. *)
Inductive c14case :=
| C14 (en : entry) (ad : admission) (cfg : scfg) (ops : list (list hop)) (cs : list bytes) (t : tail)
      (states : list conn_state) (actives : list (Z * Z)).

Definition corr_ok (c : c14case) : bool :=
  match c with
  | C14 en ad cfg ops cs t states _ => list_eqb state_eqb (sts (run en ad cfg ops [] None cs t)) states
  end.

Definition count_active (l : list conn_state) : nat :=
  length (filter (fun s => state_eqb s StActive) l).

(* the property, judged on the implementation's hook calls *)
Definition prop_ok (c : c14case) : bool :=
  match c with
  | C14 _ _ _ _ _ _ states actives =>
      accepts states
      && (length actives =? count_active states)
      && forallb (fun p => Z.ltb (snd p) (fst p)) actives
  end.
