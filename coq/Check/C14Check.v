(* Case type and checks for C14 (ConnState hook follows the documented state machine). *)
From FH Require Import Model.Base Gen.GenC10 Gen.GenC14 Model.ConnOpt Model.Serve Spec.ServeSpec Check.ServeCheck.
Open Scope nat_scope.

(* The harness writes a hook call as the integer value of the ConnState it received; st decodes it with the
   constants regenerated from server.go (GenC14) — an unknown value becomes StClosed-after-New nonsense via the
   last branch, which the language oracle rejects unless it really is StateClosed. *)
Definition st (z : Z) : conn_state :=
  if Z.eqb z StateNew then StNew
  else if Z.eqb z StateActive then StActive
  else if Z.eqb z StateIdle then StIdle
  else if Z.eqb z StateHijacked then StHijacked
  else StClosed.
Definition state_code (s : conn_state) : Z :=
  match s with
  | StNew => StateNew | StActive => StateActive | StIdle => StateIdle
  | StHijacked => StateHijacked | StClosed => StateClosed
  end.

(* One connection history.  gone = Some k: Shutdown closed the idle connection while the first byte of request k
   was being read (the harness forces this order); xst / stop as in ServeCheck.mk_env; ad = Delegated: the connection looks
   like TLS and is handed to a NextProto handler (a failing handshake is swallowed by getNextProto: served normally).  states = the hook calls the implementation made for this connection;
   actives = for every StateActive call: (bytes the client had handed to the connection when the hook ran,
   total length of the requests completed before); cs = the chunks the server's Read calls returned. *)
Inductive c14case :=
| C14 (en : entry) (ad : admission) (cfg : scfg) (ops : list (list hop)) (xst : list Z) (stop gone : option N) (cs : list bytes) (t : tail)
      (states : list conn_state) (actives : list (Z * Z)).

Definition corr_ok (c : c14case) : bool :=
  match c with
  | C14 en ad cfg ops xst stop gone cs t states _ => list_eqb state_eqb (sts (run_full en ad cfg ops xst stop gone cs t)) states
  end.

Definition count_active (l : list conn_state) : nat :=
  length (filter (fun s => state_eqb s StActive) l).

(* the property, judged on the implementation's hook calls *)
Definition prop_ok (c : c14case) : bool :=
  match c with
  | C14 _ _ _ _ _ _ _ _ _ states actives =>
      accepts states
      && (length actives =? count_active states)
      && forallb (fun p => Z.ltb (snd p) (fst p)) actives
  end.
