(* Case type and the two checks evaluated on harness cases for C15 (graceful shutdown).

   The harness drives the real server one action at a time (accept a connection, a client sends, a handler returns, Shutdown is
   called, a seam is released, ...) and after each action lets every goroutine run to its next blocking point.  `settle` below is
   the same scheduler on the model: it only composes steps of Model/Shutdown.v (every transition goes through `step`). *)
From FH Require Import Model.Base Model.Shutdown.
Open Scope Z_scope.

(* seams of the scripted connection: the thread of connection c parks ... *)
Inductive hold :=
| HoldGotByte    (* after the Read that delivered the next request returned, before Store(0): a goroutine that is not scheduled yet *)
| HoldLoopTop    (* inside SetReadDeadline at the top of the loop *)
| HoldAccepted.  (* the acceptor, inside the ConnState(StateNew) hook: after Accept returned, before s.open.Add(1) *)

Record cobs := mkCO {
  co_started : Z;       (* handler invocations on this connection *)
  co_delivered : Z;     (* complete responses the client received *)
  co_closed : bool;     (* the server called Close on it (closeIdleConns or the worker) *)
  co_handler : bool;    (* a handler is running on it now *)
  co_idle : Z;          (* s.idleConns: 0 = no entry, 1 = active (value 0), 2 = idle since a past time, 3 = fresh (a time in the future) *)
  co_done : Z           (* the channel ctx.Done() gave to the handler that is running: 0 = no handler running, 1 = open, 2 = closed, 3 = nil *)
}.

Record obs := mkObs {
  o_open : Z;                    (* GetOpenConnectionsCount() *)
  o_serving : Z;                 (* s.serving *)
  o_stop : bool;                 (* s.stop *)
  o_sd : Z;                      (* Shutdown: 0 not called, 1 running, 2 returned nil, 3 returned an error *)
  o_loops : list (bool * bool);  (* per Serve call: listener closed, Serve returned *)
  o_conns : list cobs
}.

Inductive block := Blk (ops : list label) (holds : list (nat * hold)) (o : obs).

(* per connection at the end of the case *)
Record cres := mkCRes {
  cr_client_closed : bool;     (* the client closed the connection at some point *)
  cr_idle_at_shutdown : bool;  (* when Shutdown was called it was an idle keep-alive connection as the client sees it: >= 1 request answered, all answered, client present and silent, goroutine waiting in Read (the server's idle marker is NOT consulted) *)
  cr_closed_by_first_pass : bool; (* ... and the server had closed it when Shutdown's first loop iteration was over *)
  cr_done_missed : Z           (* handlers on this connection that were told to answer while a Shutdown call was running (or after one had
                                  given up) and whose ctx.Done() channel was still open at that moment *)
}.

Inductive c15case :=
(* failed: some ShutdownWithContext call of this run returned ctx.Err() (after that the delivery guarantee is void) *)
| CRun (cf : cfg) (failed : bool) (blocks : list block) (conns : list cres)
(* the harness could not get two agreeing readings of the observables although every goroutine was at rest: not judged *)
| CUnstable.

(* ---- the scheduler ------------------------------------------------------------------------------------------------------ *)
Definition held (hs : list (nat * hold)) (c : nat) (h : hold) : bool :=
  existsb (fun e => Nat.eqb (fst e) c && match snd e, h with HoldGotByte, HoldGotByte | HoldLoopTop, HoldLoopTop | HoldAccepted, HoldAccepted => true | _, _ => false end) hs.

(* the next step of connection thread c that needs no outside action *)
Definition next_conn_label (hs : list (nat * hold)) (c : nat) (r : conn) : list label :=
  match pc r with
  | CAccepted => if held hs c HoldAccepted then [] else [LOpenInc c]
  | CQueued => [LRegIdle c]
  | CLoopTop => if held hs c HoldLoopTop then [] else [LSetDeadline c]
  | CPeek => [LPeekOk c; LPeekFail c]
  | CGotByte => if held hs c HoldGotByte then [] else [LStore0 c]
  | CActive => [LLoadStop c]
  | CStopSeen => [LLookup c]
  | CReady => [LReadReq c]
  | CWritten => [LStoreT c]
  | CStoredT => [LCheckStop c]
  | CExiting => [LUnregIdle c]
  | CUnreg => [LOpenDec c]
  | CHandler | CWrite | CClosed => []
  end.

Fixpoint first_enabled (cf : cfg) (s : st) (ls : list label) : option st :=
  match ls with
  | [] => None
  | l :: r => match step cf s l with Some s' => Some s' | None => first_enabled cf s r end
  end.

Fixpoint conn_candidates (hs : list (nat * hold)) (c : nat) (cs : list conn) : list label :=
  match cs with
  | [] => []
  | r :: rest => next_conn_label hs c r ++ conn_candidates hs (S c) rest
  end.

Definition loop_candidates (s : st) : list label := map LAcceptFail (seq 0 (length (loops s))).

(* threads and acceptors to a fixpoint *)
Fixpoint settle_threads (fuel : nat) (cf : cfg) (hs : list (nat * hold)) (s : st) : st :=
  match fuel with
  | O => s
  | S f =>
      match first_enabled cf s (conn_candidates hs O (conns s) ++ loop_candidates s) with
      | Some s' => settle_threads f cf hs s'
      | None => s
      end
  end.

(* one iteration of Shutdown's loop (from wherever it is) up to the ticker wait or the return *)
Fixpoint shutdown_iter (fuel : nat) (cf : cfg) (s : st) : st :=
  match fuel with
  | O => s
  | S f =>
      match sd s with
      | SStopSet | SLnClosed | SLoop | SReadServing | SReadOpen =>
          match first_enabled cf s [LCloseListeners; LCloseDone; LCloseIdle; LReadServing; LReadOpen] with
          | Some s' => shutdown_iter f cf s'
          | None => s
          end
      | _ => s
      end
  end.

Definition tick_iter (cf : cfg) (s : st) : st :=
  match sd s with
  | SWait => match step cf s LTicker with Some s' => shutdown_iter 8 cf s' | None => s end
  | _ => s
  end.

(* closeListenersLocked comes before the acceptors notice; the first closeIdleConns pass comes before the closed connections' threads
   notice; later passes happen a ticker period after everything else has come to rest *)
Definition settle (cf : cfg) (hs : list (nat * hold)) (s : st) : st :=
  let n := (60 + 20 * length (conns s))%nat in
  let s1 := settle_threads n cf hs s in
  let s2 := shutdown_iter 8 cf s1 in
  let s3 := settle_threads n cf hs s2 in
  let s4 := tick_iter cf s3 in
  let s5 := settle_threads n cf hs s4 in
  let s6 := settle_threads n cf hs (tick_iter cf s5) in
  let s7 := settle_threads n cf hs (tick_iter cf s6) in
  settle_threads n cf hs (tick_iter cf s7).

(* ---- correspondence ----------------------------------------------------------------------------------------------------------- *)
Definition idle_class (s : st) (r : conn) : Z :=
  if inmap r then (if ival r =? 0 then 1 else if ival r <=? now s then 2 else 3) else 0.

Definition done_class (s : st) (r : conn) : Z :=
  if in_handler r then match cdone r with Some ch => if chan_closed (dn s) ch then 2 else 1 | None => 3 end else 0.

Definition conn_obs_ok (s : st) (r : conn) (o : cobs) : bool :=
  (started r =? co_started o) && (delivered r =? co_delivered o)
  && Bool.eqb (srvClosed r || match pc r with CClosed => negb (hijack r) | _ => false end) (co_closed o)
  && Bool.eqb (in_handler r) (co_handler o)
  && (idle_class s r =? co_idle o)
  && (done_class s r =? co_done o).

Fixpoint forallb2 {A B} (f : A -> B -> bool) (a : list A) (b : list B) : bool :=
  match a, b with
  | [], [] => true
  | x :: a', y :: b' => f x y && forallb2 f a' b'
  | _, _ => false
  end.

Definition sd_code (p : spc) : Z :=
  match p with SNotCalled => 0 | SReturnedNil => 2 | SReturnedErr => 3 | _ => 1 end.

Definition obs_ok (s : st) (o : obs) : bool :=
  (open s =? o_open o) && (serving s =? o_serving o) && Bool.eqb (stop s) (o_stop o) && (sd_code (sd s) =? o_sd o)
  && forallb2 (fun lp e => Bool.eqb (negb (lnopen lp)) (fst e) && Bool.eqb (negb (lrunning lp)) (snd e)) (loops s) (o_loops o)
  && forallb2 (conn_obs_ok s) (conns s) (o_conns o).

Fixpoint replay (cf : cfg) (s : st) (bs : list block) : option st :=
  match bs with
  | [] => Some s
  | Blk ops hs o :: r =>
      match run cf s ops with
      | Some s1 => let s2 := settle cf hs s1 in if obs_ok s2 o then replay cf s2 r else None
      | None => None
      end
  end.

Definition corr_ok (c : c15case) : bool :=
  match c with
  | CRun cf _ bs _ => match replay cf init bs with Some _ => true | None => false end
  | CUnstable => true
  end.

(* ---- the property, judged on what the implementation did ----------------------------------------------------------------------- *)
(* at the observation at which a Shutdown call has returned nil (it was running at the previous observation, or it was called and returned
   within this action): listeners closed, Serve calls returned, no handler running, nothing counted *)
Definition returned_ok (o : obs) : bool :=
  forallb (fun e => fst e && snd e) (o_loops o) && forallb (fun c => negb (co_handler c)) (o_conns o) && (o_open o =? 0).

Definition is_setstop (l : label) : bool := match l with LSetStop => true | _ => false end.

Fixpoint returns_ok (prev : Z) (bs : list block) : bool :=
  match bs with
  | [] => true
  | Blk ops _ o :: r =>
      (if (o_sd o =? 2) && ((prev =? 1) || existsb is_setstop ops) then returned_ok o else true) && returns_ok (o_sd o) r
  end.

(* Done channels are closed once Shutdown has begun: at every observation made while a call runs (the observation comes after it has passed
   close(s.done)) or after a call has given up, every handler that is running holds a closed channel - in every Serve / Shutdown cycle *)
Definition done_ok (o : obs) : bool :=
  if (o_sd o =? 1) || (o_sd o =? 3) then forallb (fun c => (co_done c =? 0) || (co_done c =? 2)) (o_conns o) else true.

Definition last_obs (bs : list block) : option obs := match rev bs with Blk _ _ o :: _ => Some o | [] => None end.

(* every handler that was started has its response at the client, unless the client went away *)
Definition answered_ok (o : cobs) (r : cres) : bool := cr_client_closed r || (co_started o =? co_delivered o).

Definition idle_ok (r : cres) : bool := if cr_idle_at_shutdown r then cr_closed_by_first_pass r else true.

Definition prop_ok (c : c15case) : bool :=
  match c with
  | CRun _ failed bs conns =>
      returns_ok 0 bs && forallb (fun b => match b with Blk _ _ o => done_ok o end) bs
      && forallb idle_ok conns
      && forallb (fun r => cr_done_missed r =? 0) conns     (* no request in flight during a shutdown was left with an open Done channel *)
      && match last_obs bs with
         | Some o => if (o_sd o =? 2) && negb failed then forallb2 answered_ok (o_conns o) conns else true
         | None => true
         end
  | CUnstable => true
  end.
