(* Case type and the two checks evaluated on harness cases for C16. *)
From FH Require Import Model.Base Model.PackedBytes Gen.GenC16 Model.Cookie Model.HeaderWrite Model.RespWrite Model.Timeout
  Spec.RespParse Spec.RespSpec Spec.TimeoutSpec.
Open Scope Z_scope.

(* a response value of the LTS is the list of response-building calls that produced it *)
Definition val := list hop.
Definition lbl := label val.

(* how a request was sent, and the StatusMessage text of the status the client saw *)
Definition c16req := (meth * reqinfo * bytes)%type.

Inductive c16case :=
| C16Trace (cfg : srvcfg) (cap : nat)        (* Server.Concurrency, as the specification reads it *)
           (semcap : nat)                        (* cap(s.concurrencyCh) when the handlers ran (= Concurrency since /repo 0e1d77b; it was 0, a nil channel, on ServeConn-only servers) *)
           (date : bytes)
           (tmsg : bytes) (tcode : Z)            (* TimeoutWithCodeHandler(h, d, msg, statusCode) *)
           (events : list event)                 (* the scenario, as the specification sees it *)
           (trace : list lbl)                    (* the same scenario as LTS labels, in the order the harness forced *)
           (reqs : list (list c16req))           (* per connection: the requests sent *)
           (wires : list (list bytes))           (* per connection: the raw bytes read for each of them *)
           (maxrun : nat)                        (* the largest number of wrapped handlers inside h(ctx) at one time, as counted by them *)
           (badcloses : nat).                    (* body streams of timeout responses (TimeoutErrorWithResponse) NOT closed exactly once *)                       (* the largest number of wrapped handlers inside h(ctx) at one time, as counted by them *)

Definition timeout_val (tmsg : bytes) (tcode : Z) : val := [HHdr (ROSetStatusCode tcode); HSetBody tmsg].
Definition too_many_val (tmsg : bytes) : val := [HError tmsg StatusTooManyRequests].

(* a timeout response is serialised from a ctx acquired after the handler: Server.NoDefaultDate / NoDefaultContentType /
   DisableHeaderNamesNormalizing were not applied to it *)
Definition cfg_fresh (c : srvcfg) : srvcfg := mkCfg (c_name c) false false false (c_disableKA c).

Fixpoint zip3 {A B C} (a : list A) (b : list B) (c : list C) : option (list (A * B * C)) :=
  match a, b, c with
  | [], [], [] => Some []
  | x :: a', y :: b', z :: c' => match zip3 a' b' c' with Some r => Some ((x, y, z) :: r) | None => None end
  | _, _, _ => None
  end.

Definition conn_ok (cfg : srvcfg) (date : bytes) (log : list (nat * option (rv val) * rv val)) (rs : list c16req) (ws : list bytes) : bool :=
  match zip3 log rs ws with
  | None => false
  | Some l =>
      forallb (fun e => match e with
        | ((_, tr, w), (_, q, smsg), wire) =>
            let c := match tr with Some _ => cfg_fresh cfg | None => cfg end in
            match serve_one smsg date c q (rv_val val w) with
            | (b, WrOk, _) => beq b wire
            | _ => false
            end
        end) l
  end.

Fixpoint conns_ok (cfg : srvcfg) (date : bytes) (s : state val) (c : nat) (rs : list (list c16req)) (ws : list (list bytes)) : bool :=
  match rs, ws with
  | [], [] => true
  | r :: rs', w :: ws' => conn_ok cfg date (k_log val (s_conn val s c)) r w && conns_ok cfg date s (S c) rs' ws'
  | _, _ => false
  end.

Definition corr_ok (c : c16case) : bool :=
  match c with
  | C16Trace cfg _ semcap date tmsg tcode _ trace reqs wires _ _ =>
      match run val (timeout_val tmsg tcode) (too_many_val tmsg) [] semcap (init val []) trace with
      | None => false                                 (* the harness forced an order the model cannot take *)
      | Some s => Nat.eqb (s_nconn val s) (length reqs) && conns_ok cfg date s 0 reqs wires
      end
  end.

(* ---- the property, judged on the bytes the clients received ---- *)
Definition resp_is (m : meth) (wire : bytes) (status : Z) (body : bytes) : bool :=
  match resp_parse m wire with
  | Some p => (p_status p =? status) && beq (p_body p) (if bodyless m status then [] else body) &&
              beq (p_rest p) [] && negb (p_until_close p) &&
              (* nothing a late handler wrote: its writes carry this header *)
              match values_of "x-late" (p_fields p) with [] => true | _ => false end
  | None => false
  end.

Definition expect_ok (tmsg : bytes) (tcode : Z) (m : meth) (e : expectation) (wire : bytes) : bool :=
  match e with
  | XOwn status body => resp_is m wire status body
  | XTimeout => resp_is m wire tcode tmsg
  | XTimeoutWith status body => resp_is m wire status body
  | XTooMany => resp_is m wire StatusTooManyRequests tmsg
  end.

Definition nth_conn {A} (l : list (list A)) (c : nat) : list A := nth c l [].

(* walk the expectations (in scenario order) and consume each connection's responses in order *)
Fixpoint judge (tmsg : bytes) (tcode : Z) (xs : list (nat * expectation)) (reqs : list (list c16req)) (wires : list (list bytes))
               (pos : nat -> nat) : bool :=
  match xs with
  | [] => true
  | (c, e) :: xs' =>
      let i := pos c in
      match nth_error (nth_conn reqs c) i, nth_error (nth_conn wires c) i with
      | Some (m, _, _), Some wire =>
          expect_ok tmsg tcode m e wire && judge tmsg tcode xs' reqs wires (fun c' => if Nat.eqb c' c then S i else pos c')
      | _, _ => false
      end
  end.

Definition prop_ok (c : c16case) : bool :=
  match c with
  | C16Trace cfg cap _ date tmsg tcode events _ reqs wires maxrun badcloses =>
      let xs := expectations cap events in
      judge tmsg tcode xs reqs wires (fun _ => O) &&
      (* every response was expected: as many responses as requests in the scenario *)
      Nat.eqb (length xs) (fold_right (fun w n => (length w + n)%nat) O wires) &&
      (* at most `cap` wrapped handlers ran at any time *)
      (maxrun <=? cap)%nat &&
      (* a streamed timeout response is consumed: its stream is closed exactly once *)
      Nat.eqb badcloses 0
  end.
