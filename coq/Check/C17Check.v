(* Case type and checks for C17 (hijacked connections are handed over intact). *)
From FH Require Import Model.Base Gen.GenC10 Model.ConnOpt Model.Serve Spec.ServeSpec Check.ServeCheck.
Open Scope nat_scope.

(* One connection: nreq requests, the handler of the last one hijacks (ops); reqlen = total length of these
   requests; everything the client sends afterwards is the hijack handler's.  cs = the chunks the reads
   returned (server's and hijack handler's).  hjin = how many bytes the hijack handler reads before it
   returns (None: until EOF); late = with KeepHijackedConns the connection is read to EOF after the handler
   returned.
   Observed: ran = the hijack handler was started; before = the final responses completely on the wire when
   it started, partial = other bytes were on the wire then (an incomplete response);
   extra = the server wrote something else after that point; inb / lateb = bytes read inside / after the
   handler; latepanic = a read after the handler panicked; closed = the connection was closed by the server
   (shortly after the handler returned); seen = targets the request handler saw. *)
Inductive c17case :=
| C17 (en : entry) (cfg : scfg) (ops : list (list hop)) (nreq reqlen : Z) (cs : list bytes) (hjin : option Z) (late : bool)
      (ran : bool) (before : list (Z * list bytes)) (partial extra : bool)
      (inb lateb : bytes) (latepanic closed : bool).

Fixpoint upto_hijack (evs : list event) : list event :=
  match evs with
  | [] => []
  | HijackEv _ _ _ :: _ => []
  | e :: r => e :: upto_hijack r
  end.

Definition final_wire (evs : list event) : list (Z * list bytes) :=
  filter (fun p => Z.leb 200 (fst p)) (wire evs).

Definition corr_ok (c : c17case) : bool :=
  match c with
  | C17 en cfg ops nreq reqlen cs hjin late ran before partial extra inb lateb latepanic closed =>
      let evs := run en Admit cfg ops [] None cs Eof in
      match hijack_of evs with
      | None => negb ran && list_eqb resp_eqb (final_wire evs) before && Bool.eqb (server_closed evs) closed
      | Some (src, hb, hcs) =>
          ran
          && list_eqb resp_eqb (final_wire (upto_hijack evs)) before
          && negb (unflushed_from false (upto_hijack evs)) && negb partial
          && (let rest := hb ++ concat hcs in
              let k := match hjin with Some k => Z.to_nat k | None => length rest end in
              beq (hijack_in hb hcs k) inb
              && (if late then
                    match hijack_late (reduce_mem cfg) (keep_hijacked cfg) src hb hcs k with
                    | LateAll bs => beq bs lateb && negb latepanic
                    | LatePanic bs => beq bs lateb && latepanic
                    | LateClosed => true
                    | LateUnmodelled => true
                    end
                  else true))
          && Bool.eqb (server_closed evs) closed
      end
  end.

(* the property, on the implementation's observables *)
Definition prop_ok (c : c17case) : bool :=
  match c with
  | C17 en cfg ops nreq reqlen cs hjin late ran before partial extra inb lateb latepanic closed =>
      if negb ran then true      (* the property speaks about connections whose hijack handler runs *)
      else
        let h := after_handler (fold_left apply_hop (nth_req (Z.to_N nreq) ops []) (hstate0 StatusOK false)) in
        let noresp := h_noresp h && h_hijack h in
        let rest := skipn (Z.to_nat reqlen) (concat cs) in
        (* the response (unless suppressed) is completely written before the hijack handler runs *)
        negb partial && (Z.of_nat (length before) =? (if noresp then nreq - 1 else nreq))%Z
        (* the server never writes to the connection again *)
        && negb extra
        (* the handler reads every byte sent after the hijacking request, in order *)
        && match hjin with
           | None => beq inb rest
           | Some k => beq inb (firstn (Z.to_nat k) rest)
                       && (if late then beq lateb (skipn (Z.to_nat k) rest) && negb latepanic else true)
           end
        (* closed after the handler returns unless KeepHijackedConns *)
        && (if late then true else Bool.eqb closed (negb (keep_hijacked cfg)))
  end.
