(* Case type and the two checks evaluated on harness cases for C18 (HostClient connection pool). *)
From FH Require Import Model.Base Gen.GenC18 Model.ClientPool.
Open Scope Z_scope.

(* What the harness does to the real HostClient.  Numbers are Z in case files. *)
Inductive op :=
| OAcq                         (* real AcquireConn in a goroutine (long wait timeout) *)
| OAcqShort (ovr : bool)       (* real AcquireConn on a full pool with a few ms of wait timeout: it must time out *)
| ODialOk (k : Z) | ODialFail (k : Z)   (* answer the k-th pending call of the scripted Dial *)
| ORelease (c : Z) | OClose (c : Z)     (* ReleaseConn / CloseConn by the requester holding c *)
| OCloseBegin (c : Z) | OCloseFin (c : Z)  (* CloseConn on a conn whose Close() blocks until OCloseFin (decConnsCount follows) *)
| OCloseIdle                   (* CloseIdleConnections() *)
| OCloseIdleBegin              (* CloseIdleConnections() in a goroutine while Close() of every idle conn blocks: it takes its copy of the
                                  idle list and enters Close() of the first one; each OCloseFin lets it finish that conn and enter the next *)
| OIdleExpire                  (* wait for the real connsCleaner to retire every idle conn *)
| OMDecide (tmo : Z)           (* manual waiter: first region of AcquireConn found the pool full (harness-side), wantConn allocated *)
| OMEnqueue (w : Z)            (* real queueForIdle(w) *)
| OMCancel (w : Z)             (* real w.cancel(c, ErrNoFreeConns): the timer branch *)
| OMTake (w : Z)               (* the ready branch: read w.conn / w.err *)
| OSetMax (n : Z).             (* SetMaxConns(n) at run time (the harness only raises the limit) *)

Inductive view := VWaiting | VConn (c : Z) | VErr.
Inductive res := SConn (c : Z) | SDialErr | SNoFree | STimeout | SOther.

Record obs := mkobs {
  o_cnt : Z;                       (* ConnsCount() *)
  o_idle : list Z;                 (* c.conns *)
  o_queue : list (Z * bool);       (* c.connsWait: (wid, waiting()) *)
  o_dials : Z;                     (* calls of Dial not answered yet *)
  o_live : Z;                      (* conns dialled successfully whose Close() has not returned *)
  o_lent : list Z;                 (* conns held by harness requesters *)
  o_rets : list res;               (* AcquireConn calls that returned during this op *)
  o_man : list (Z * view * bool);  (* manual wantConns: (wid, state, owner returned) *)
  o_closelog : list Z;             (* conns whose Close() has been called, in call order (-1: a conn the harness never created) *)
  o_stuck : bool }.                (* watchdog fired *)

Inductive c18case :=
| CTrace (cf : cfg) (ops : list (op * obs))
| CDo (max : Z) (cnt idle open max_open double_close : Z)   (* after a series of HostClient.Do calls against faulty conns, at rest *)
| CStress (max : Z) (wait : bool)
          (max_live_strict max_live_lenient double_use final_cnt final_idle final_live bad_outcomes late : Z).

(* ---------------- model side ---------------- *)
Definition BIG : Z := 1000000.

(* cic: the conn CloseIdleConnections (OCloseIdleBegin) is currently closing *)
Record cst := { ms : st; autos : list nat; mans : list nat; cic : option nat }.

Definition res_of (r : wres) : res :=
  match r with RConn c => SConn (Z.of_nat c) | RDialErr => SDialErr | RNoFree => SNoFree | RTimeout => STimeout end.

Definition first_auto_ready (s : st) (autos : list nat) : option nat :=
  find (fun w => match wst (getw (wants s) w) with WDelivered _ | WFailed => true | _ => false end) autos.

(* internal goroutines and woken requesters run to their next blocking point *)
Fixpoint settle (cf : cfg) (fuel : nat) (s : st) (autos : list nat) (rets : list res) : option (st * list res) :=
  match fuel with
  | O => None
  | S f =>
      match rel s with
      | c :: _ => match step cf s (LRelease c) with Some s' => settle cf f s' autos rets | None => None end
      | [] =>
          match decs s with
          | S _ => match step cf s LDec with Some s' => settle cf f s' autos rets | None => None end
          | O =>
              match first_auto_ready s autos with
              | Some w =>
                  match step cf s (LTake w) with
                  | Some s' =>
                      let r := match wst (getw (wants s') w) with WRet r => res_of r | _ => SOther end in
                      settle cf f s' autos (rets ++ [r])
                  | None => None
                  end
              | None => Some (s, rets)
              end
          end
      end
  end.

Fixpoint run_labels (cf : cfg) (s : st) (ls : list label) : option st :=
  match ls with [] => Some s | l :: r => match step cf s l with Some s' => run_labels cf s' r | None => None end end.

Definition close_all (cf : cfg) (s : st) : option st :=
  let n := length (idle s) in
  match step cf s (LCleanIdle n) with
  | Some s1 =>
      let cs := idle s in    (* its own copy; another CloseIdleConnections call may be in progress with its own *)
      run_labels cf s1 (flat_map (fun c => [LClose c; LCloseFin c]) cs)
  | None => None
  end.

Definition zn (z : Z) : nat := Z.to_nat z.

(* one harness op = a fixed sequence of labels, then [settle] *)
Definition run_op (cf : cfg) (x : cst) (o : op) : option (cst * list res) :=
  let s := ms x in
  let fin (r : option st) (au ma : list nat) (rets : list res) :=
    match r with
    | Some s1 => match settle cf 200 s1 au rets with
                 | Some (s2, rets') => Some ({| ms := s2; autos := au; mans := ma; cic := cic x |}, rets')
                 | None => None
                 end
    | None => None
    end in
  match o with
  | OAcq =>
      match acquire_out cf s with
      | AGot c => fin (step cf s (LAcquire BIG false)) (autos x) (mans x) [SConn (Z.of_nat c)]
      | ADial => fin (step cf s (LAcquire BIG false)) (autos x) (mans x) []
      | ANoFree => fin (step cf s (LAcquire BIG false)) (autos x) (mans x) [SNoFree]
      | AWait w => fin (run_labels cf s [LAcquire BIG false; LEnqueue w]) (autos x ++ [w]) (mans x) []
      end
  | OAcqShort ovr =>
      match acquire_out cf s with
      | AWait w =>
          match run_labels cf s [LAcquire 1 ovr; LEnqueue w; LTick; LTimeout w] with
          | Some s1 => fin (Some s1) (autos x) (mans x)
                           [match wst (getw (wants s1) w) with WRet r => res_of r | _ => SOther end]
          | None => None
          end
      | _ => None
      end
  | ODialOk k => fin (step cf s (LDialOk (zn k))) (autos x) (mans x) (
                   match nth_error (dials s) (zn k) with Some DReq => [SConn (Z.of_nat (next s))] | _ => [] end)
  | ODialFail k => fin (step cf s (LDialFail (zn k))) (autos x) (mans x) (
                   match nth_error (dials s) (zn k) with Some DReq => [SDialErr] | _ => [] end)
  | ORelease c => if memb (zn c) (lent s) then fin (step cf s (LRelease (zn c))) (autos x) (mans x) [] else None
  | OClose c => if memb (zn c) (lent s) then fin (run_labels cf s [LClose (zn c); LCloseFin (zn c)]) (autos x) (mans x) [] else None
  | OCloseBegin c => if memb (zn c) (lent s) then fin (step cf s (LClose (zn c))) (autos x) (mans x) [] else None
  | OCloseFin c =>
      match cic x with
      | Some c0 =>
          if Nat.eqb c0 (zn c) then
            (* the CloseIdleConnections goroutine: decConnsCount for this conn, then Close() of the next one of its copy *)
            match step cf s (LCloseFin c0) with
            | Some s1 =>
                match scratch s1 with
                | c1 :: _ => match fin (step cf s1 (LClose c1)) (autos x) (mans x) [] with
                             | Some (x', rets) => Some ({| ms := ms x'; autos := autos x'; mans := mans x'; cic := Some c1 |}, rets)
                             | None => None
                             end
                | [] => match fin (Some s1) (autos x) (mans x) [] with
                        | Some (x', rets) => Some ({| ms := ms x'; autos := autos x'; mans := mans x'; cic := None |}, rets)
                        | None => None
                        end
                end
            | None => None
            end
          else fin (step cf s (LCloseFin (zn c))) (autos x) (mans x) []
      | None => fin (step cf s (LCloseFin (zn c))) (autos x) (mans x) []
      end
  | OCloseIdleBegin =>
      match cic x, step cf s (LCleanIdle (length (idle s))) with
      | None, Some s1 =>
          match scratch s1 with
          | c1 :: _ => match fin (step cf s1 (LClose c1)) (autos x) (mans x) [] with
                       | Some (x', rets) => Some ({| ms := ms x'; autos := autos x'; mans := mans x'; cic := Some c1 |}, rets)
                       | None => None
                       end
          | [] => None
          end
      | _, _ => None
      end
  | OCloseIdle | OIdleExpire => fin (close_all cf s) (autos x) (mans x) []
  | OMDecide tmo =>
      match acquire_out cf s with
      | AWait w => fin (step cf s (LAcquire tmo false)) (autos x) (mans x ++ [w]) []
      | _ => None
      end
  | OMEnqueue w => fin (step cf s (LEnqueue (zn w))) (autos x) (mans x) []
  | OMCancel w => fin (run_labels cf s [LTick; LTimeout (zn w)]) (autos x) (mans x) []
  | OMTake w => fin (step cf s (LTake (zn w))) (autos x) (mans x) []
  | OSetMax _ => fin (Some s) (autos x) (mans x) []      (* the configuration changes, see [cfg_after] *)
  end.

Definition cfg_after (cf : cfg) (o : op) : cfg :=
  match o with OSetMax n => {| maxc := n; waiton := waiton cf; fifo := fifo cf |} | _ => cf end.

Definition view_of (st : wstatus) : view * bool :=
  match st with
  | WDecided | WWaiting => (VWaiting, false)
  | WDelivered c => (VConn (Z.of_nat c), false)
  | WFailed => (VErr, false)
  | WRet (RConn c) => (VConn (Z.of_nat c), true)
  | WRet _ => (VErr, true)
  end.

Definition zl (l : list nat) : list Z := map Z.of_nat l.

Definition project (x : cst) (rets : list res) : obs :=
  let s := ms x in
  {| o_cnt := cnt s;
     o_idle := zl (idle s);
     o_queue := map (fun w => (Z.of_nat w, waitingb (wants s) w)) (waitq s);
     o_dials := Z.of_nat (length (dials s));
     o_live := Z.of_nat (length (held s) + length (closing s));
     o_lent := zl (lent s);
     o_rets := rets;
     o_man := map (fun w => let v := view_of (wst (getw (wants s) w)) in (Z.of_nat w, fst v, snd v)) (mans x);
     o_closelog := zl (closelog s);
     o_stuck := false |}.

Definition zlist_eqb := list_eqb Z.eqb.
Definition view_eqb (a b : view) : bool :=
  match a, b with VWaiting, VWaiting => true | VConn x, VConn y => x =? y | VErr, VErr => true | _, _ => false end.
Definition res_eqb (a b : res) : bool :=
  match a, b with
  | SConn x, SConn y => x =? y | SDialErr, SDialErr => true | SNoFree, SNoFree => true
  | STimeout, STimeout => true | SOther, SOther => true | _, _ => false
  end.
Definition obs_eqb (a b : obs) : bool :=
  (o_cnt a =? o_cnt b) && zlist_eqb (o_idle a) (o_idle b) &&
  list_eqb (pair_eqb Z.eqb Bool.eqb) (o_queue a) (o_queue b) &&
  (o_dials a =? o_dials b) && (o_live a =? o_live b) && zlist_eqb (o_lent a) (o_lent b) &&
  list_eqb res_eqb (o_rets a) (o_rets b) &&
  list_eqb (fun p q => (fst (fst p) =? fst (fst q)) && view_eqb (snd (fst p)) (snd (fst q)) && Bool.eqb (snd p) (snd q)) (o_man a) (o_man b) &&
  zlist_eqb (o_closelog a) (o_closelog b) &&
  Bool.eqb (o_stuck a) (o_stuck b).

Fixpoint replay (cf : cfg) (x : cst) (ops : list (op * obs)) : bool :=
  match ops with
  | [] => true
  | (o, ob) :: r =>
      match run_op cf x o with
      | Some (x', rets) => obs_eqb (project x' rets) ob && replay (cfg_after cf o) x' r
      | None => false
      end
  end.

Definition corr_ok (c : c18case) : bool :=
  match c with
  | CTrace cf ops => replay cf {| ms := init; autos := []; mans := []; cic := None |} ops
  | CDo _ _ _ _ _ _ => true                  (* RoundTrip's use of the pool is not in the pool model; judged by prop_ok only *)
  | CStress _ _ _ _ _ _ _ _ _ _ => true      (* schedules of the Go runtime are not predicted by the model; judged by prop_ok only *)
  end.

(* ---------------- the property, judged on the implementation's observations alone ---------------- *)
Fixpoint nodupb (l : list Z) : bool :=
  match l with [] => true | x :: r => negb (existsb (Z.eqb x) r) && nodupb r end.

Definition undelivered (m : list (Z * view * bool)) : list Z :=
  flat_map (fun e => match e with (_, VConn c, false) => [c] | _ => [] end) m.

Definition zlen {A} (l : list A) : Z := Z.of_nat (length l).

Definition obs_ok (cf : cfg) (o : op) (b : obs) : bool :=
  negb (o_stuck b) &&
  (0 <=? o_cnt b) && (o_cnt b <=? eff_max cf) &&                                      (* C18_bound *)
  (o_live b + o_dials b <=? eff_max cf) &&                                            (* open or being dialled *)
  (o_cnt b =? o_live b + o_dials b) &&                                                (* exact accounting; zero at quiescence *)
  (zlen (o_idle b) + zlen (o_lent b) + zlen (undelivered (o_man b)) <=? o_live b) &&   (* ... every conn known to the pool or a requester is open *)
  nodupb (o_idle b ++ o_lent b ++ undelivered (o_man b) ++ o_closelog b) &&           (* exclusive lending; nothing idle or lent after Close; Close at most once per conn *)
  forallb (fun c => 0 <=? c) (o_idle b ++ o_lent b ++ o_closelog b) &&                (* only conns that were really dialled *)
  match o with
  | OAcqShort _ => match o_rets b with [SNoFree] | [STimeout] => true | _ => false end   (* a waiter returns at its deadline *)
  | _ => forallb (fun r => match r with SOther => false | _ => true end) (o_rets b)
  end.

Fixpoint trace_ok (cf : cfg) (ops : list (op * obs)) : bool :=
  match ops with
  | [] => true
  | (o, b) :: r => let cf' := cfg_after cf o in obs_ok cf' o b && trace_ok cf' r
  end.

Definition prop_ok (c : c18case) : bool :=
  match c with
  | CTrace cf ops => trace_ok cf ops
  | CDo max cnt idle open max_open dbl =>
      let m := if max <=? 0 then DefaultMaxConnsPerHost else max in
      (* at rest: ConnsCount = idle conns = conns still open; never more than MaxConns open; nothing closed twice *)
      (cnt =? idle) && (open =? idle) && (max_open <=? m) && (dbl =? 0)
  | CStress max wait strict lenient dbl fcnt fidle flive bad late =>
      let m := if max <=? 0 then DefaultMaxConnsPerHost else max in
      (strict <=? m) && (lenient <=? m) && (dbl =? 0) && (fcnt =? 0) && (fidle =? 0) && (flive =? 0) && (bad =? 0) && (late =? 0)
  end.
