(* Case type and the two checks evaluated on harness cases for C19 (client retries). *)
From FH Require Import Model.Base Gen.GenC19 Model.Retry Spec.RetrySpec.
Open Scope Z_scope.

(* the implementation's observables for one HostClient.Do / DoTimeout call *)
Inductive c19case :=
| CRetry (c : cfg) (fs : list fault)
         (dials : Z)       (* calls of the scripted Dial = calls of RoundTrip *)
         (transmissions : Z) (* connections on which request bytes arrived *)
         (e : errc)        (* class of the error returned *)
         (cb : Z)          (* callback invocations *)
         (late : Z).       (* dials started more than 100 ms after the request timeout had elapsed (no reset callback) *)

Definition corr_ok (x : c19case) : bool :=
  match x with
  | CRetry c fs d t e cb _ =>
      let m := Do c fs in
      (calls m =? d) && (sent m =? t) && errc_eqb (err m) e && (cbcalls m =? cb)
  end.

Fixpoint index_ok (fs : list fault) (i : Z) (p : fault -> bool) (d : Z) : bool :=
  match fs with
  | [] => true
  | f :: r => (if p f then d <=? i + 1 else true) && index_ok r (i + 1) p d
  end.

(* the statement of C19, judged on what the implementation did *)
Definition prop_ok (x : c19case) : bool :=
  match x with
  | CRetry c fs d t e cb late =>
      let lim := if max_attempts c <=? 0 then 5 else max_attempts c in
      (* at most MaxIdemponentCallAttempts transmissions (5 by default) *)
      (t <=? Z.max 1 lim) &&
      (* not GET/HEAD/PUT: once, unless a callback allows more *)
      (if negb (named_idempotent (method_of (meth c))) && negb (callbacks_allow c) then t <=? 1 else true) &&
      (* body stream: never retried *)
      (if body_stream c then t <=? 1 else true) &&
      (* a response that exceeded MaxResponseBodySize is not retried (for HEAD the body is not read at all) *)
      (if negb (beq (method_of (meth c)) (s2b "HEAD")) then index_ok fs 0 (fun f => match f with FTooLarge => true | _ => false end) d else true) &&
      (* no attempt after the request timeout has elapsed, unless a callback may reset it:
         a timeout fault without Read/WriteTimeout lasts until the request deadline *)
      (if (timeout c >? 0) && negb (callbacks_reset c)
       then (late =? 0) && (if rwtimeout c =? 0 then index_ok fs 0 is_timeout_fault d else true)
       else true)
  end.
