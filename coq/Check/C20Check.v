(* Case type and the two checks evaluated on harness cases for C20. *)
From FH Require Import Model.Base Gen.GenC20 Model.Redirect Spec.RedirectSpec.
Open Scope N_scope.

Inductive c20case :=
(* one redirect-following call through a real Client over a fake network.
   maxr = None: the Get/GetTimeout/Post entry points (defaultMaxRedirectsCount).
   Request state at the call: method, disableNormalizing, generic headers as VisitAll shows them, contentType set,
   contentLength, contentLengthBytes set, and every body source: body buffer length, body stream (size -1) length,
   bodyRaw length, marshalled multipart form length, post args length, parsedPostArgs.
   chain: the answers of the scripted servers with the URI-layer oracle values.
   ihops / ires: what the hosts received and the error class returned (0 nil, 1 ErrTooManyRedirects, 2 ErrMissingLocation, 3 other). *)
| CRun (maxr : option Z) (url0 host0 : bytes) (ok0 : bool) (uinfo0 : option bytes)
       (meth : bytes) (dn : bool) (hdrs : list (bytes * bytes)) (ct : bool) (cl : Z) (clb : bool) (body : Z) (stream : option Z)
       (raw mpart : option Z) (pargs : Z) (parsed : bool)
       (chain : list answer) (ihops : list ohop) (ires : N)
| CIsSub (sub parent : bytes) (impl : bool)                 (* isDomainOrSubdomainBytes *)
| CHostURL (url : bytes) (impl : bytes)                     (* hostnameFromURLString *)
| CSplit (hp : bytes) (ihost iport ihostname : bytes)       (* splitHostPortBytes, hostnameFromHostPortBytes *)
| CShould (init hp : bytes) (impl : bool).                  (* shouldStripSensitiveHeadersOnRedirect *)

Definition Ans (status : Z) (loc rhost : bytes) (ok : bool) : answer := mkAns status loc rhost ok.
Definition Hop (host meth : bytes) (creds : list (bytes * bytes)) (body : Z) (cl ct te : bool) : ohop :=
  mkOhop host meth creds body cl ct te.

Definition res_code (r : result) : N :=
  match r with RDone => 0 | RTooMany => 1 | RMissingLocation => 2 | RErr => 3 end.

Definition kv_eqb (a b : bytes * bytes) : bool := beq (fst a) (fst b) && beq (snd a) (snd b).
Definition count_kv (x : bytes * bytes) (l : list (bytes * bytes)) : nat := length (filter (kv_eqb x) l).
(* equal as multisets (the order of header lines is not part of the observable) *)
Definition mset_eqb (a b : list (bytes * bytes)) : bool :=
  (length a =? length b)%nat && forallb (fun x => (count_kv x a =? count_kv x b)%nat) a.

Definition hop_matches (m : hop) (o : ohop) : bool :=
  beq (lower (h_host m)) (lower (o_host o)) &&
  beq (s_method (h_sent m)) (o_method o) &&
  mset_eqb (s_sens (h_sent m)) (o_creds o) &&
  (s_body (h_sent m) =? o_body o)%Z &&
  Bool.eqb (s_cl (h_sent m)) (o_cl o) && Bool.eqb (s_ct (h_sent m)) (o_ct o) && Bool.eqb (s_te (h_sent m)) (o_te o).

Fixpoint hops_match (ms : list hop) (os : list ohop) : bool :=
  match ms, os with
  | [], [] => true
  | m :: ms', o :: os' => hop_matches m o && hops_match ms' os'
  | _, _ => false
  end.

Definition maxr_of (m : option Z) : Z := match m with Some z => z | None => defaultMaxRedirectsCount end.

(* hypothesis of the theorems about the URI layer, validated on every case: the host the first request goes to is,
   up to ASCII case, what hostnameFromURLString extracts from the URL *)
Definition init_agree (url0 host0 : bytes) : bool :=
  beq (lower (hostnameFromURLString url0)) (lower (hostnameFromHostPortBytes host0)).

Definition corr_ok (c : c20case) : bool :=
  match c with
  | CRun maxr url0 host0 ok0 uinfo0 meth dn hdrs ct cl clb body stream raw mpart pargs parsed chain ihops ires =>
      let r0 := mkReq meth hdrs dn ct cl clb body stream raw mpart pargs parsed in
      let (mh, mr) := run (maxr_of maxr) url0 host0 ok0 uinfo0 r0 chain in
      hops_match mh ihops && (res_code mr =? ires) && (negb ok0 || init_agree url0 host0)
  | CIsSub sub parent impl => Bool.eqb (isDomainOrSubdomainBytes sub parent) impl
  | CHostURL url impl => beq (hostnameFromURLString url) impl
  | CSplit hp ih ip ihn =>
      beq (fst (splitHostPortBytes hp)) ih && beq (snd (splitHostPortBytes hp)) ip && beq (hostnameFromHostPortBytes hp) ihn
  | CShould init hp impl => Bool.eqb (shouldStrip init hp) impl
  end.

(* the caller's credentials: the credential-named headers set on the request, and the Authorization derived from the
   userinfo of the URL the caller passed *)
Definition caller_creds (hdrs : list (bytes * bytes)) (uinfo0 : option bytes) : list (bytes * bytes) :=
  filter (fun kv => is_credential_name (fst kv)) hdrs ++
  match uinfo0 with Some v => [(s2b "authorization", v)] | None => [] end.

(* the property, judged on what the hosts received *)
Definition prop_ok (c : c20case) : bool :=
  match c with
  | CRun maxr url0 host0 ok0 uinfo0 meth dn hdrs ct cl clb body stream raw mpart pargs parsed chain ihops ires =>
      match ihops with
      | [] => true
      | first :: _ =>
          no_leak (o_host first) (caller_creds hdrs uinfo0) ihops &&
          count_ok (maxr_of maxr) ihops &&
          rewrite_ok (map a_status chain) ihops
      end
  | CIsSub sub parent impl => negb impl || trustedb parent sub     (* the trust rule only accepts the host or its subdomains *)
  | CShould init hp impl => impl || trustedb init (hostnameFromHostPortBytes hp)
  | _ => true
  end.
