(* Case type and the two checks evaluated on harness cases for C21. *)
From FH Require Import Model.Base Gen.GenC21 Model.Scheme Spec.SchemeSpec.
Open Scope N_scope.

(* Implementation observables of one history (recorded by the Dial wrapper and the scripted servers):
     dials  : (cid, address given to Dial, first bytes written by the client were a TLS ClientHello)
     writes : (cid, rid, server received the request through its TLS layer) in arrival order
     plain  : (cid, rid) the request line of rid was visible in the raw bytes the client wrote on cid
     outs   : per call, the error class returned *)
Inductive c21case :=
| C21Hist (cwt : bool) (conf : N) (hcs : list hcfg) (calls : list call)
          (dials : list (N * bytes * bool)) (writes : list (N * N * bool)) (plain : list (N * N)) (outs : list N)
(* observation-only history (TLS handshake failures, configurations outside the model): judged by prop_ok alone *)
| C21Obs (keeps_addr : bool) (hcs : list hcfg) (calls : list call)
         (dials : list (N * bytes * bool)) (writes : list (N * N * bool)) (plain : list (N * N))
| C21Port (addr : bytes) (isTLS : bool) (impl : bytes).

(* Client.ConfigureClient functions used by the harness: 0 nil, 1 flips IsTLS, 2 sets Addr to "c.test:9", 3 returns an error,
   4 sets WriteTimeout *)
Definition conf_of (c : N) : hostclient -> option hostclient :=
  match c with
  | 1 => fun hc => Some {| hc_addr := hc_addr hc; hc_tls := negb (hc_tls hc); hc_wt := hc_wt hc; hc_pool := hc_pool hc |}
  | 2 => fun hc => Some {| hc_addr := s2b "c.test:9"; hc_tls := hc_tls hc; hc_wt := hc_wt hc; hc_pool := hc_pool hc |}
  | 3 => fun _ => None
  | 4 => fun hc => Some {| hc_addr := hc_addr hc; hc_tls := hc_tls hc; hc_wt := true; hc_pool := hc_pool hc |}
  | _ => conf_id
  end.

Definition out_code (o : outcome) : N :=
  match o with
  | OOk => 0
  | OErr EInvalidHost => 1
  | OErr EUnsupportedScheme => 2
  | OErr ESchemeMismatch => 3
  | OErr EConn => 4
  | OErr ETooManyRedirects => 5
  | OErr ENoClient => 6
  | OErr EOutOfFuel => 7
  | OErr EConfigure => 8
  end.

Definition model_dials (tr : list event) : list (N * bytes * bool) :=
  flat_map (fun e => match e with EDial c a k => [(c, a, kind_tls k)] | _ => [] end) tr.
Definition model_writes (tr : list event) : list (N * N) :=
  flat_map (fun e => match e with EWrite c r => [(c, r_id r)] | _ => [] end) tr.

Definition dial_eqb (a b : N * bytes * bool) : bool :=
  let '(c1, a1, t1) := a in let '(c2, a2, t2) := b in (c1 =? c2) && beq a1 a2 && Bool.eqb t1 t2.
Definition nn_eqb (a b : N * N) : bool := (fst a =? fst b) && (snd a =? snd b).

(* the harness writes maxred = -1 for the Get API, which uses defaultMaxRedirectsCount (translated constant) *)
Definition fix_maxred (c : call) : call :=
  match c with
  | CClient m hops => CClient (if (m <? 0)%Z then defaultMaxRedirectsCount else m) hops
  | CHost i m hops => CHost i (if (m <? 0)%Z then defaultMaxRedirectsCount else m) hops
  | CLB i h => CLB i h
  end.

Definition corr_ok (c : c21case) : bool :=
  match c with
  | C21Hist cwt conf hcs calls dials writes _ outs =>
      let '(_, tr, mo) := run (init_conf cwt (conf_of conf) hcs) (map fix_maxred calls) in
      list_eqb dial_eqb (model_dials tr) dials
      && list_eqb nn_eqb (model_writes tr) (map (fun w => (fst (fst w), snd (fst w))) writes)
      && list_eqb N.eqb (map out_code mo) outs
  | C21Obs _ _ _ _ _ _ => true
  | C21Port addr isTLS impl => beq (AddMissingPort addr isTLS) impl
  end.

(* ---- the property, judged on the observation only ---------------------------------------- *)
Definition call_reqs (c : call) : list req :=
  match c with
  | CClient _ hops => map fst hops
  | CHost _ _ hops => map fst hops
  | CLB _ h => [fst h]
  end.
Definition find_req (rid : N) (calls : list call) : option req :=
  find (fun r => r_id r =? rid) (flat_map call_reqs calls).
Definition find_dial (cid : N) (dials : list (N * bytes * bool)) : option (bytes * bool) :=
  match find (fun d => fst (fst d) =? cid) dials with Some (_, a, t) => Some (a, t) | None => None end.
Definition via_client (r : req) : bool := match r_via r with ViaClient => true | _ => false end.
(* One request object may be sent several times (user-level retry, fan-out to several clients): every send is a call of the history
   carrying the same request id and the scheme/host the caller set last.  [sends rid] are all of them. *)
Definition sends (rid : N) (calls : list call) : list req := filter (fun r => r_id r =? rid) (flat_map call_reqs calls).
Definition all_via_client (rid : N) (calls : list call) : bool := forallb via_client (sends rid calls).
Definition sent_once (rid : N) (calls : list call) : bool := (length (sends rid calls) =? 1)%nat.

(* requests submitted to stand-alone HostClient i (directly or through the LBClient) whose scheme does not match IsTLS *)
Definition mismatching (hcs : list hcfg) (c : call) : list req :=
  let bad i r := match nth_error hcs i with
                 | Some (_, tls, _) => negb (Bool.eqb tls (https_scheme (r_scheme r)))
                 | None => false end in
  match c with
  | CClient _ _ => []
  | CHost i _ hops => filter (bad i) (map fst hops)
  | CLB i h => filter (bad i) [fst h]
  end.

Definition hist_ok (keeps_addr : bool) (hcs : list hcfg) (calls : list call)
           (dials : list (N * bytes * bool)) (writes : list (N * N * bool)) (plain : list (N * N)) : bool :=
      (* every request seen by a server *)
      forallb (fun w => let '(cid, rid, viaTLS) := w in
        match find_req rid calls, find_dial cid dials with
        | Some r, Some (addr, tls) =>
            if https_scheme (r_scheme r)
            then tls && viaTLS && negb (existsb (nn_eqb (cid, rid)) plain)
                 && (if all_via_client rid calls && keeps_addr then beq addr (own_addr (r_host r) true) else true)
            else negb tls && negb viaTLS          (* not on a connection created for https *)
        | _, _ => false                            (* a request nobody submitted, or an unknown connection *)
        end) writes
      (* no https request line in clear text anywhere, whether or not a server parsed it *)
      && forallb (fun p => match find_req (snd p) calls with
                           | Some r => negb (https_scheme (r_scheme r)) | None => false end) plain
      (* HostClient refuses mismatching schemes: such a request reaches no connection *)
      && forallb (fun r => negb (sent_once (r_id r) calls)      (* an object also sent elsewhere legitimately shows up there *)
                           || (negb (existsb (fun w => snd (fst w) =? r_id r) writes)
                               && negb (existsb (fun p => snd p =? r_id r) plain)))
                 (flat_map (mismatching hcs) calls).

(* "to its own host" is judged unless the user's ConfigureClient itself redirected the HostClient to another address (conf 2) *)
Definition prop_ok (c : c21case) : bool :=
  match c with
  | C21Hist _ conf hcs calls dials writes plain _ => hist_ok (negb (conf =? 2)) hcs calls dials writes plain
  | C21Obs keeps hcs calls dials writes plain => hist_ok keeps hcs calls dials writes plain
  | C21Port addr isTLS impl => beq impl (own_addr addr isTLS)
  end.
