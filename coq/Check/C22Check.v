(* Case type and the checks evaluated on harness cases for C22 (transparent compression). *)
From FH Require Import Model.Base Gen.GenC22 Spec.CompressSpec Model.Compress.
Open Scope N_scope.

Inductive c22case :=
(* kind: 0 CompressHandlerLevel, 1 CompressHandlerBrotliLevel, 2 CompressHandler.  chunks: lengths of the handler's body
   (one entry when buffered).  Observed: Content-Encoding, Vary lines, error while producing the body, and whether the
   body decodes (with the real decoders, per the declared Content-Encoding; raw when it is the handler's own) to the
   handler's body.  twice: the handler is wrapped twice; nodefct: Header.SetNoDefaultContentType(true). *)
| CHandler (kind : N) (twice nodefct : bool) (bl ol : Z) (ae : list bytes) (ct pre_ce : bytes) (vary : list bytes) (streamed : bool) (chunks : list Z)
           (o_ce : bytes) (o_vary : list bytes) (o_err o_decoded : bool)
(* k: 0 gzip 1 deflate 2 br 3 zstd; path: 0 Append*BytesLevel, 1 Write*Level to *bytes.Buffer, 2 Write*Level to a generic writer,
   3 Write*Level to *bytebufferpool.ByteBuffer, 4 Append*Bytes (default level), 5 Write* (default level) to *bytes.Buffer *)
| CCodec (k : N) (lvl : Z) (path : N) (dstlen srclen : Z) (o_err o_prefix o_decoded : bool)
(* saturated stackless queues (child process, GOMAXPROCS(1)); scenario: 0 func-full 1 func-stress 2 writer-close-dropped
   3 stream-close-dropped 4 writer-full-at-write; 5.. reuse of pooled readers/writers after an error (n operations after
   the failed one, bad of them wrong) *)
| CSat (scenario : N) (k : N) (lvl : Z) (n bad errors : Z) (full : bool)
| CConst (zstd_notset zstd_default zstd_best : Z)
| CHas (ae t : bytes) (o : bool).

Definition coding_of (k : N) : coding := match k with 0 => Gzip | 1 => Deflate | 2 => Br | _ => Zstd end.
Definition all_codings : list coding := [Gzip; Deflate; Br; Zstd].

(* the codec instance used to run the model: any pair with dec (enc x) = x will do *)
Definition enc0 (k : coding) (lvl : Z) (x : bytes) : bytes := x.
Definition dec0 (k : coding) (x : bytes) : bytes := x.

(* the model needs a body only for its length: above the threshold it uses (minCompressLen) it is capped *)
Definition zeros (l : Z) : bytes := repeat 0 (Z.to_nat (Z.min l 4096)).
Definition cap1 : Z := 2048.

Definition mk_resp (nodefct : bool) (ct pre_ce : bytes) (vary : list bytes) (streamed : bool) (chunks : list Z) : resp :=
  {| r_ce := pre_ce; r_ct := ct; r_nodefct := nodefct; r_vary := vary; r_streamed := streamed; r_chunks := map zeros chunks |}.

Definition kind_of (kind : N) : hkind := match kind with 1 => HBrotli | _ => HLevel end.
Definition other_level (kind : N) (ol : Z) : Z := match kind with 2 => CompressDefaultCompression | _ => ol end.

Definition sres_matches (s : sres) (o_err o_decoded : bool) : bool :=
  match s with
  | SErr => o_err
  | SOk w => negb o_err && Bool.eqb o_decoded (match decode dec0 w with Some _ => true | None => false end)
  end.

Definition corr_ok (c : c22case) : bool :=
  match c with
  | CHandler kind twice nodefct bl ol ae ct pre_ce vary streamed chunks o_ce o_vary o_err o_decoded =>
      let r := mk_resp nodefct ct pre_ce vary streamed chunks in
      let m := if twice then compress_handler_twice enc0 (kind_of kind) bl (other_level kind ol) ae 0 cap1 [] r
               else snd (compress_handler enc0 (kind_of kind) bl (other_level kind ol) ae 0 cap1 [] r) in
      beq (c_ce m) o_ce && list_eqb beq (c_vary m) o_vary && sres_matches (c_body m) o_err o_decoded
  | CCodec k lvl path dstlen srclen o_err o_prefix o_decoded =>
      let kk := coding_of k in
      match path with
      | 2 => sres_matches (write_generic enc0 kk lvl (zeros srclen) false false) o_err o_decoded && o_prefix
      | _ => let out := append_bytes_level enc0 kk (zeros dstlen) (zeros srclen) lvl 0 cap1 in
             negb o_err && Bool.eqb o_prefix (beq (firstn (length (zeros dstlen)) out) (zeros dstlen))
             && Bool.eqb o_decoded (beq (dec0 kk (skipn (length (zeros dstlen)) out)) (zeros srclen))
      end
  | CSat scenario k lvl n bad errors full =>
      let kk := coding_of k in
      match scenario with
      | 0 => (* the queue is full: inflight = cap *)
             full && (errors =? 0)%Z
             && (bad =? (if beq (dec0 kk (append_bytes_level enc0 kk [] (zeros 100) lvl cap1 cap1)) (zeros 100) then 0 else n))%Z
      | 1 => (errors =? 0)%Z && (bad =? 0)%Z
      | 2 => full && sres_matches (write_generic enc0 kk lvl (zeros 100) false true) (0 <? errors)%Z (bad =? 0)%Z
      | 3 => full && sres_matches (stream_compress enc0 kk lvl [zeros 100] [false; false; true]) (0 <? errors)%Z (bad =? 0)%Z
      | 4 => full && sres_matches (write_generic enc0 kk lvl (zeros 100) true false) (0 <? errors)%Z (bad =? 0)%Z
      | _ => (* pools are invisible in the model: what follows a failed operation behaves like a first use *)
             (errors =? 0)%Z && (bad =? 0)%Z
      end
  | CConst a b c' => (a =? CompressZstdSpeedNotSet)%Z && (b =? CompressZstdDefault)%Z && (c' =? CompressZstdBestCompression)%Z
  | CHas ae t o => Bool.eqb (has_accept_encoding ae t) o
  end.

Definition is_nil {A} (l : list A) : bool := match l with [] => true | _ => false end.

(* the property, judged on the implementation's observable.  "An encoding the request accepts" is judged for
   syntactically valid Accept-Encoding fields only (RFC 9110 does not say what an element like "foo gzip" accepts). *)
Definition prop_ok (c : c22case) : bool :=
  match c with
  | CHandler kind twice nodefct bl ol ae ct pre_ce vary streamed chunks o_ce o_vary o_err o_decoded =>
      negb o_err && o_decoded
      && (if is_nil pre_ce
          then (* compressed iff a Content-Encoding appeared: it must be a coding the request accepts, with Vary *)
            is_nil o_ce
            || (existsb (fun k => beq (coding_name k) o_ce && (accepts_lines ae (coding_name k) || negb (lines_wf ae))) all_codings
                && vary_has o_vary sAcceptEncoding)
          else (* never compressed twice: the handler's own Content-Encoding and (o_decoded) its body are left alone *)
            beq o_ce pre_ce)
  | CCodec k lvl path dstlen srclen o_err o_prefix o_decoded =>
      negb o_err && o_prefix && o_decoded
      && (0 <=? pool_index (coding_of k) lvl)%Z && (pool_index (coding_of k) lvl <? pool_map_len)%Z
  | CSat scenario k lvl n bad errors full => (bad =? 0)%Z     (* a reported error is a failure of the call, not a wrong result *)
  | CConst _ _ _ => true
  | CHas ae t o => implb (o && ae_wf ae) (accepts ae t)
  end.
