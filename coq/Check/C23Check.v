(* Case type and the two checks evaluated on harness cases for C23. *)
From FH Require Import Model.Base Gen.GenC26 Gen.GenC23 Model.PathNorm Model.FsPath Spec.Rfc3986 Spec.Clean.
Open Scope N_scope.

(* One request against one FS handler.
   Observables: what the PathRewrite function returned (None when there is no rewriter), the response status
   (-1 = the handler panicked), the names passed to the instrumented fs.FS in order (fs.FS mode), and for the
   default filesystem the absolute (clean) name of the file whose bytes were served, or of the directory whose
   generated index page was served (every file carries its own name as first line, every directory holds a
   marker file that names it).  The default filesystem cannot be instrumented (osFS is a private type), so
   the harness also publishes the sandbox tree (`files`, `dirs`: absolute clean names, shard-level constants)
   and the model must predict WHICH file or listing is served, not only a superset of names. *)
Inductive c23case :=
| CFs (cfg : fscfg) (genIndex : bool) (sfx : option bytes) (reqPath host : bytes)
      (rewritten : option bytes) (status : Z) (opened : list bytes) (served : option bytes).

Definition obeq := option_eqb beq.
Definition mem (x : bytes) (l : list bytes) : bool := existsb (beq x) l.

(* default filesystem: what handleRequest serves for filePath, given the tree (names without ".." segments resolve
   to their lexically clean form): the file itself; for a directory requested with a trailing slash the first
   existing index file, else the generated listing when GenerateIndexPages; nothing otherwise (302/403/404) *)
Definition expected_served (files dirs : list bytes) (cfg : fscfg) (genIndex : bool)
           (filePath : bytes) (ts : bool) : option bytes :=
  let f := lex_clean filePath in
  if mem f files then Some f
  else if ts && mem f dirs then
    match find (fun n => mem (lex_clean (indexFilePath filePath n)) files) (indexNames cfg) with
    | Some n => Some (lex_clean (indexFilePath filePath n))
    | None => if genIndex then Some f else None
    end
  else None.

Definition corr_ok (files dirs : list bytes) (c : c23case) : bool :=
  match c with
  | CFs cfg genIndex sfx reqPath host rewritten status opened served =>
      let names := map snd (candidate_names cfg reqPath host sfx) in
      (* the rewriter *)
      (match rw cfg, rewrite (rw cfg) (ctxPath reqPath) host with
       | RNone, _ => obeq rewritten None
       | _, RwOk p => obeq rewritten (Some p)
       | _, RwPanic => true
       end) &&
      match handle cfg reqPath host with
      | Panicked => (status =? -1)%Z
      | Reject400 => (status =? 400)%Z && beq (concat opened) [] && obeq served None
      | Reject500 => (status =? 500)%Z && beq (concat opened) [] && obeq served None
      | Serve path filePath ts =>
          negb (status =? -1)%Z && negb (status =? 400)%Z && negb (status =? 500)%Z &&
          (if osfs cfg
           then match served with Some f => mem f (map lex_clean names) | None => true end
                && obeq served (expected_served files dirs cfg genIndex filePath ts)
           else match opened with
                | first :: _ => beq first (match (if trimmedNonEmpty path then sfx else None) with
                                           | Some s => filePath ++ s | None => filePath end)
                                && forallb (fun n => mem n names) opened
                | [] => false
                end)
      end
  end.

Definition has_nul (p : bytes) : bool := existsb (N.eqb 0) p.
Definition rejected (status : Z) (opened : list bytes) (served : option bytes) : bool :=
  (400 <=? status)%Z && match opened with [] => true | _ => false end && obeq served None.

(* the property, judged on the observables only.  `inside` is Root itself or Root ++ "/" ++ rel (Spec/Clean.v):
   a sibling such as Root ++ "-private/secret.txt" or Root ++ ".bak/f" has Root as a string prefix but is outside *)
Definition prop_ok (c : c23case) : bool :=
  match c with
  | CFs cfg genIndex sfx reqPath host rewritten status opened served =>
      (* the path the handler works on: the rewriter's result, or the RFC-normalised request path *)
      let path := match rewritten with Some p => p | None => spec_path reqPath end in
      negb (status =? -1)%Z &&
      (if has_nul path then rejected status opened served else true) &&
      (if match rewritten with Some p => existsb is_dotdot (split_segs p) | None => false end
       then rejected status opened served else true) &&
      (if osfs cfg
       then match served with Some f => insideb (root cfg) f || insideb (compressRoot cfg) f | None => true end
       else forallb inside_fsb opened)
  end.
