(* Case type and the two checks evaluated on harness cases for C24 (FS byte ranges and validators). *)
From FH Require Import Model.Base Gen.GenC30 Gen.GenC24 Model.Ints Model.DateIP Spec.HttpDate Model.ByteRange Model.FsResp
  Spec.IntsSpec Spec.FsRangeSpec.
Open Scope Z_scope.

(* ---- the test files: byte j of every file is content_byte j (adjacent bytes always differ, lower-case letters:
        compressible, and no slice equals its neighbour shifted by one) ---- *)
Definition content_byte (j : Z) : N := Z.to_N (97 + (j * 7 + (j / 13) * 5 + (j / 251) * 3) mod 26).
(* the same bytes produced incrementally (no division per byte): x = the letter index of byte j,
   k13 = j mod 13, k251 = j mod 251 *)
Definition wrap26 (x : N) : N := if (x <? 26)%N then x else (x - 26)%N.
Fixpoint content_run (fuel : nat) (x k13 k251 : N) : bytes :=
  match fuel with
  | O => []
  | S f =>
      let x1 := wrap26 (x + 7)%N in
      let '(x2, k13') := if (k13 =? 12)%N then (wrap26 (x1 + 5)%N, 0%N) else (x1, (k13 + 1)%N) in
      let '(x3, k251') := if (k251 =? 250)%N then (wrap26 (x2 + 3)%N, 0%N) else (x2, (k251 + 1)%N) in
      (97 + x)%N :: content_run f x3 k13' k251'
  end.
Definition slice_gen (start len : Z) : bytes :=
  content_run (Z.to_nat len) (Z.to_N ((start * 7 + (start / 13) * 5 + (start / 251) * 3) mod 26))
              (Z.to_N (start mod 13)) (Z.to_N (start mod 251)).
(* the largest test file, computed once when this file is compiled; slices of it are taken by position *)
Definition bigfile : bytes := Eval vm_compute in slice_gen 0 8193.
Definition slice (start len : Z) : bytes :=
  if (0 <=? start) && (0 <=? len) && (start + len <=? 8193)
  then firstn (Z.to_nat len) (skipn (Z.to_nat start) bigfile)
  else slice_gen start len.

(* big bodies travel as (length, Adler-32, first 16 bytes, last 16 bytes) *)
(* Adler-32: position-sensitive, no division *)
Definition adl (x : N) : N := if (x <? 65521)%N then x else (x - 65521)%N.
Definition hash_bytes (b : bytes) : N :=
  let '(a, c) := fold_left (fun ac x => let a := adl (fst ac + x)%N in (a, adl (snd ac + a)%N)) b (1%N, 0%N) in
  (c * 65536 + a)%N.
Inductive bodyrep := BRaw (b : bytes) | BSum (len : Z) (hash : N) (head tail : bytes).
Definition lastn (n : nat) (b : bytes) : bytes := skipn (length b - n) b.
Definition body_is (rep : bodyrep) (expected : bytes) : bool :=
  match rep with
  | BRaw b => beq b expected
  | BSum len h hd tl =>
      (len =? Z.of_nat (length expected)) && (h =? hash_bytes expected)%N
      && beq hd (firstn 16 expected) && beq tl (lastn 16 expected)
  end.
Definition body_len (rep : bodyrep) : Z := match rep with BRaw b => Z.of_nat (length b) | BSum len _ _ _ => len end.

(* one response, serialised by Response.Write and read back by Response.Read *)
Record fsobs := FsObs {
  ob_status : Z;
  ob_cr : bytes;                 (* Content-Range *)
  ob_cl : Z;                     (* Content-Length header, -1 = absent *)
  ob_ce : bytes;                 (* Content-Encoding *)
  ob_lm : bytes;                 (* Last-Modified *)
  ob_ar : bytes;                 (* Accept-Ranges *)
  ob_ct : bytes;                 (* Content-Type *)
  ob_vary : bytes;               (* Vary *)
  ob_body : bodyrep;             (* body bytes on the wire *)
  ob_decoded : option bodyrep    (* the body decoded with the real gzip / brotli / zstd decoder when Content-Encoding names
                                    one of them and the body is not empty *)
}.

Inductive c24case :=
| CRange (r : bytes) (n : Z) (impl : option (Z * Z))
(* OS filesystem, Compress on, "Accept-Encoding: gzip", no Range; before the request a file <name>.fasthttp.gz holding
   the gzip of the test content of size+1 bytes (NOT of the file) exists with modification time mtime+delta *)
| CSibling (size mtime now delta : Z) (ims : bytes) (get head : fsobs)
| CFs (osfs : bool) (size mtime now : Z) (ranges compress brotli zstd : bool) (range ims ae : bytes) (get head : fsobs).

(* ---------------- correspondence ---------------- *)
Definition br_opt (r : brres) : option (Z * Z) := match r with BROk s e => Some (s, e) | BRErr => None end.
Definition ozz_eqb : option (Z * Z) -> option (Z * Z) -> bool := option_eqb (pair_eqb Z.eqb Z.eqb).

Definition is_coded (o : fsobs) : bool := negb (beq (ob_ce o) []).

Definition obs_matches (m : fsout) (o : fsobs) : bool :=
  (fo_status m =? ob_status o)
  && beq (fo_contentRange m) (ob_cr o)
  && ((fo_contentLength m <? 0) || (fo_contentLength m =? ob_cl o))
  && beq (fo_coding m) (ob_ce o)
  && beq (fo_lastModified m) (ob_lm o)
  && Bool.eqb (fo_acceptRanges m) (beq (ob_ar o) strBytes)
  && match fo_body m with
     | BNone => (body_len (ob_body o) =? 0)
     | BError => negb (body_len (ob_body o) =? 0)
     | BSlice s n =>
         if negb (beq (fo_coding m) []) then
           (* the served variant is the compressed one: its decoding is the whole file *)
           (body_len (ob_body o) =? n)
           && match ob_decoded o with Some d => true | None => false end
         else body_is (ob_body o) (slice s n)
     end.

Definition corr_ok (c : c24case) : bool :=
  match c with
  | CRange r n impl => ozz_eqb (br_opt (ParseByteRange r n)) impl
  | CSibling size mtime now delta ims g h =>
      (* the model: the sibling is kept unless the original is at least a second newer *)
      let lmt := compressedVariantMtime now mtime (Some (mtime + delta)) in
      let kept := negb (siblingStale mtime (mtime + delta)) in
      let one (o : fsobs) (isHead : bool) :=
        if negb (IfModifiedSince ims lmt) then (ob_status o =? 304)
        else (ob_status o =? 200) && beq (ob_lm o) (spec_format_http_date lmt)
             && (if kept then beq (ob_ce o) strGzip      (* the sibling itself *)
                 else true)                              (* re-created: gzip, or identity when the file is not compressible *)
             && (isHead ||
                 if beq (ob_ce o) [] then body_is (ob_body o) (slice 0 size)
                 else match ob_decoded o with
                      | Some d => body_is d (slice 0 (if kept then size + 1 else size))
                      | None => false
                      end) in
      one g false && one h true
  | CFs _ size mtime now ranges compress brotli zstd range ims ae g h =>
      (* the codec variable: did openFSFile produce a compressed variant, and how long is it *)
      let compressible := is_coded g || is_coded h in
      let zlen := if is_coded g then ob_cl g else ob_cl h in
      obs_matches (fs_handle size mtime now ranges compress brotli zstd false range ims ae compressible zlen) g
      && obs_matches (fs_handle size mtime now ranges compress brotli zstd true range ims ae compressible zlen) h
  end.

(* ---------------- the property ---------------- *)
Definition range_inv (n : Z) (impl : option (Z * Z)) : bool :=
  match impl with Some (s, e) => (0 <=? s) && (s <=? e) && (e <? n) | None => true end.

Definition full (size : Z) : bytes := slice 0 size.

(* a content coding may only be used when compression is on, that coding is enabled and the client offered it *)
Definition coding_allowed (compress brotli zstd : bool) (ae ce : bytes) : bool :=
  compress
  && ((beq ce strGzip) || (beq ce strBr && brotli) || (beq ce strZstd && zstd))
  && match index_sub ae ce with Some _ => true | None => false end.

(* the GET response against the expected outcome.  The validator is the ORIGINAL file's modification time (to the
   second) whatever representation is served: Last-Modified of every 200 / 206 must be that date. *)
Definition get_ok (size mtime : Z) (compress brotli zstd : bool) (ae : bytes) (e : expect) (o : fsobs) : bool :=
  let lm_ok := beq (ob_lm o) (spec_format_http_date mtime) in
  let ok200 := fun _ : unit =>
    (ob_status o =? 200) && beq (ob_cr o) [] && lm_ok
    && (if beq (ob_ce o) [] then body_is (ob_body o) (full size) && (ob_cl o =? size)
        else (* content-coded: only an allowed coding, and it decodes to the file *)
          coding_allowed compress brotli zstd ae (ob_ce o)
          && (ob_cl o =? body_len (ob_body o))
          && match ob_decoded o with Some d => body_is d (full size) | None => false end) in
  match e with
  | E304 => (ob_status o =? 304) && (body_len (ob_body o) =? 0)
  | E206 s e' =>
      (ob_status o =? 206) && beq (ob_cr o) (content_range s e' size) && (ob_cl o =? e' - s + 1)
      && beq (ob_ce o) [] && body_is (ob_body o) (slice s (e' - s + 1)) && lm_ok
  | E416 => (ob_status o =? 416)
  | E416or200 => (ob_status o =? 416) || ok200 tt
  | E200 => ok200 tt
  end.

(* HEAD carries the same headers as GET and no body *)
Definition head_ok (g h : fsobs) : bool :=
  (ob_status g =? ob_status h) && beq (ob_cr g) (ob_cr h) && (ob_cl g =? ob_cl h) && beq (ob_ce g) (ob_ce h)
  && beq (ob_lm g) (ob_lm h) && beq (ob_ar g) (ob_ar h) && beq (ob_ct g) (ob_ct h) && beq (ob_vary g) (ob_vary h)
  && (body_len (ob_body h) =? 0).

Definition prop_ok (c : c24case) : bool :=
  match c with
  | CRange r n impl =>
      range_inv n impl
      && ozz_eqb impl (match spec_range r n with RSat s e => Some (s, e) | _ => None end)
  | CSibling size mtime _ _ ims g h =>
      (* whatever lies next to the file: the response is about THE FILE *)
      head_ok g h && get_ok size mtime true false false strGzip (spec_fs size mtime [] ims) g
  | CFs _ size mtime _ ranges compress brotli zstd range ims ae g h =>
      head_ok g h
      && (if ranges then get_ok size mtime compress brotli zstd ae (spec_fs size mtime range ims) g
          else (* byte ranges disabled: the Range header is ignored *)
            get_ok size mtime compress brotli zstd ae (spec_fs size mtime [] ims) g)
  end.
