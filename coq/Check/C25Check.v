(* Case type and the two checks evaluated on harness cases for C25 (FS file handles). *)
From FH Require Import Model.Base Gen.GenC25 Model.FsCache.

(* what the harness reads after each block: the cache manager under its lock (through the export) and the
   close counters of the instrumented fs.FS *)
Record obs := mkObs {
  o_cache : list (nat * nat * nat);      (* (key, file, readersCount), sorted by key *)
  o_pending : list (nat * nat);          (* (file, readersCount), sorted by file *)
  o_closed : bool;
  o_fclosed : list nat;                  (* Close calls on ff.f, per file in Open order *)
  o_bclosed : list nat                   (* Close calls per reader handle in Open order *)
}.
Inductive block := Blk (ls : list label) (o : obs).

(* per handle of the instrumented fs.FS at the end of the run: Close calls, reads after Close, and for main handles
   the number of response bodies still open on the file at the moment of the first Close *)
Record hstat := mkHS { hs_closes : nat; hs_badreads : nat; hs_active_at_close : nat }.

Inductive c25case :=
| CReplay (cf : cfg) (noop : bool) (blocks : list block) (handles : list hstat)
| CHist (handles : list hstat) (readerrs : nat) (openfds : nat).     (* concurrent / os-file runs: property oracle only *)

Definition nat3_eqb (a b : nat * nat * nat) : bool :=
  Nat.eqb (fst (fst a)) (fst (fst b)) && Nat.eqb (snd (fst a)) (snd (fst b)) && Nat.eqb (snd a) (snd b).
Definition nat2_eqb (a b : nat * nat) : bool := Nat.eqb (fst a) (fst b) && Nat.eqb (snd a) (snd b).

(* insertion sort on the first component (keys / file ids are unique) *)
Fixpoint ins3 (x : nat * nat * nat) (l : list (nat * nat * nat)) :=
  match l with [] => [x] | y :: r => if Nat.leb (fst (fst x)) (fst (fst y)) then x :: l else y :: ins3 x r end.
Fixpoint ins2 (x : nat * nat) (l : list (nat * nat)) :=
  match l with [] => [x] | y :: r => if Nat.leb (fst x) (fst y) then x :: l else y :: ins2 x r end.

Definition m_cache (s : st) := fold_right ins3 [] (map (fun e => (fst e, snd e, rc s (snd e))) (cache s)).
Definition m_pending (s : st) := fold_right ins2 [] (map (fun f => (f, rc s f)) (pending s)).

Definition obs_ok (s : st) (o : obs) : bool :=
  list_eqb nat3_eqb (m_cache s) (o_cache o)
  && list_eqb nat2_eqb (m_pending s) (o_pending o)
  && Bool.eqb (closed s) (o_closed o)
  && list_eqb Nat.eqb (map (fun f => if is_virtual s f then O else released s f) (seq 0 (nextf s))) (o_fclosed o)  (* no handle: reported as 0 *)
  && list_eqb Nat.eqb (map (bclosed s) (seq 0 (nextb s))) (o_bclosed o).

(* Release of an fsFile without a handle closes nothing, so the harness cannot see it: after each block the
   model performs the Release steps that are pending for such files. *)
Fixpoint flush_virtual (cf : cfg) (s : st) (l : list fid) : st :=
  match l with
  | [] => s
  | f :: r =>
      if is_virtual s f then
        match step cf s (Release f) with Some s' => flush_virtual cf s' r | None => flush_virtual cf s r end
      else flush_virtual cf s r
  end.

Fixpoint replay (cf : cfg) (s : st) (bs : list block) : option st :=
  match bs with
  | [] => Some s
  | Blk ls o :: r =>
      match run cf s ls with
      | Some s1 => let s' := flush_virtual cf s1 (relq s1) in
                   if obs_ok s' o then replay cf s' r else None
      | None => None
      end
  end.

Definition corr_ok (c : c25case) : bool :=
  match c with
  | CReplay cf noop bs _ =>
      match replay cf (if noop then init_noop else init) bs with
      | Some s => settled s && Nat.eqb (badreads s) 0
      | None => false
      end
  | CHist _ _ _ => true
  end.

(* the property on what the instrumented file system saw: every opened handle closed exactly once by the end,
   never read after Close, never closed while a response was still reading the file *)
Definition hstat_ok (h : hstat) : bool :=
  Nat.eqb (hs_closes h) 1 && Nat.eqb (hs_badreads h) 0 && Nat.eqb (hs_active_at_close h) 0.

Definition prop_ok (c : c25case) : bool :=
  match c with
  | CReplay _ _ _ hs => forallb hstat_ok hs
  | CHist hs readerrs openfds => forallb hstat_ok hs && Nat.eqb readerrs 0 && Nat.eqb openfds 0
  end.
