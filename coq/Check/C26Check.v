(* Case type and the two checks evaluated on harness cases for C26. *)
From FH Require Import Model.Base Gen.GenC26 Model.PathNorm Spec.Rfc3986.
Open Scope N_scope.

Inductive c26case :=
| CSetPath (src : bytes) (impl : bytes)     (* u.SetPathBytes(src); impl = u.Path() *)
| CParse (uri : bytes) (impl : bytes)       (* u.Parse(host, uri) / ctx.Request.SetRequestURI(uri) / a request read from the wire;
                                               impl = Path() (uri without CTL bytes and without "://", host non-empty) *)
| CUpdate (basePath newURI impl : bytes).   (* u.Update(newURI) on a URI whose Path() was basePath (no '%' in basePath; newURI
                                               without ':' and not starting with "//"); impl = Path() afterwards *)

(* func (u *URI) Path(): `if len(path) == 0 { path = strSlash }` *)
Definition uriPath (path : bytes) : bytes := match path with [] => strSlash | _ => path end.

(* the path/query/fragment split of URI.parse: which prefix of uri becomes pathOriginal *)
Definition parsePathOriginal (uri : bytes) : bytes :=
  let queryIndex := indexByte uri QM in
  let fragmentIndex := indexByte uri HASH in
  let queryIndex := match fragmentIndex, queryIndex with
                    | Some f, Some q => if Nat.ltb f q then None else Some q   (* ignore query in fragment part *)
                    | _, _ => queryIndex
                    end in
  match queryIndex, fragmentIndex with
  | None, None => uri
  | Some q, _ => firstn q uri
  | None, Some f => firstn f uri
  end.

(* spec side: the path of a request target ends at the first '?' or '#' *)
Fixpoint path_part (uri : bytes) : bytes :=
  match uri with
  | [] => []
  | c :: r => if (c =? QM) || (c =? HASH) then [] else c :: path_part r
  end.

(* func (u *URI) updateBytes: which string ends up as pathOriginal (the URI is re-parsed from
   scheme://host + quoted(dir) + newURI; quoting is undone by the decoding step, dir has no '%') *)
Definition updatePathOriginal (basePath newURI : bytes) : option bytes :=
  match newURI with
  | [] => None                                                        (* len(newURI) == 0: nothing happens *)
  | c :: _ =>
      if c =? SLASH then Some (parsePathOriginal newURI)              (* uri without host *)
      else if (c =? QM) || (c =? HASH) then None                      (* query / hash only *)
      else match lastIndexByte basePath SLASH with                    (* relative path: replace the last path part *)
           | Some n => Some (firstn (n + 1) basePath ++ parsePathOriginal newURI)
           | None => None
           end
  end.

(* spec side of a relative reference: RFC 3986 5.2.3 merge (base directory ++ reference path), then 5.2.4 *)
Fixpoint base_dir (p : bytes) : bytes :=          (* up to and including the last '/' *)
  match p with
  | [] => []
  | c :: r => if existsb (N.eqb SLASH) r then c :: base_dir r else if c =? SLASH then [c] else []
  end.

Definition corr_ok (c : c26case) : bool :=
  match c with
  | CSetPath src impl => beq (uriPath (normalizePath src)) impl
  | CParse uri impl => beq (uriPath (normalizePath (parsePathOriginal uri))) impl
  | CUpdate basePath newURI impl =>
      match updatePathOriginal basePath newURI with
      | Some po => beq (uriPath (normalizePath po)) impl
      | None => beq basePath impl
      end
  end.

(* the property, judged on what the implementation returned *)
Definition prop_ok (c : c26case) : bool :=
  match c with
  | CSetPath src impl => beq impl (spec_path src) && shape_okb impl
  | CParse uri impl => beq impl (spec_path (path_part uri)) && shape_okb impl
  | CUpdate basePath newURI impl =>
      shape_okb impl &&
      match newURI with
      | [] => beq impl basePath
      | c :: _ =>
          if c =? SLASH then beq impl (spec_path (path_part newURI))
          else if (c =? QM) || (c =? HASH) then beq impl basePath
          else beq impl (spec_path (base_dir basePath ++ path_part newURI))
      end
  end.
