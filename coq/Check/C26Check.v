(* Case type and the two checks evaluated on harness cases for C26. *)
From FH Require Import Model.Base Gen.GenC26 Model.PathNorm Spec.Rfc3986.
Open Scope N_scope.

Inductive c26case :=
| CSetPath (src : bytes) (impl : bytes)     (* u.SetPathBytes(src); impl = u.Path() *)
| CParse (uri : bytes) (impl : bytes).      (* u.Parse(host, uri) / ctx.Request.SetRequestURI(uri); impl = Path()
                                               (uri without CTL bytes and without "://", host non-empty) *)

(* func (u *URI) Path(): `if len(path) == 0 { path = strSlash }` *)
Definition uriPath (path : bytes) : bytes := match path with [] => strSlash | _ => path end.

(* the path/query/fragment split of URI.parse: which prefix of uri becomes pathOriginal *)
Definition parsePathOriginal (uri : bytes) : bytes :=
  let queryIndex := indexByte uri QM in
  let fragmentIndex := indexByte uri HASH in
  let queryIndex := match fragmentIndex, queryIndex with
                    | Some f, Some q => if Nat.ltb f q then None else Some q   (* ignore query in fragment part *)
                    | _, _ => queryIndex
                    end in
  match queryIndex, fragmentIndex with
  | None, None => uri
  | Some q, _ => firstn q uri
  | None, Some f => firstn f uri
  end.

(* spec side: the path of a request target ends at the first '?' or '#' *)
Fixpoint path_part (uri : bytes) : bytes :=
  match uri with
  | [] => []
  | c :: r => if (c =? QM) || (c =? HASH) then [] else c :: path_part r
  end.

Definition corr_ok (c : c26case) : bool :=
  match c with
  | CSetPath src impl => beq (uriPath (normalizePath src)) impl
  | CParse uri impl => beq (uriPath (normalizePath (parsePathOriginal uri))) impl
  end.

(* the property, judged on what the implementation returned *)
Definition prop_ok (c : c26case) : bool :=
  match c with
  | CSetPath src impl => beq impl (spec_path src) && shape_okb impl
  | CParse uri impl => beq impl (spec_path (path_part uri)) && shape_okb impl
  end.
