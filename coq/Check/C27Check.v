(* Case type and the two checks evaluated on harness cases for C27. *)
From FH Require Import Model.Base Gen.GenC27 Model.IPv6 Model.PathNorm Model.Uri Spec.NetUrl.
Open Scope N_scope.

(* what the getters of a URI return after Parse: ok?, Scheme() Host() Path() QueryString() Hash() *)
Inductive obs := Obs (ok : bool) (scheme host path qs hash : bytes).

Inductive c27case :=
| CUri (hostArg uri : bytes)
       (p : obs) (user pw : bytes)      (* u.Parse(hostArg, uri), Username(), Password() *)
       (full req : bytes)               (* u.FullURI(), u.RequestURI()  (QueryArgs() not called yet) *)
       (pf : obs)                       (* Parse(nil, full) *)
       (pr : obs)                       (* Parse(u.Host(), req) *)
       (args : list (bytes * bytes))    (* u.QueryArgs() as (key, value) list — from here on parsedQueryArgs = true *)
       (fullA : bytes)                  (* u.FullURI() again: now serialised from the args *)
       (pfa : obs) (argsA : list (bytes * bytes))   (* Parse(nil, fullA) and its QueryArgs() *)
       (pra : obs) (argsR : list (bytes * bytes))   (* Parse(u.Host(), u.RequestURI()) after QueryArgs(), and its QueryArgs() *)
       (nu_ok : bool) (nu_scheme nu_host nu_query : bytes)   (* net/url.Parse(uri): accepted?, Scheme, Host, RawQuery *)
(* the implementation panicked: stage 0 = in Parse(hostArg, uri) itself, 1 = later (serialising or re-parsing what it had accepted) *)
| CPanic (hostArg uri : bytes) (stage : N).

Definition obs_of (r : ures URI) : obs :=
  match r with
  | UOk u => Obs true (Scheme u) (Host u) (Path u) (QueryString u) (Hash u)
  | UErr _ => Obs false [] [] [] [] []
  end.
Definition obs_eqb (a b : obs) : bool :=
  match a, b with
  | Obs ok1 s1 h1 p1 q1 f1, Obs ok2 s2 h2 p2 q2 f2 =>
      Bool.eqb ok1 ok2 && (negb ok1 || (beq s1 s2 && beq h1 h2 && beq p1 p2 && beq q1 q2 && beq f1 f2))
  end.
Definition obs_ok (a : obs) : bool := match a with Obs ok _ _ _ _ _ => ok end.
Definition obs_host (a : obs) : bytes := match a with Obs _ _ h _ _ _ => h end.
Definition obs_scheme (a : obs) : bytes := match a with Obs _ s _ _ _ _ => s end.
Definition obs_path (a : obs) : bytes := match a with Obs _ _ _ p _ _ => p end.
Definition obs_qs (a : obs) : bytes := match a with Obs _ _ _ _ q _ => q end.
Definition obs_hash (a : obs) : bytes := match a with Obs _ _ _ _ _ f => f end.

Definition corr_ok (c : c27case) : bool :=
  match c with
  | CUri hostArg uri p user pw full req pf pr _ _ _ _ _ _ _ _ _ _ =>
      match parse hostArg uri with
      | UErr _ => negb (obs_ok p)
      | UOk u =>
          obs_eqb (obs_of (UOk u)) p && beq (u_username u) user && beq (u_password u) pw
          && beq (FullURI u) full && beq (RequestURI u) req
          && obs_eqb (obs_of (parse [] full)) pf
          && obs_eqb (obs_of (parse (Host u) req)) pr
      end
  | CPanic _ _ _ => false            (* the model never panics *)
  end.

Definition has_byte (c : N) (s : bytes) : bool := existsb (N.eqb c) s.
(* an absolute URI: there is a "//" introducing an authority (scheme optional, fasthttp assumes http) *)
Definition is_absolute (uri : bytes) : bool :=
  match index uri uStrSlashSlash with
  | Some n => negb (has_byte SLASH (firstn n uri))
  | None => false
  end.
Definition args_eqb := list_eqb (pair_eqb beq beq).
Definition lower_ascii (c : N) : N := if (65 <=? c) && (c <=? 90) then c + 32 else c.
Definition is_http (s : bytes) : bool := beq s (s2b "http") || beq s (s2b "https").

Definition prop_ok (c : c27case) : bool :=
  match c with
  | CUri hostArg uri p user pw full req pf pr args fullA pfa argsA pra argsR nu_ok nu_scheme nu_host nu_query =>
      (* round trip: absolute URI, parsed successfully, host without a literal '%' *)
      (if obs_ok p && (match hostArg with [] => true | _ => false end) && is_absolute uri && negb (has_byte PCT (obs_host p))
       then (* FullURI() parses again to the same scheme, host, path, query string (QueryArgs unused), fragment *)
            obs_eqb pf p
            (* RequestURI() against the same host: same path and query string *)
            && obs_ok pr && beq (obs_path pr) (obs_path p) && beq (obs_qs pr) (obs_qs p)
            (* with QueryArgs() used: same scheme, host, path, query ARGUMENTS, fragment *)
            && obs_ok pfa && beq (obs_scheme pfa) (obs_scheme p) && beq (obs_host pfa) (obs_host p) && beq (obs_path pfa) (obs_path p)
            && beq (obs_hash pfa) (obs_hash p) && args_eqb argsA args
            && obs_ok pra && beq (obs_path pra) (obs_path p) && args_eqb argsR args
       else true)
      &&
      (* agreement with net/url on http/https URIs that both accept *)
      (if obs_ok p && nu_ok && (match hostArg with [] => true | _ => false end) && is_http nu_scheme && is_http (obs_scheme p)
       then beq (obs_host p) (map lower_ascii nu_host) && beq (obs_qs p) nu_query
       else true)
      &&
      (* validation of Spec/NetUrl.v against the real net/url.Parse (a failure here is a bug of the specification) *)
      (match nu_parse uri with
       | None => negb nu_ok
       | Some (s, h, q) => nu_ok && beq s nu_scheme && beq h nu_host && beq q nu_query
       end)
  | CPanic _ _ stage => stage =? 0   (* a panic while serialising / re-parsing an accepted URI is a failed round trip *)
  end.
