(* Case type and the two checks evaluated on harness cases for C27. *)
From FH Require Import Model.Base Gen.GenC27 Model.IPv6 Model.PathNorm Model.Uri Model.UriOps Spec.NetUrl.
From FH Require Model.Args.
Open Scope N_scope.

(* what the getters of a URI return after Parse: ok?, Scheme() Host() Path() QueryString() Hash() *)
Inductive obs := Obs (ok : bool) (scheme host path qs hash : bytes).

(* every getter of a URI object plus both serialisations *)
Inductive snap := Snap (scheme host path pathOriginal qs hash user pw full req : bytes).

Inductive c27case :=
(* Parse(hostArg, uri) into a (fresh or dirty re-used) object, then the operations one by one; a snapshot after Parse and after
   every operation (none at all when Parse failed); finally Parse(nil, FullURI()) of the last state, and QueryArgs() of both *)
| CEdit (hostArg uri : bytes) (ops : list uop) (snaps : list snap) (pf : obs) (argsU argsF : list (bytes * bytes))
| CUri (hostArg uri : bytes)
       (p : obs) (user pw : bytes)      (* u.Parse(hostArg, uri), Username(), Password() *)
       (full req : bytes)               (* u.FullURI(), u.RequestURI()  (QueryArgs() not called yet) *)
       (stable : bool)                  (* FullURI(), RequestURI(), FullURI(), RequestURI() again gave the same bytes each time *)
       (reqRaw fullRaw : bytes)         (* RequestURI(), FullURI() with DisablePathNormalizing = true (switched off again afterwards) *)
       (pf : obs)                       (* Parse(nil, full) *)
       (pr : obs)                       (* Parse(u.Host(), req) *)
       (args : list (bytes * bytes))    (* u.QueryArgs() as (key, value) list — from here on parsedQueryArgs = true *)
       (fullA : bytes)                  (* u.FullURI() again: now serialised from the args *)
       (pfa : obs) (argsA : list (bytes * bytes))   (* Parse(nil, fullA) and its QueryArgs() *)
       (pra : obs) (argsR : list (bytes * bytes))   (* Parse(u.Host(), u.RequestURI()) after QueryArgs(), and its QueryArgs() *)
       (nu_ok : bool) (nu_scheme nu_host nu_query : bytes)   (* net/url.Parse(uri): accepted?, Scheme, Host, RawQuery *)
(* the implementation panicked: stage 0 = in Parse(hostArg, uri) itself, 1 = later (serialising or re-parsing what it had accepted) *)
| CPanic (hostArg uri : bytes) (stage : N).

Definition obs_of (r : ures URI) : obs :=
  match r with
  | UOk u => Obs true (Scheme u) (Host u) (Path u) (QueryString u) (Hash u)
  | UErr _ => Obs false [] [] [] [] []
  end.
Definition obs_eqb (a b : obs) : bool :=
  match a, b with
  | Obs ok1 s1 h1 p1 q1 f1, Obs ok2 s2 h2 p2 q2 f2 =>
      Bool.eqb ok1 ok2 && (negb ok1 || (beq s1 s2 && beq h1 h2 && beq p1 p2 && beq q1 q2 && beq f1 f2))
  end.
Definition obs_ok (a : obs) : bool := match a with Obs ok _ _ _ _ _ => ok end.
Definition obs_host (a : obs) : bytes := match a with Obs _ _ h _ _ _ => h end.
Definition obs_scheme (a : obs) : bytes := match a with Obs _ s _ _ _ _ => s end.
Definition obs_path (a : obs) : bytes := match a with Obs _ _ _ p _ _ => p end.
Definition obs_qs (a : obs) : bytes := match a with Obs _ _ _ _ q _ => q end.
Definition obs_hash (a : obs) : bytes := match a with Obs _ _ _ _ _ f => f end.

Definition args_eqb := list_eqb (pair_eqb beq beq).
Definition args_of_parse (r : ures URI) (l : list (bytes * bytes)) : bool :=
  match r with
  | UOk u => match Args.ParseBytes Args.emptyArgs (u_queryString u) with Some a => args_eqb (Args.All a) l | None => false end
  | UErr _ => match l with [] => true | _ => false end
  end.
Definition snap_of (st : ustate) : snap :=
  let u := us_uri st in
  Snap (Scheme u) (Host u) (Path u) (u_pathOriginal u) (u_queryString u) (u_hash u) (u_username u) (u_password u) (FullURI_st st) (RequestURI_st st).
Definition snap_eqb (a b : snap) : bool :=
  match a, b with
  | Snap a1 a2 a3 a4 a5 a6 a7 a8 a9 a10, Snap b1 b2 b3 b4 b5 b6 b7 b8 b9 b10 =>
      beq a1 b1 && beq a2 b2 && beq a3 b3 && beq a4 b4 && beq a5 b5 && beq a6 b6 && beq a7 b7 && beq a8 b8 && beq a9 b9 && beq a10 b10
  end.
(* Some (all snapshots agreed, last state) | None = the model stopped at an operation it does not describe *)
Fixpoint run_cmp (st : ustate) (ops : list uop) (snaps : list snap) : option (bool * ustate) :=
  match ops, snaps with
  | [], [] => Some (true, st)
  | o :: ops', s :: snaps' =>
      match ustep st o with
      | None => None
      | Some st' => match run_cmp st' ops' snaps' with
                    | Some (b, stl) => Some (snap_eqb (snap_of st') s && b, stl)
                    | None => if snap_eqb (snap_of st') s then None else Some (false, st')
                    end
      end
  | _, _ => Some (false, st)
  end.

Definition corr_ok (c : c27case) : bool :=
  match c with
  | CUri hostArg uri p user pw full req stable reqRaw fullRaw pf pr args fullA pfa argsA pra argsR _ _ _ _ =>
      match parse hostArg uri with
      | UErr _ => negb (obs_ok p)
      | UOk u =>
          let st := of_parse u in
          obs_eqb (obs_of (UOk u)) p && beq (u_username u) user && beq (u_password u) pw
          && beq (FullURI u) full && beq (RequestURI u) req && beq (FullURI_st st) full && beq (RequestURI_st st) req && stable
          && beq (RequestURI_st (mkUS u false Args.emptyArgs true)) reqRaw && beq (FullURI_st (mkUS u false Args.emptyArgs true)) fullRaw
          && obs_eqb (obs_of (parse [] full)) pf
          && obs_eqb (obs_of (parse (Host u) req)) pr
          (* after QueryArgs(): the serialisation comes from the parsed arguments *)
          && match QueryArgs st with
             | None => false
             | Some sa =>
                 args_eqb (Args.All (us_args sa)) args && beq (FullURI_st sa) fullA
                 && obs_eqb (obs_of (parse [] fullA)) pfa && args_of_parse (parse [] fullA) argsA
                 && obs_eqb (obs_of (parse (Host u) (RequestURI_st sa))) pra && args_of_parse (parse (Host u) (RequestURI_st sa)) argsR
             end
      end
  | CEdit hostArg uri ops snaps pf argsU argsF =>
      match parse_st hostArg uri, snaps with
      | None, [] => true
      | None, _ :: _ => false
      | Some _, [] => false
      | Some st0, s0 :: rest =>
          snap_eqb (snap_of st0) s0 &&
          match run_cmp st0 ops rest with
          | None => true                                    (* an inner Parse failed: the half-reset object is not described *)
          | Some (okc, stl) =>
              okc && obs_eqb (obs_of (parse [] (FullURI_st stl))) pf
              && match QueryArgs stl with Some sa => args_eqb (Args.All (us_args sa)) argsU | None => false end
              && args_of_parse (parse [] (FullURI_st stl)) argsF
          end
      end
  | CPanic _ _ _ => false            (* the model never panics *)
  end.

Definition has_byte (c : N) (s : bytes) : bool := existsb (N.eqb c) s.
(* an absolute URI: there is a "//" introducing an authority (scheme optional, fasthttp assumes http) *)
Definition is_absolute (uri : bytes) : bool :=
  match index uri uStrSlashSlash with
  | Some n => negb (has_byte SLASH (firstn n uri))
  | None => false
  end.
Definition lower_ascii (c : N) : N := if (65 <=? c) && (c <=? 90) then c + 32 else c.
Definition is_http (s : bytes) : bool := beq s (s2b "http") || beq s (s2b "https").

Definition no_ctl (s : bytes) : bool := negb (stringContainsCTLByte s).
Definition keeps_wellformed (o : uop) : bool :=
  match o with
  | USetScheme v => isValidScheme v
  | USetPath _ | USetUsername _ | USetPassword _ | UQueryArgs | UCopyTo => true
  | USetQueryString v => no_ctl v && negb (has_byte HASH v)
  | USetHash v => no_ctl v
  | USetHost _ | URaw _ | UUpdate _ | UParse _ _ | UReset => false
  end.

Definition prop_ok (c : c27case) : bool :=
  match c with
  | CUri hostArg uri p user pw full req stable reqRaw fullRaw pf pr args fullA pfa argsA pra argsR nu_ok nu_scheme nu_host nu_query =>
      (* round trip: absolute URI, parsed successfully, host without a literal '%' *)
      (if obs_ok p && (match hostArg with [] => true | _ => false end) && is_absolute uri && negb (has_byte PCT (obs_host p))
       then (* FullURI() parses again to the same scheme, host, path, query string (QueryArgs unused), fragment *)
            obs_eqb pf p
            (* RequestURI() against the same host: same path and query string *)
            && obs_ok pr && beq (obs_path pr) (obs_path p) && beq (obs_qs pr) (obs_qs p)
            (* with QueryArgs() used: same scheme, host, path, query ARGUMENTS, fragment *)
            && obs_ok pfa && beq (obs_scheme pfa) (obs_scheme p) && beq (obs_host pfa) (obs_host p) && beq (obs_path pfa) (obs_path p)
            && beq (obs_hash pfa) (obs_hash p) && args_eqb argsA args
            && obs_ok pra && beq (obs_path pra) (obs_path p) && args_eqb argsR args
       else true)
      &&
      (* agreement with net/url on http/https URIs that both accept *)
      (if obs_ok p && nu_ok && (match hostArg with [] => true | _ => false end) && is_http nu_scheme && is_http (obs_scheme p)
       then beq (obs_host p) (map lower_ascii nu_host) && beq (obs_qs p) nu_query
       else true)
      &&
      (* validation of Spec/NetUrl.v against the real net/url.Parse (a failure here is a bug of the specification) *)
      (match nu_parse uri with
       | None => negb nu_ok
       | Some (s, h, q) => nu_ok && beq s nu_scheme && beq h nu_host && beq q nu_query
       end)
  | CEdit hostArg uri ops snaps pf argsU argsF =>
      (* a parsed absolute URI edited only through setters that keep it a well-formed URI (scheme valid, no '#' or control byte in
         the query, no control byte in the fragment; SetHost, Update, a raw Parse argument and DisablePathNormalizing are not judged):
         FullURI() parses again to the same scheme, host, path, query arguments and fragment *)
      match rev snaps with
      | Snap sc ho pa _ _ ha _ _ _ _ :: _ :: _ | Snap sc ho pa _ _ ha _ _ _ _ :: _ =>
          if (match hostArg with [] => true | _ => false end) && is_absolute uri && forallb keeps_wellformed ops && negb (has_byte PCT ho)
          then obs_ok pf && beq (obs_scheme pf) sc && beq (obs_host pf) ho && beq (obs_path pf) pa && beq (obs_hash pf) ha && args_eqb argsF argsU
          else true
      | [] => true
      end
  | CPanic _ _ stage => stage =? 0   (* a panic while serialising / re-parsing an accepted URI is a failed round trip *)
  end.
