(* Case type and the two checks evaluated on harness cases for C28. *)
From FH Require Import Model.Base Gen.GenC28 Model.Args Spec.Multimap.
Open Scope N_scope.

(* what the harness records after every operation (all through the public API, except the
   noValue flags which come from the verif export) *)
Record obs := Obs {
  o_len : Z;                                              (* Len() *)
  o_all : list (bytes * bytes);                           (* All() or VisitAll() *)
  o_nov : list bool;                                      (* noValue flag of every entry, in order *)
  o_pre : bytes;                                          (* dst prefix handed to AppendBytes ([] for QueryString/String/WriteTo) *)
  o_qs : bytes;                                           (* AppendBytes(pre) / QueryString() / String() / WriteTo output *)
  o_bytesapi : bool;                                      (* getters below were the []byte variants (PeekBytes = peekArgBytes, ...) *)
  o_probe : list (option bytes * list bytes * bool);      (* per probe key: Peek (None = nil), PeekMulti, Has *)
  o_rt : list entry;                                      (* entries of a second Args after ParseBytes(QueryString()) *)
  o_copy : option (list entry);                           (* entries of a third, long-lived Args after a.CopyTo(it), when done at this step *)
  o_helpers : bool                                        (* harness-side: GetUint/GetUintOrZero/GetBool/GetUfloat agree with ParseUint/ParseUfloat/literal set on Peek; early break of All() *)
}.

Fixpoint zip_entries (l : list (bytes * bytes)) (n : list bool) : list entry :=
  match l, n with
  | (k, v) :: l', f :: n' => (k, v, f) :: zip_entries l' n'
  | _, _ => []
  end.
Inductive c28case :=
| CSeq (probe : list bytes) (steps : list (op * obs))
| CRaw (raw : bytes) (parsed : list entry) (qs : bytes) (reparsed : list entry).

Definition entries (a : args) : list entry := map (fun kv => (kv_key kv, kv_value kv, kv_noValue kv)) (live a).

Definition kvpair_eqb : (bytes * bytes) -> (bytes * bytes) -> bool := pair_eqb beq beq.
(* Peek is compared by content: whether an existing key with an empty value yields nil or an empty
   non-nil slice depends on slice capacities (slots created by append's growth have a nil value
   buffer), which the model does not track. *)
Definition peek_bytes (x : option bytes) : bytes := match x with Some v => v | None => [] end.
Definition probe_eqb (x y : option bytes * list bytes * bool) : bool :=
  beq (peek_bytes (fst (fst x))) (peek_bytes (fst (fst y))) && list_eqb beq (snd (fst x)) (snd (fst y)) && Bool.eqb (snd x) (snd y).

Definition reparse (b a : args) : args :=
  match ParseBytes b (QueryString a) with Some b' => b' | None => mkArgs [(mkKV (s2b "OUT-OF-FUEL") [] false)] [] end.

Definition copy_step (a c : args) (o : obs) : args :=
  match o_copy o with Some _ => CopyTo a c | None => c end.

Definition obs_corr (probe : list bytes) (a b c : args) (o : obs) : bool :=
  (Len a =? o_len o)%Z
  && list_eqb kvpair_eqb (All a) (o_all o)
  && list_eqb Bool.eqb (map kv_noValue (live a)) (o_nov o)
  && beq (AppendBytes a (o_pre o)) (o_qs o)
  && list_eqb probe_eqb (map (fun k => ((if o_bytesapi o then PeekBytes a k else Peek a k), PeekMulti a k, Has a k)) probe) (o_probe o)
  && mmap_eqb (entries b) (o_rt o)
  && match o_copy o with Some ce => mmap_eqb (entries c) ce | None => true end
  && o_helpers o.

Fixpoint corr_steps (probe : list bytes) (a b c : args) (steps : list (op * obs)) : bool :=
  match steps with
  | [] => true
  | (o, ob) :: r =>
      let a' := step a o in
      let b' := reparse b a' in
      let c' := copy_step a' c ob in
      obs_corr probe a' b' c' ob && corr_steps probe a' b' c' r
  end.

Definition corr_ok (c : c28case) : bool :=
  match c with
  | CSeq probe steps => corr_steps probe emptyArgs emptyArgs emptyArgs steps
  | CRaw raw parsed qs reparsed =>
      match ParseBytes emptyArgs raw with
      | Some a => mmap_eqb (entries a) parsed && beq (QueryString a) qs
                  && mmap_eqb (entries (reparse emptyArgs a)) reparsed
      | None => false
      end
  end.

(* ---- the property, judged on what the implementation returned ---- *)
Definition obs_entries (o : obs) : mmap := zip_entries (o_all o) (o_nov o).

Fixpoint forall2b {A B} (f : A -> B -> bool) (l : list A) (r : list B) : bool :=
  match l, r with
  | [], [] => true
  | x :: l', y :: r' => f x y && forall2b f l' r'
  | _, _ => false
  end.

(* the getters agree with the multimap m (Peek is compared by content: nil and empty are the same value) *)
Definition obs_agrees (probe : list bytes) (m : mmap) (o : obs) : bool :=
  (mm_len m =? o_len o)%Z
  && list_eqb kvpair_eqb (mm_all m) (o_all o)
  && list_eqb Bool.eqb (map e_nov m) (o_nov o)
  && forall2b (fun k p => beq (peek_bytes (mm_peek m k)) (peek_bytes (fst (fst p)))
                          && list_eqb beq (mm_peek_multi m k) (snd (fst p))
                          && Bool.eqb (mm_has m k) (snd p)) probe (o_probe o).

Definition spec_after (m : mmap) (o : op) (ob : obs) : mmap :=
  match o with
  | OAdd k v => mm_add m k v
  | OAddNoValue k => mm_add_novalue m k
  | OSet k v => mm_set m k v
  | OSetNoValue k => mm_set_novalue m k
  | ODel k => mm_del m k
  | OReset => []
  | OParse _ => obs_entries ob      (* the property does not say what a raw string parses to: resynchronise *)
  end.

Fixpoint prop_steps (probe : list bytes) (m : mmap) (steps : list (op * obs)) : bool :=
  match steps with
  | [] => true
  | (o, ob) :: r =>
      let m' := spec_after m o ob in
      obs_agrees probe m' ob
      && mmap_eqb (o_rt ob) (mm_roundtrip (obs_entries ob))     (* parse (QueryString ()) = entries minus both-empty *)
      && prop_steps probe m' r
  end.

Definition prop_ok (c : c28case) : bool :=
  match c with
  | CSeq probe steps => prop_steps probe [] steps
  | CRaw raw parsed qs reparsed => mmap_eqb reparsed (mm_roundtrip parsed)
  end.
