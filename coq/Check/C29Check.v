(* Case type and the two checks evaluated on harness cases for C29 (header API as an ordered multimap). *)
From FH Require Import Model.Base Gen.GenC05 Gen.GenC06 Model.Ints Spec.IntsSpec Model.ByteClassModel Model.Cookie
  Model.HeaderWrite Model.HeaderMap Spec.HeaderSpec.
Open Scope N_scope.

(* what the harness records after one operation, all through the public API, in this order:
   Peek / PeekAll of every probe key, the special getters, then (on some steps) VisitAll, PeekKeys, Len *)
Record hobs := HObs {
  o_probe : list (bytes * list bytes);          (* per probe key: Peek (nil = empty), PeekAll *)
  o_get : list bytes;                           (* response: ContentType() ContentEncoding() Server()
                                                   request:  ContentType() Host() UserAgent() *)
  o_cl : Z;                                     (* ContentLength() *)
  o_close : bool;                               (* ConnectionClose() *)
  o_all : option (kvs * list bytes * Z)         (* VisitAll pairs, PeekKeys(), Len() *)
}.

(* one header value driven through a sequence of operations; then All() of the final header, and All() of a fresh
   header of the same type and flags after Read() of the serialised final header (None = Read returned an error) *)
(* a step: an operation of the property (typed setters such as SetContentType / SetHost / SetContentLength(n>=0) and
   SetCanonical are recorded as the HSet they are documented to equal), Reset(), or DisableNormalizing() /
   EnableNormalizing() in the middle of the sequence *)
Inductive xop := XOp (o : hop) | XReset | XNorm (off : bool).

Inductive c29case :=
| CHdr (isresp nonorm nodefct : bool) (probes : list bytes) (steps : list (xop * hobs))
       (final_all : kvs) (reread : option kvs)
       (* reuse after Read: on the header that was read back, Set("X-Verif-New","1") then Del(delkey); All() afterwards *)
       (delkey : bytes) (reread2 : kvs).

Definition kv_eqb : (bytes * bytes) -> (bytes * bytes) -> bool := pair_eqb beq beq.
Definition probe_eqb (a b : bytes * list bytes) : bool := beq (fst a) (fst b) && list_eqb beq (snd a) (snd b).
Definition all_eqb (a b : option (kvs * list bytes * Z)) : bool :=
  match a, b with
  | None, None => true
  | Some (l1, k1, n1), Some (l2, k2, n2) => list_eqb kv_eqb l1 l2 && list_eqb beq k1 k2 && (n1 =? n2)%Z
  | _, _ => false
  end.

(* ---------------- correspondence: the model's getters = the implementation's ---------------- *)
(* the probe keys are canonicalised once per case (cprobes = map getHeaderKeyBytes probes): Peek / PeekAll normalise with
   the header's own flag, which every step checks to be the flag of the case *)
Definition robs (r : resp) (cprobes : list bytes) (want_all : bool) : hobs :=
  HObs (map (fun c => (Rpeek r c, RpeekAll r c)) cprobes)
       [RContentType r; RContentEncoding r; RServer r] (RContentLength r) (RConnectionClose r)
       (if want_all then Some (RAll r, RPeekKeys r, RLen r) else None).

Definition qobs (q : req) (cprobes : list bytes) (want_all : bool) : req * hobs :=
  let q' := if want_all then fst (QAll q) else q in
  (q', HObs (map (fun c => (Qpeek q c, QpeekAll q c)) cprobes)
            [QContentType q; QHost q; QUserAgent q] (QContentLength q) (QConnectionClose q)
            (if want_all then Some (snd (QAll q), snd (QPeekKeys (fst (QAll q))), snd (QLen (fst (QAll q)))) else None)).

Definition hobs_eqb (a b : hobs) : bool :=
  list_eqb probe_eqb (o_probe a) (o_probe b) && list_eqb beq (o_get a) (o_get b)
  && (o_cl a =? o_cl b)%Z && Bool.eqb (o_close a) (o_close b) && all_eqb (o_all a) (o_all b).

Definition want (o : hobs) : bool := match o_all o with Some _ => true | None => false end.

Definition cprobes_of (nonorm : bool) (probes : list bytes) : list bytes := map (fun k => getHeaderKeyBytes k nonorm) probes.

Definition rxstep (r : resp) (x : xop) : resp :=
  match x with
  | XOp o => rstep29 r o
  | XReset => rinit false false                                  (* Reset(): everything cleared, both flags off *)
  | XNorm off => with_rh r (with_hdisableNorm (rh r) off)
  end.
Definition qxstep (q : req) (x : xop) : req :=
  match x with
  | XOp o => qstep29 q o
  | XReset => qinit false false
  | XNorm off => with_qh q (with_hdisableNorm (qh q) off)
  end.
Definition flag_after (nonorm : bool) (x : xop) : bool :=
  match x with XOp _ => nonorm | XReset => false | XNorm off => off end.

Fixpoint rcorr (nonorm : bool) (r : resp) (probes cprobes : list bytes) (steps : list (xop * hobs)) : bool * resp :=
  match steps with
  | [] => (true, r)
  | (x, ob) :: rest =>
      let r' := rxstep r x in
      let nonorm' := flag_after nonorm x in
      let cprobes' := match x with XOp _ => cprobes | _ => cprobes_of nonorm' probes end in
      if Bool.eqb (hdisableNorm (rh r')) nonorm' && hobs_eqb (robs r' cprobes' (want ob)) ob
      then rcorr nonorm' r' probes cprobes' rest else (false, r')
  end.
Fixpoint qcorr (nonorm : bool) (q : req) (probes cprobes : list bytes) (steps : list (xop * hobs)) : bool * req :=
  match steps with
  | [] => (true, q)
  | (x, ob) :: rest =>
      let q1 := qxstep q x in
      let nonorm' := flag_after nonorm x in
      let cprobes' := match x with XOp _ => cprobes | _ => cprobes_of nonorm' probes end in
      let '(q2, mo) := qobs q1 cprobes' (want ob) in
      if Bool.eqb (hdisableNorm (qh q1)) nonorm' && hobs_eqb mo ob then qcorr nonorm' q2 probes cprobes' rest else (false, q2)
  end.

Definition corr_ok (c : c29case) : bool :=
  match c with
  | CHdr isresp nonorm nodefct probes steps final_all _ _ _ =>
      let cprobes := cprobes_of nonorm probes in
      if isresp then
        let '(ok, r) := rcorr nonorm (rinit nonorm nodefct) probes cprobes steps in ok && list_eqb kv_eqb (RAll r) final_all
      else
        let '(ok, q) := qcorr nonorm (qinit nonorm nodefct) probes cprobes steps in
        (* Read() refuses an HTTP/1.1 request without Host: the harness calls SetHost("rt.host") when none is set *)
        let q := match QHost q with [] => QSetHostBytes q (s2b "rt.host") | _ => q end in
        ok && list_eqb kv_eqb (snd (QAll q)) final_all
  end.

(* ---------------- the property, judged on what the implementation returned ---------------- *)
Definition sop_of (o : hop) : sop :=
  match o with HSet k v => SSet k v | HAdd k v => SAdd k v | HDel k => SDel k | HCopy => SCopy end.

Definition peekall_ok (impl spec : list bytes) : bool := list_eqb beq impl spec.
Definition allvals_ok (impl spec : list bytes) : bool := list_eqb beq impl spec.

Definition vals_of (l : kvs) (c : bytes) : list bytes := map snd (filter (fun e => beq (fst e) c) l).

Fixpoint forall2b {A B} (f : A -> B -> bool) (l : list A) (r : list B) : bool :=
  match l, r with
  | [], [] => true
  | x :: l', y :: r' => f x y && forall2b f l' r'
  | _, _ => false
  end.

Definition cl_of (m : mm) : Z := match mm_vals m strContentLength with v :: _ => dec_value v | [] => 0%Z end.

Definition obs_agrees (t : htype) (nodefct : bool) (cprobes : list bytes) (m : mm) (o : hobs) : bool :=
  forall2b (fun c p => beq (fst p) (spec_peek t nodefct m c) && peekall_ok (snd p) (spec_peek_all t nodefct m c))
           cprobes (o_probe o)
  && list_eqb beq (o_get o)
       (match t with
        | HResp => [spec_peek t nodefct m strContentType; spec_peek t nodefct m strContentEncoding; spec_peek t nodefct m strServer]
        | HReq => [spec_peek t nodefct m strContentType; spec_peek t nodefct m strHost; spec_peek t nodefct m strUserAgent]
        end)
  && (o_cl o =? cl_of m)%Z
  && Bool.eqb (o_close o) (beq (spec_peek t nodefct m strConnection) strClose)
  && match o_all o with
     | None => true
     | Some (l, keys, n) =>
         forallb (fun c => allvals_ok (vals_of l c) (spec_all_vals t nodefct m c))
                 (map fst l ++ map fst m ++ [strContentType])
         && list_eqb beq keys (map fst l) && (n =? Z.of_nat (length l))%Z
     end.

(* "deleting or setting one name never changes the values, or their order, under another name",
   directly on two consecutive observations *)
Definition untouched (nonorm : bool) (cprobes : list bytes) (o : hop) (prev cur : hobs) : bool :=
  let opkey := match o with HSet k _ | HAdd k _ | HDel k => Some (canon nonorm k) | HCopy => None end in
  forall2b (fun c pc =>
              match opkey with
              | Some ck => if beq ck c then true
                           else beq (fst (fst pc)) (fst (snd pc))
                                && list_eqb beq (snd (fst pc)) (snd (snd pc))
              | None => beq (fst (fst pc)) (fst (snd pc))
                        && list_eqb beq (snd (fst pc)) (snd (snd pc))
              end)
           cprobes (combine (o_probe prev) (o_probe cur))
  || negb (Nat.eqb (length (o_probe prev)) (length (o_probe cur))).

Fixpoint prop_steps (t : htype) (nonorm nodefct : bool) (probes cprobes : list bytes) (m : mm)
         (prev : option hobs) (steps : list (xop * hobs)) : bool :=
  match steps with
  | [] => true
  | (XOp o, ob) :: rest =>
      let m' := sstep t nonorm m (sop_of o) in
      obs_agrees t nodefct cprobes m' ob
      && match prev with Some p => untouched nonorm cprobes o p ob | None => true end
      && prop_steps t nonorm nodefct probes cprobes m' (Some ob) rest
  | (XReset, ob) :: rest =>
      (* Reset(): an empty header with normalisation and the default content type back on *)
      let cp := map (canon false) probes in
      obs_agrees t false cp [] ob && prop_steps t false false probes cp [] None rest
  | (XNorm off, ob) :: rest =>
      (* the stored fields keep the names they were stored under; later calls use the new setting *)
      let cp := map (canon off) probes in
      obs_agrees t nodefct cp m ob && prop_steps t off nodefct probes cp m None rest
  end.

(* ---- write, then read back ---- *)
Definition framing (t : htype) (c : bytes) : bool :=
  beq c strContentLength || beq c strTransferEncoding || beq c strConnection
  || match t with HResp => beq c strDate | HReq => false end.
Definition clean_field (e : bytes * bytes) : bool :=
  negb (beq (fst e) []) && forallb validHeaderFieldByte (fst e)
  && beq (trim (snd e)) (snd e) && forallb validHeaderValueByte (snd e).
Definition trailer_of (l : kvs) : list bytes :=
  match vals_of l strTrailer with v :: _ => map trim (split_on 44 [] v) | [] => [] end.
Definition rt_fields (t : htype) (tr : list bytes) (l : kvs) : kvs :=
  filter (fun e => negb (framing t (fst e)) && negb (existsb (beq (fst e)) tr)) l.
(* a request with a body and no Content-Type is written with the default form content type (documented default) *)
Definition drop_default_ct (t : htype) (nodefct : bool) (before after : kvs) : kvs :=
  match t with
  | HReq => if negb nodefct && match vals_of before strContentType with [] => true | _ => false end
               && list_eqb beq (vals_of after strContentType) [strDefaultContentType]
            then filter (fun e => negb (beq (fst e) strContentType)) after else after
  | HResp => after
  end.
Definition roundtrip_ok (t : htype) (nonorm nodefct : bool) (before : kvs) (reread : option kvs) : bool :=
  (* a name stored while normalisation was off is read back in the spelling of the setting in force at the end *)
  let before := map (fun e => (canon nonorm (fst e), snd e)) before in
  if forallb clean_field before then
    match reread with
    | None => false
    | Some after =>
        let tr := trailer_of before in
        list_eqb kv_eqb (rt_fields t tr before) (rt_fields t tr (drop_default_ct t nodefct before after))
    end
  else true.

(* a parsed header that is then mutated: the new field is there once, the deleted name is gone, every other name
   keeps its values in order (judged without the model: the parser belongs to another property) *)
Definition reuse_ok (reread : option kvs) (delkey : bytes) (after : kvs) : bool :=
  match reread with
  | None => true
  | Some before =>
      let newk := s2b "X-Verif-New" in
      forallb (fun c => if beq c newk then list_eqb beq (vals_of after c) [s2b "1"]
                        else if beq c delkey then list_eqb beq (vals_of after c) []
                        else list_eqb beq (vals_of after c) (vals_of before c))
              (newk :: delkey :: map fst before ++ map fst after)
  end.

Definition prop_ok (c : c29case) : bool :=
  match c with
  | CHdr isresp nonorm nodefct probes steps final_all reread delkey reread2 =>
      let t := if isresp then HResp else HReq in
      prop_steps t nonorm nodefct probes (map (canon nonorm) probes) [] None steps
      && roundtrip_ok t (fold_left (fun f x => flag_after f (fst x)) steps nonorm)
                      (fold_left (fun nd x => match fst x with XReset => false | _ => nd end) steps nodefct) final_all reread
      && reuse_ok reread delkey reread2
  end.
