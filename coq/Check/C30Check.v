(* Case type and the two checks evaluated on harness cases for C30. *)
From FH Require Import Model.Base Gen.GenC30 Model.Ints Spec.IntsSpec.
Open Scope Z_scope.

(* implementation observables *)
Inductive c30case :=
| CParse (s : bytes) (impl : option Z)                 (* ParseUint: Some v | None = error *)
| CAppend (n : Z) (impl : bytes)                       (* AppendUint(nil, n) *)
| CRoundDec (n : Z) (impl : option Z)                  (* ParseUint(AppendUint(n)) *)
| CReadHex (s : bytes) (impl : option (Z * Z))         (* readHexInt: Some (value, bytes consumed) *)
| CHexRound (n : Z) (written : bytes) (impl : option Z)(* writeHexInt n, then readHexInt of it *).

Definition ozeq (a b : option Z) : bool := option_eqb Z.eqb a b.
Definition hres_opt (total : nat) (r : hres) : option (Z * Z) :=
  match r with HOk n rest => Some (n, Z.of_nat total - Z.of_nat (length rest)) | HErr _ => None end.
Definition ozzeq (a b : option (Z * Z)) : bool := option_eqb (pair_eqb Z.eqb Z.eqb) a b.

Definition corr_ok (c : c30case) : bool :=
  match c with
  | CParse s impl => ozeq (pres_opt (ParseUint 64 s)) impl
  | CAppend n impl => option_eqb beq (AppendUint [] n) (Some impl)
  | CRoundDec n impl =>
      match AppendUint [] n with Some d => ozeq (pres_opt (ParseUint 64 d)) impl | None => false end
  | CReadHex s impl => ozzeq (hres_opt (length s) (readHexInt 64 maxHexIntChars64 s)) impl
  | CHexRound n w impl =>
      match writeHexInt maxHexIntChars64 n with
      | Some d => beq d w && ozeq (match readHexInt 64 maxHexIntChars64 d with HOk v _ => Some v | HErr _ => None end) impl
      | None => false
      end
  end.

(* the property itself, judged on what the implementation returned *)
Definition prop_ok (c : c30case) : bool :=
  match c with
  | CParse s impl => ozeq (spec_parse_uint (maxInt 64) s) impl
  | CAppend n impl => all_digits impl && (dec_value impl =? n) && negb (beq impl [])
  | CRoundDec n impl => ozeq impl (Some n)
  | CReadHex s impl =>
      let (d, r) := span_hex s in
      match d with
      | [] => ozzeq impl None
      | _ => if (Z.of_nat (length d) >? maxHexIntChars64) then ozzeq impl None
             else ozzeq impl (Some (hex_value d, Z.of_nat (length d)))
      end
  | CHexRound n w impl =>
      if n <? 16 ^ maxHexIntChars64 then ozeq impl (Some n) && (hex_value w =? n) else true
  end.
