From FH Require Import Model.Base Gen.GenC31 Spec.Calendar Spec.HttpDate Spec.IPv4Spec Model.DateIP.
Open Scope Z_scope.

Inductive c31case :=
| CDateFast (b : bytes) (fast : option Z) (stdlib : option Z)     (* parseRFC1123DateGMT(b) and time.Parse(http.TimeFormat,b), as Unix seconds *)
| CDateRound (secs : Z) (appended : bytes) (parsed : option Z)    (* AppendHTTPDate(time.Unix(secs)), ParseHTTPDate of it *)
| CIPv4 (s : bytes) (impl : option (list Z))                      (* ParseIPv4 *)
| CIPv4Round (ip : list Z) (appended : bytes) (parsed : option (list Z)).

Definition ozeq := option_eqb Z.eqb.
Definition olzeq := option_eqb (list_eqb Z.eqb).

Definition corr_ok (c : c31case) : bool :=
  match c with
  | CDateFast b fast _ => ozeq (parseRFC1123DateGMT b) fast
  | CDateRound secs app parsed => beq (spec_format_http_date secs) app && ozeq (parseRFC1123DateGMT app) parsed
  | CIPv4 s impl => olzeq (ParseIPv4 s) impl
  | CIPv4Round ip app parsed => beq (AppendIPv4 ip) app && olzeq (ParseIPv4 app) parsed
  end.

Definition prop_ok (c : c31case) : bool :=
  match c with
  | CDateFast b fast stdlib =>
      (* either declines or returns exactly what time.Parse returns; and whatever the Coq formalisation of the
         strict-shape part of time.Parse accepts, the real time.Parse accepts with the same instant (validation of the spec) *)
      (match fast with Some t => ozeq stdlib (Some t) | None => true end) &&
      (match spec_time_parse b with Some t => ozeq stdlib (Some t) | None => true end)
  | CDateRound secs app parsed => ozeq parsed (Some secs)
  | CIPv4 s impl => olzeq (spec_parse_ipv4 s) impl
  | CIPv4Round ip app parsed => olzeq parsed (Some ip)
  end.
