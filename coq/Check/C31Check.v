From FH Require Import Model.Base Gen.GenC31 Spec.Calendar Spec.HttpDate Spec.IPv4Spec Model.DateIP Model.IPv6 Spec.IPv6Text Model.Uri.
Open Scope Z_scope.

Inductive c31case :=
| CDateFast (b : bytes) (fast : option Z) (stdlib : option Z)     (* parseRFC1123DateGMT(b) and time.Parse(http.TimeFormat,b), as Unix seconds *)
| CDateRound (secs : Z) (appended : bytes) (parsed : option Z)    (* AppendHTTPDate(time.Unix(secs)), ParseHTTPDate of it *)
| CIPv4 (s : bytes) (impl : option (list Z))                      (* ParseIPv4 *)
| CIPv4Round (ip : list Z) (appended : bytes) (parsed : option (list Z))
(* validateIPv6Literal(host) == nil, and netip.ParseAddr(a) ok && Is6() for the address part a = host[1:LastIndexByte(host, ']')]
   (false when host does not start with '[' or has no ']') *)
| CIPv6 (host : bytes) (impl_ok : bool) (netip_ok : bool)
(* the same through the public API: u.Parse(nil, "http://" + host + "/") accepted?, u.Host(); netip on the address part of the
   text `host` and on the address part of u.Host() (both cut at the last ']'; false when there is none) *)
| CIPv6URI (host : bytes) (uri_ok : bool) (host_out : bytes) (netip_in netip_out : bool).

(* "[" a "]" rest  ->  (a, rest), the closing bracket being the last ']' *)
Definition bracket_parts (host : bytes) : option (bytes * bytes) :=
  match host with
  | c :: t => if (c =? LBR)%N then cut_last RBR t else None
  | [] => None
  end.
Definition starts_bracket (host : bytes) : bool := match host with c :: _ => (c =? LBR)%N | [] => false end.

Definition ozeq := option_eqb Z.eqb.
Definition olzeq := option_eqb (list_eqb Z.eqb).

Definition corr_ok (c : c31case) : bool :=
  match c with
  | CDateFast b fast _ => ozeq (parseRFC1123DateGMT b) fast
  | CDateRound secs app parsed => beq (spec_format_http_date secs) app && ozeq (parseRFC1123DateGMT app) parsed
  | CIPv4 s impl => olzeq (ParseIPv4 s) impl
  | CIPv4Round ip app parsed => beq (AppendIPv4 ip) app && olzeq (ParseIPv4 app) parsed
  | CIPv6 host impl_ok _ => Bool.eqb (v6_ok (validateIPv6Literal host)) impl_ok
  | CIPv6URI host uri_ok host_out _ _ =>
      match Uri.parse [] (s2b "http://" ++ host ++ s2b "/") with
      | UOk u => uri_ok && beq (Uri.Host u) host_out
      | UErr _ => negb uri_ok
      end
  end.

Definition prop_ok (c : c31case) : bool :=
  match c with
  | CDateFast b fast stdlib =>
      (* either declines or returns exactly what time.Parse returns; and whatever the Coq formalisation of the
         strict-shape part of time.Parse accepts, the real time.Parse accepts with the same instant (validation of the spec) *)
      (match fast with Some t => ozeq stdlib (Some t) | None => true end) &&
      (match spec_time_parse b with Some t => ozeq stdlib (Some t) | None => true end)
  | CDateRound secs app parsed => ozeq parsed (Some secs)
  | CIPv4 s impl => olzeq (spec_parse_ipv4 s) impl
  | CIPv4Round ip app parsed => olzeq parsed (Some ip)
  | CIPv6 host impl_ok netip_ok =>
      match bracket_parts host with
      | None => negb (starts_bracket host && impl_ok)          (* "[..." without ']' has no address part: must not be accepted *)
      | Some (a, rest) =>
          Bool.eqb (spec_ipv6 a) netip_ok                      (* validation of Spec/IPv6Text.v against the real net/netip *)
          && (negb impl_ok || netip_ok)                        (* accepted only if the address part is an IPv6 address per net/netip *)
          && (negb (zoneless a && netip_ok && is_port rest) || impl_ok)   (* every zone-less IPv6 address (with optional port) is accepted *)
      end
  | CIPv6URI host uri_ok host_out netip_in netip_out =>
      (* an accepted bracketed host has an IPv6 address part *)
      (if uri_ok && starts_bracket host_out
       then match bracket_parts host_out with
            | Some (a, rest) => Bool.eqb (spec_ipv6 a) netip_out && netip_out
            | None => false
            end
       else true)
      (* "http://[" a "]" port "/" with a zone-less IPv6 address a is accepted *)
      && (match bracket_parts host with
          | Some (a, rest) => Bool.eqb (spec_ipv6 a) netip_in && (negb (zoneless a && netip_in && is_port rest) || uri_ok)
          | None => true
          end)
  end.
