From FH Require Import Model.Base Gen.GenC32 Model.ByteClassModel Spec.ByteClass.
Open Scope N_scope.

Inductive c32case :=
| CTable (id : N) (impl : bytes)                        (* the running binary's table #id *)
| CCanon (s : bytes) (impl : bytes) (textproto : bytes) (* normalizeHeaderKey(s,false), CanonicalMIMEHeaderKey(s) *)
| CHtml (s : bytes) (impl : bytes) (stdlib : bytes)     (* AppendHTMLEscape(nil,s), html.EscapeString(s) *)
| CMethod (s : bytes) (impl : bool).                    (* isValidMethod *)

Definition gen_table (id : N) : bytes :=
  match id with
  | 0 => hex2intTable | 1 => toLowerTable | 2 => toUpperTable | 3 => quotedArgShouldEscapeTable
  | 4 => quotedPathShouldEscapeTable | 5 => validHeaderFieldByteTable | 6 => validHeaderValueByteTable
  | _ => validMethodValueByteTable
  end.
Definition spec_of (id : N) : N -> N :=
  match id with
  | 0 => hex_spec | 1 => lower_spec | 2 => upper_spec | 3 => arg_escape_spec | 4 => path_escape_spec
  | 5 => tchar_spec | 6 => field_value_spec | _ => tchar_spec
  end.
Definition seqN (n : nat) : list N := map N.of_nat (seq 0 n).

Definition corr_ok (c : c32case) : bool :=
  match c with
  | CTable id impl => beq (gen_table id) impl          (* translator faithful to the compiled constant *)
  | CCanon s impl _ => beq (normalizeHeaderKey s false) impl
  | CHtml s impl _ => beq (AppendHTMLEscape [] s) impl
  | CMethod s impl => Bool.eqb (isValidMethod s) impl
  end.

Definition prop_ok (c : c32case) : bool :=
  match c with
  | CTable id impl =>
      let n := if id =? 5 then 128%nat else 256%nat in
      (length impl =? n)%nat && forallb (fun b => tbl impl b =? spec_of id b) (seqN n)
  | CCanon s impl tp =>
      (* the property speaks about tokens; the Coq formalisation of textproto is validated on every string *)
      beq (canonical_mime s) tp && (if forallb tchar s then beq impl tp else true)
  | CHtml s impl std => beq impl std && beq (html_escape s) std
  | CMethod s impl => Bool.eqb impl (forallb tchar s)
  end.
