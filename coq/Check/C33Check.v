(* Case type and the two checks evaluated on harness cases for C33. *)
From FH Require Import Model.Base Gen.GenC33 Model.Pipe Model.Listener Spec.PipeSpec.
Open Scope N_scope.

(* compact byte strings in case files: (rpt 3000 97) = 3000 times 'a' *)
Definition rpt (n b : N) : bytes := repeat b (N.to_nat n).
Definition cat (l : list bytes) : bytes := concat l.

(* deadline kinds the harness uses: zero time | a time in the past | now+3ms | now+1h *)
Inductive dkind := KZero | KPast | KSoon | KFar.
Definition dl_of (k : dkind) : dl := match k with KZero => DNone | KPast => DFired | _ => DArmed end.
Definition is_soon (k : dkind) : bool := match k with KSoon => true | _ => false end.

Inductive xop :=
| XWrite (p : bytes) | XRead (n : N) | XClose | XSetW (k : dkind) | XSetR (k : dkind)
(* split-phase calls: the harness starts the call in a goroutine, lets it park, does other calls, then joins it *)
| XWriteStart (p : bytes) | XWriteJoin (p : bytes) | XReadStart (n : N) | XReadJoin (n : N).
(* one step of a sequential pipe case: which end (true = Conn1), the call, what it returned,
   and [len chan ab; len cur ab; len chan ba; len cur ba] read from the real object afterwards *)
Record prec := mkPR { p_end : bool; p_op : xop; p_obs : obs; p_snap : list N }.

Inductive c33case :=
| CPipe (fin : bool) (ops : list prec)
| CPStress (writer_closes : bool) (ws : list (bytes * obs)) (rs : list (N * obs))
| CLn (ops : list (lop * lobs * N)) (dials : list (N * bool * bool))
| CLnStress (dials : list (N * bool)) (accepts : list (option N)) (post : list bool)
| CCaps (pipe_cap ln_cap : N)
(* `trials` runs of reader-in-Read vs peer Write(written);Close() with a pseudo-random spin; the recorded trials are every
   failing one (at most 5) and the first good ones: (trial number, spin, the reader's Read results) *)
| CCloseRace (trials : N) (written : bytes) (recorded : list (N * N * list (N * obs))).

(* ---------------- equality on observables ---------------- *)
Definition wres_eqb (a b : wres) : bool :=
  match a, b with WOk, WOk | WClosed, WClosed | WTimeout, WTimeout => true | _, _ => false end.
Definition rres_eqb (a b : rres) : bool :=
  match a, b with ROk, ROk | REof, REof | RTimeout, RTimeout => true | _, _ => false end.
Definition obs_eqb (a b : obs) : bool :=
  match a, b with
  | ObW n r, ObW n' r' => (n =? n') && wres_eqb r r'
  | ObR d r, ObR d' r' => beq d d' && rres_eqb r r'
  | ObNil, ObNil => true
  | ObParked, ObParked => true
  | ObBlocked, ObBlocked => true
  | _, _ => false
  end.
Definition is_blocked (o : obs) : bool := match o with ObBlocked => true | _ => false end.

(* ---------------- sequential pipe cases: the pair driven through Model.Pipe ---------------- *)
Record xdir := mkX { xd : dstate; wsoon : bool; rsoon : bool }.
Record xst := mkXS { x_ab : xdir; x_ba : xdir }.
Definition xinit : xst := mkXS (mkX dinit false false) (mkX dinit false false).
Definition snap_of (x : xst) : list N :=
  [lenN (chan (xd (x_ab x))); lenN (cur (xd (x_ab x))); lenN (chan (xd (x_ba x))); lenN (cur (xd (x_ba x)))].

Definition wdir (x : xst) (e : bool) : xdir := if e then x_ab x else x_ba x.   (* direction an end writes to *)
Definition rdir (x : xst) (e : bool) : xdir := if e then x_ba x else x_ab x.   (* direction an end reads from *)
Definition set_wdir (x : xst) (e : bool) (d : xdir) : xst := if e then mkXS d (x_ba x) else mkXS (x_ab x) d.
Definition set_rdir (x : xst) (e : bool) (d : xdir) : xst := if e then mkXS (x_ab x) d else mkXS d (x_ba x).

Definition xsettle (x : xst) : list xst :=
  flat_map (fun a => map (fun b => mkXS (mkX a (wsoon (x_ab x)) (rsoon (x_ab x))) (mkX b (wsoon (x_ba x)) (rsoon (x_ba x))))
                         (settle_dir (wsoon (x_ba x)) (rsoon (x_ba x)) (xd (x_ba x))))
           (settle_dir (wsoon (x_ab x)) (rsoon (x_ab x)) (xd (x_ab x))).
Definition upd_w (x : xst) (e : bool) (l : list dstate) : list xst :=
  let d := wdir x e in map (fun s => set_wdir x e (mkX s (wsoon d) (rsoon d))) l.
Definition upd_r (x : xst) (e : bool) (l : list dstate) : list xst :=
  let d := rdir x e in map (fun s => set_rdir x e (mkX s (wsoon d) (rsoon d))) l.

(* the call itself, then every parked call continues as far as it can *)
Definition xexec (x : xst) (e : bool) (o : xop) : list xst :=
  flat_map xsettle
  match o with
  | XWrite p | XWriteStart p => upd_w x e (write_start (xd (wdir x e)) p)
  | XRead n | XReadStart n => upd_r x e (read_start (xd (rdir x e)) n)
  | XWriteJoin _ | XReadJoin _ => [x]
  | XClose =>
      match step (xd (x_ab x)) LClose, step (xd (x_ba x)) LClose with
      | Some a, Some b => [mkXS (mkX a (wsoon (x_ab x)) (rsoon (x_ab x))) (mkX b (wsoon (x_ba x)) (rsoon (x_ba x)))]
      | _, _ => []
      end
  | XSetW k =>
      let d := wdir x e in
      match step (xd d) (LSetWDl (dl_of k)) with
      | Some s => [set_wdir x e (mkX s (is_soon k) (rsoon d))]
      | None => []
      end
  | XSetR k =>
      let d := rdir x e in
      match step (xd d) (LSetRDl (dl_of k)) with
      | Some s => [set_rdir x e (mkX s (wsoon d) (is_soon k))]
      | None => []
      end
  end.
(* what the caller sees *)
Definition xobserve (x : xst) (e : bool) (o : xop) : obs :=
  match o with
  | XWrite _ => let d := xd (wdir x e) in if w_parked d then ObBlocked else last_w (hist d)
  | XWriteStart _ => let d := xd (wdir x e) in if w_parked d then ObParked else last_w (hist d)
  | XWriteJoin _ => let d := xd (wdir x e) in if w_parked d then ObBlocked else last_w (hist d)
  | XRead _ => let d := xd (rdir x e) in if r_parked d then ObBlocked else last_r (hist d)
  | XReadStart _ => let d := xd (rdir x e) in if r_parked d then ObParked else last_r (hist d)
  | XReadJoin _ => let d := xd (rdir x e) in if r_parked d then ObBlocked else last_r (hist d)
  | _ => ObNil
  end.

Definition nlist_eqb (a b : list N) : bool := list_eqb N.eqb a b.

(* the implementation's transcript is one the transition system can produce, with the same
   channel occupancy and current-buffer length after every call (when nothing is parked) *)
Fixpoint pipe_corr (x : xst) (ops : list prec) : bool :=
  match ops with
  | [] => true
  | r :: rest =>
      existsb (fun x' => obs_eqb (xobserve x' (p_end r) (p_op r)) (p_obs r) &&
                         (if is_blocked (p_obs r) then is_nil rest
                          else (is_nil (p_snap r) || nlist_eqb (snap_of x') (p_snap r)) && pipe_corr x' rest))
              (xexec x (p_end r) (p_op r))
  end.

Definition sev_of (r : prec) : sev :=
  match p_op r with
  | XWrite p => SWrite (p_end r) p (p_obs r)
  | XRead n => SRead (negb (p_end r)) n (p_obs r)      (* Conn1 reads the direction Conn2 -> Conn1 *)
  | XClose => SClose
  | XWriteStart p => match p_obs r with ObParked => SWritePark (p_end r) p | o => SWrite (p_end r) p o end
  | XWriteJoin p => SWriteLate (p_end r) p (p_obs r)
  | XReadStart n => match p_obs r with ObParked => SOther | o => SRead (negb (p_end r)) n o end
  | XReadJoin n => SRead (negb (p_end r)) n (p_obs r)
  | _ => SOther
  end.

(* ---------------- concurrent writer / reader: consequences of the transition system ----------------
   Every Read returns a contiguous piece of the stream of successfully written buffers; a Read that
   returns fewer bytes than its buffer holds stopped at a buffer boundary (it found the channel empty);
   EOF needs the channel empty: when the writer closes after its last Write nothing may be left, when
   somebody else closes at most the one Write that was past its closed-check may still arrive. *)
Fixpoint take_chunks (k : nat) (chunks : list bytes) : option (bytes * bytes * list bytes) :=
  match k with
  | O => Some ([], [], chunks)
  | _ =>
      match chunks with
      | [] => None
      | c :: r =>
          if Nat.leb k (length c) then Some (firstn k c, skipn k c, r)
          else match take_chunks (k - length c) r with
               | Some (d, cu, rest) => Some (c ++ d, cu, rest)
               | None => None
               end
      end
  end.
(* cu = unread rest of the buffer the reader holds; chunks = buffers not yet received *)
Definition take_stream (k : nat) (cu : bytes) (chunks : list bytes) : option (bytes * bytes * list bytes) :=
  if Nat.leb k (length cu) then Some (firstn k cu, skipn k cu, chunks)
  else match take_chunks (k - length cu) chunks with
       | Some (d, cu', rest) => Some (cu ++ d, cu', rest)
       | None => None
       end.
Fixpoint drop_empty (rest : list bytes) : list bytes :=
  match rest with [] :: r => drop_empty r | _ => rest end.
Fixpoint stress_reads (wc : bool) (cu : bytes) (chunks : list bytes) (rs : list (N * obs)) : bool :=
  match rs with
  | [] => true
  | (n, ObR d r) :: rs' =>
      match take_stream (length d) cu chunks with
      | None => false
      | Some (d', cu', rest') =>
          beq d d' &&
          match r with
          | ROk => (if lenN d <? n then is_nil cu' else true) && stress_reads wc cu' rest' rs'
          | REof => is_nil d && is_nil cu' &&
                    (if wc then is_nil (drop_empty rest') else Nat.leb (length (drop_empty rest')) 1) && is_nil rs'
          | RTimeout => false
          end
      end
  | _ => false
  end.
Definition ok_chunks (ws : list (bytes * obs)) : list bytes :=
  concat (map (fun w => match snd w with ObW _ WOk => [fst w] | _ => [] end) ws).
Fixpoint writes_shape (wc : bool) (failed : bool) (ws : list (bytes * obs)) : bool :=
  match ws with
  | [] => true
  | (p, ObW n WOk) :: r => negb failed && (n =? lenN p) && writes_shape wc failed r
  | (p, ObW n WClosed) :: r => negb wc && (n =? 0) && writes_shape wc true r
  | _ => false
  end.
Definition stress_corr (wc : bool) (ws : list (bytes * obs)) (rs : list (N * obs)) : bool :=
  writes_shape wc false ws && stress_reads wc [] (ok_chunks ws) rs.

(* ---------------- listener: controlled schedule through Model.Listener ---------------- *)
Definition started (ops : list (lop * lobs * N)) : list N :=
  concat (map (fun r => match fst (fst r) with ODial i => [i] | _ => [] end) ops).
Definition acc_started (ops : list (lop * lobs * N)) : list N :=
  concat (map (fun r => match fst (fst r) with OAcceptStart j => [j] | _ => [] end) ops).
(* a parked Accept j wakes up when a connection is queued or the listener is closed *)
Definition settle_acc (s : lstate) (j : N) : lstate :=
  drive 6 s [LASelTake j; LASelDone j; LAGotDone j; LAGotOpen j; LAMark j].
Definition settle_all (s : lstate) (aids ids : list N) : lstate := fold_left settle ids (fold_left settle_acc aids s).
Definition lobs_eqb (a b : lobs) : bool :=
  match a, b with
  | LbPending, LbPending | LbDialOk, LbDialOk | LbDialErr, LbDialErr | LbBlocked, LbBlocked => true
  | LbAccept x, LbAccept y => option_eqb N.eqb x y
  | LbClose x, LbClose y => Bool.eqb x y
  | _, _ => false
  end.
Definition lexec (s : lstate) (o : lop) : lstate :=
  match o with
  | ODial i => ex_dial s i
  | OAccept j | OAcceptStart j => ex_accept s j
  | OAcceptJoin _ => s
  | OClose k => ex_close s k
  end.
Fixpoint find_accept (j : N) (h : list lev) : option (option N) :=
  match h with
  | [] => None
  | EvAccept j' _ r :: h' => if j' =? j then Some r else find_accept j h'
  | _ :: h' => find_accept j h'
  end.
Fixpoint find_close (k : N) (h : list lev) : option bool :=
  match h with
  | [] => None
  | EvClose k' ok :: h' => if k' =? k then Some ok else find_close k h'
  | _ :: h' => find_close k h'
  end.
Definition lobserve (s : lstate) (o : lop) : lobs :=
  match o with
  | ODial i => match dp s i with DDone true => LbDialOk | DDone false => LbDialErr | DWait2 => LbPending | _ => LbBlocked end
  | OAccept j => match ap s j, find_accept j (lhist s) with ADone, Some r => LbAccept r | _, _ => LbBlocked end
  | OAcceptStart j | OAcceptJoin j =>
      match ap s j, find_accept j (lhist s) with ADone, Some r => LbAccept r | ASel, _ => LbPending | _, _ => LbBlocked end
  | OClose k => match cp s k, find_close k (lhist s) with CDone, Some ok => LbClose ok | _, _ => LbBlocked end
  end.
Fixpoint ln_corr (s : lstate) (aids ids : list N) (ops : list (lop * lobs * N)) (dials : list (N * bool * bool)) : bool :=
  match ops with
  | [] => forallb (fun d : N * bool * bool => match d with (i, ok, _) =>
                     match dp s i with DDone ok' => Bool.eqb ok ok' && (if ok then negb (pclosed s i) else true) | _ => false end end) dials
  | (o, b, pending) :: rest =>
      let s2 := settle_all (lexec s o) aids ids in
      lobs_eqb b (lobserve s2 o) && (N.of_nat (length (conns s2)) =? pending) &&
      (if match b with LbBlocked => true | _ => false end then is_nil rest else ln_corr s2 aids ids rest dials)
  end.

(* the invariants proved for every reachable state of Model.Listener (Proof/ListenerProof.v), evaluated on the
   log of a concurrent run of the real listener *)
Definition lstress_corr (dials : list (N * bool)) (accepts : list (option N)) (post : list bool) : bool :=
  lstress_ok dials accepts post &&
  forallb (fun a => match a with Some c => existsb (fun d => fst d =? c) dials | None => true end) accepts.

Definition corr_ok (c : c33case) : bool :=
  match c with
  | CPipe fin ops => pipe_corr xinit ops
  | CPStress wc ws rs => stress_corr wc ws rs
  | CLn ops dials => ln_corr linit (acc_started ops) (started ops) ops dials
  | CLnStress d a p => lstress_corr d a p
  | CCaps pc lc => (pc =? chan_cap) && (lc =? conns_cap) && forallb (fun z => Z.to_N z =? pc) npc_ints
  (* the invariant eof_ok of Proof/PipeProof.v (an EOF is returned only when everything written has been read), evaluated
     on the concurrent run: both picks of the blocking select are covered by it *)
  | CCloseRace _ w rec => forallb (fun t : N * N * list (N * obs) => close_race_ok w (snd t)) rec
  end.

Definition prop_ok (c : c33case) : bool :=
  match c with
  | CPipe fin ops => stream_ok fin (map sev_of ops)
  | CPStress wc ws rs => stress_ok wc ws rs
  | CLn ops dials => listener_ok ops dials
  | CLnStress d a p => lstress_ok d a p
  | CCaps _ _ => true
  | CCloseRace _ w rec => forallb (fun t : N * N * list (N * obs) => close_race_ok w (snd t)) rec
  end.
