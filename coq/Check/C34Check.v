(* Case type and the two checks evaluated on harness cases for C34. *)
From FH Require Import Model.Base Gen.GenC30 Gen.GenC34 Model.Ints Model.Body Model.BodyWrite Model.StreamLife
     Spec.IntsSpec Spec.BodySpec.
Open Scope Z_scope.

(* compact byte strings in case files *)
Definition rpt (n : Z) (b : N) : bytes := repeat b (Z.to_nat n).
Definition cat (l : list bytes) : bytes := concat l.

(* what the harness saw of the bufio.Writer and its target after a call:
   bytes the target accepted, w.Buffered(), and the class of the returned error *)
Record wobs := mkWO { wo_out : bytes; wo_buffered : Z; wo_res : wres }.

(* what a reader returned *)
Inductive robs :=
| ROk (body : bytes) (consumed : Z)
| RErr (e : berr)
| RPanic.

Inductive c34case :=
(* writeChunk(w, b) on a bufio.Writer of the given size that already received `pre` *)
| CWChunk (bufsize budget : Z) (pre b : bytes) (o : wobs)
(* writeBodyChunked(w, stream) *)
| CWChunked (k : skind) (bufsize budget : Z) (pre data : bytes) (script : list rdop) (o : wobs)
(* writeBodyFixedSize(w, stream, size) *)
| CWFixed (k : skind) (bufsize budget size : Z) (pre data : bytes) (script : list rdop) (o : wobs)
(* Response.Write / Request.Write with a body stream: o = right after Write; attached = IsBodyStream()
   after Write; closes = Close() calls after Write; wire = target after a final Flush (when nothing failed);
   produced = the bytes the stream handed out; final_closes = Close() calls after Reset *)
| CMsg (mk : mkind) (k : skind) (bufsize budget cl : Z) (sendBody flush closer : bool)
       (hdr trailer data : bytes) (script : list rdop)
       (o : wobs) (attached : bool) (closes : N) (wire produced : bytes) (final_closes : N)
(* the same with a stream that implements BodyWriterTo: segs = the Write calls its WriteTo makes (empty ones
   included); support = SupportsBodyWriteTo().  next = a pipelined second message put behind the wire,
   dec = what the real reader made of wire ++ next (consumed counted from the end of the head) *)
| CMsgWT (mk : mkind) (support : bool) (bufsize budget cl : Z) (sendBody flush : bool)
         (hdr trailer : bytes) (segs : list bytes)
         (o : wobs) (attached : bool) (closes : N) (wire next : bytes) (dec : robs) (final_closes : N)
(* chunks written by the real writer, the wire it produced, and what the real reader made of wire ++ tail *)
| CRound (max : Z) (chunks : list bytes) (wire tail : bytes) (o : robs)
(* any bytes as a chunked body (cl = -1) through Response.ReadLimitBody / Request.ReadLimitBody *)
| CDecode (mk : mkind) (max : Z) (wire : bytes) (o : robs)
(* SetBodyStreamWriter: the body part of the wire, what the StreamWriter wrote, the real reader's decode, Close count *)
| CStreamWriter (mk : mkind) (wire_body produced : bytes) (o : robs)
(* life cycle: each step = operation, IsBodyStream() afterwards, Close() counts of all streams afterwards *)
| CLife (mk : mkind) (steps : list (lop * bool * list N))
(* a life cycle observed only at its end (RequestCtx inside a running Server): the operations and the final Close() counts *)
| CLifeEnd (mk : mkind) (ops : list lop) (final_counts : list N).

(* ---------------- helpers ---------------- *)
Definition wobs_of (w : bw) (r : wres) : wobs := mkWO (bw_out w) (blen (bw_buf w)) r.
Definition wobs_eqb (a b : wobs) : bool :=
  beq (wo_out a) (wo_out b) && (wo_buffered a =? wo_buffered b) && wres_eqb (wo_res a) (wo_res b).

Definition bw_start (bufsize budget : Z) (pre : bytes) : bw := fst (bw_write (bw_new bufsize budget) pre).

Definition robs_of (total : Z) (r : bres) : robs :=
  match r with
  | BOk d rest _ => ROk d (total - blen rest)
  | BErr e _ _ => RErr e
  | BPanic => RPanic
  | BOutOfFuel => RPanic
  end.
Definition robs_eqb (a b : robs) : bool :=
  match a, b with
  | ROk d1 c1, ROk d2 c2 => beq d1 d2 && (c1 =? c2)
  | RErr e1, RErr e2 => berr_eqb e1 e2
  | RPanic, RPanic => true
  | _, _ => false
  end.

Definition model_read_chunked (mk : mkind) (max : Z) (wire : bytes) : bres :=
  match mk with
  | MReq => reqReadBody trailer_reject (-1) max wire
  | MResp => respReadBody trailer_reject (-1) max 0 [] wire
  end.
(* a trailer with fields is outside Body.v (parseTrailer / headerScanner): such cases are not compared *)
Definition has_trailer_fields (r : bres) : bool :=
  match r with BErr ETrailer _ _ => true | _ => false end.

Fixpoint counts_match (ss : list sinfo) (cs : list N) : bool :=
  match ss, cs with
  | [], [] => true
  | s :: ss', c :: cs' =>
      ((si_count s =? c)%N
       (* the compressor goroutine closes the original stream at a moment the harness cannot see *)
       || (si_wrapped s && si_closer s && negb (si_goDone s) && (c =? 1)%N))
      && counts_match ss' cs'
  | _, _ => false
  end.

Fixpoint life_corr (mk : mkind) (st : lstate) (steps : list (lop * bool * list N)) : bool :=
  match steps with
  | [] => true
  | (o, att, cs) :: r =>
      match lstep mk st o with
      | None => false
      | Some st' => Bool.eqb (ls_attached st') att && counts_match (ls_streams st') cs && life_corr mk st' r
      end
  end.

Definition res_ok_b (r : wres) : bool := match r with WOk => true | _ => false end.

(* ---------------- correspondence ---------------- *)
Definition corr_ok (c : c34case) : bool :=
  match c with
  | CWChunk size budget pre b o =>
      let '(w, r) := writeChunk (bw_start size budget pre) b in wobs_eqb (wobs_of w r) o
  | CWChunked k size budget pre data script o =>
      let '(w, _, r) := writeBodyChunked k (bw_start size budget pre) (mkSS data script) in wobs_eqb (wobs_of w r) o
  | CWFixed k size budget sz pre data script o =>
      let '(w, _, r) := writeBodyFixedSize k (bw_start size budget pre) (mkSS data script) sz in wobs_eqb (wobs_of w r) o
  | CMsg mk k size budget cl sendBody flush closer hdr trailer data script o attached closes wire produced final_closes =>
      let out := match mk with
                 | MResp => respWriteBodyStream k hdr trailer cl sendBody flush (bw_new size budget) (mkSS data script)
                 | MReq => reqWriteBodyStream k hdr trailer cl (bw_new size budget) (mkSS data script)
                 end in
      wobs_eqb (wobs_of (ws_w out) (ws_res out)) o
      && Bool.eqb (negb (ws_closed out)) attached
      && (closes =? (if ws_closed out && closer then 1 else 0))%N
      && match k with KBytesReader => true | KReader => beq produced (btake (blen data - blen (ss_data (ws_s out))) data) end
  | CMsgWT mk support size budget cl sendBody flush hdr trailer segs o attached closes wire next dec final_closes =>
      let '(w, r, closed) :=
        if support then
          let '(w, r) := respWriteBodyStreamWT hdr trailer cl (match mk with MReq => true | MResp => sendBody end)
                                               (match mk with MReq => false | MResp => flush end) (bw_new size budget) segs in
          (w, r, true)
        else
          let out := match mk with
                     | MResp => respWriteBodyStream KReader hdr trailer cl sendBody flush (bw_new size budget) (mkSS (concat segs) [])
                     | MReq => reqWriteBodyStream KReader hdr trailer cl (bw_new size budget) (mkSS (concat segs) [])
                     end in
          (ws_w out, ws_res out, ws_closed out) in
      wobs_eqb (wobs_of w r) o
      && Bool.eqb (negb closed) attached
      && (closes =? (if closed then 1 else 0))%N
      && (if res_ok_b r && (budget <? 0) && (cl <? 0)
          then robs_eqb (robs_of (blen wire - blen hdr + blen next) (model_read_chunked mk 0 (skipn (length hdr) wire ++ next))) dec
          else true)
  | CRound max chunks wire tail o =>
      beq (enc_chunked_message chunks) wire
      && robs_eqb (robs_of (blen wire + blen tail) (respReadBody trailer_reject (-1) max 0 [] (wire ++ tail))) o
  | CDecode mk max wire o =>
      let r := model_read_chunked mk max wire in
      has_trailer_fields r || robs_eqb (robs_of (blen wire) r) o
  | CStreamWriter mk wire_body produced o =>
      let r := model_read_chunked mk 0 wire_body in
      robs_eqb (robs_of (blen wire_body) r) o
  | CLife mk steps => life_corr mk ls_init steps
  | CLifeEnd mk ops cs =>
      match lrun mk ls_init ops with
      | Some st => negb (ls_attached st) && counts_match (ls_streams st) cs
      | None => false
      end
  end.

(* ---------------- the property, judged on what the implementation did ---------------- *)
Definition res_ok (r : wres) : bool := match r with WOk => true | _ => false end.

(* all counts at most one; every stream but the attached one (always the newest) closed
   exactly once iff it is a Closer *)
Fixpoint exact_counts (closers : list bool) (cs : list N) (attached : bool) : bool :=
  match closers, cs with
  | [], [] => true
  | [c], [n] => if attached then (n <=? (if c then 1 else 0))%N else (n =? (if c then 1 else 0))%N
  | c :: cl, n :: cs' => (n =? (if c then 1 else 0))%N && exact_counts cl cs' attached
  | _, _ => false
  end.

Fixpoint life_prop (closers : list bool) (steps : list (lop * bool * list N)) : bool :=
  match steps with
  | [] => true
  | (o, att, cs) :: r =>
      let closers' := match o with LSetBodyStream c => closers ++ [c] | _ => closers end in
      exact_counts closers' cs att && life_prop closers' r
  end.

(* a fixed-size body copied through Read (plain reader, opted-out BodyWriterTo, ...): the body bytes handed to the
   connection (accepted by the target or still in the bufio.Writer) never exceed the declared size *)
Definition body_within (o : wobs) (before size : Z) : bool := blen (wo_out o) + wo_buffered o - before <=? size.

Definition prop_ok (c : c34case) : bool :=
  match c with
  | CWChunk _ _ _ _ _ => true
  | CWChunked k size budget pre data script o =>
      (* a successful chunked write to a healthy target decodes to the stream's bytes *)
      if res_ok (wo_res o) && (budget <? 0) then
        match dechunk (skipn (length pre) (wo_out o)) with
        | Some (body, rest) => beq body data && beq rest []
        | None => false
        end
      else true
  | CWFixed k size budget sz pre data script o =>
      match k with KReader => body_within o (blen pre) sz | KBytesReader => true end
  | CMsg mk k size budget cl sendBody flush closer hdr trailer data script o attached closes wire produced final_closes =>
      (final_closes =? (if closer then 1 else 0))%N
      && (closes <=? final_closes)%N
      && (match k with KReader => if cl >=? 0 then body_within o (blen hdr) cl else true | KBytesReader => true end)
      && (if res_ok (wo_res o) && (budget <? 0) && sendBody then
            let body := skipn (length hdr) wire in
            if cl >=? 0 then received_fixed_ok body produced
            else received_chunked_ok body produced
          else true)
  | CMsgWT mk support size budget cl sendBody flush hdr trailer segs o attached closes wire next dec final_closes =>
      (final_closes =? 1)%N && (closes <=? final_closes)%N
      (* opted OUT of WriteTo: copied through Read, so never more than the declared size (opted-in streams copy
         themselves and are C03's subject) *)
      && (if negb support && (cl >=? 0) then body_within o (blen hdr) cl else true)
      && (if res_ok (wo_res o) && (budget <? 0) && (sendBody || match mk with MReq => true | MResp => false end) then
            let body := skipn (length hdr) wire in
            if cl >=? 0 then received_fixed_ok body (concat segs)
            else
              (* the peer decodes the concatenation of the segments, and nothing but the (empty) trailer
                 section is left: the pipelined message behind it starts where it should *)
              match dechunk body with
              | Some (b, rest) => beq b (concat segs) && beq rest trailer
              | None => false
              end
              && robs_eqb dec (ROk (concat segs) (blen body))
          else true)
  | CRound max chunks wire tail o =>
      if (max <=? 0) || (blen (concat chunks) <=? max) then robs_eqb o (ROk (concat chunks) (blen wire)) else true
  | CDecode _ _ _ _ => true
  | CStreamWriter mk wire_body produced o =>
      received_chunked_ok wire_body produced && robs_eqb o (ROk produced (blen wire_body))
  | CLife mk steps => life_prop [] steps
  | CLifeEnd mk ops cs =>
      exact_counts (concat (map (fun o => match o with LSetBodyStream c => [c] | _ => [] end) ops)) cs false
  end.
