(* Case type and the two checks evaluated on harness cases for C35. *)
From FH Require Import Model.Base Gen.GenC35 Model.Multipart Spec.MultipartSpec.
Open Scope Z_scope.

Definition mf (name ctype data : bytes) : mfile := Build_mfile name ctype data.
Definition fm (vs : list (bytes * list bytes)) (fs : list (bytes * list mfile)) : mform := Build_mform vs fs.
Definition rq (mp clpos : bool) (files : list Z) (wf : bool) (len close : Z) (short : bool) (enc : Z) : reqd := Build_reqd mp clpos files wf len close short enc.
Definition sc (stream preparse : bool) : scfg := Build_scfg stream preparse.

Inductive c35case :=
(* WriteMultipartForm(form, boundary) = written (None: error), and what the real readMultipartForm
   (size = len(written)) made of it (None: error; keys sorted by the harness) *)
| CRound (b : bytes) (f : mform) (written : option bytes) (back : option mform)
(* readMultipartForm(input, boundary, size, _) on a hand-made / damaged body *)
| CRead (b : bytes) (size : Z) (input : bytes) (impl : option mform)
(* a form with files across the in-memory thresholds, written and read back by the real code; the
   comparison (lengths and SHA-256 of every value and file) is done on the Go side *)
| CBig (same : bool)
(* readMultipartForm(r, boundary, size, max_mem) / Request.Read called directly on a body with the given file
   part sizes, well-formed or not, with size (Content-Length) covering more bytes than r delivers or not:
   did it return a form, the TMPDIR listing right after the call, and after the owner of the form was reset
   (Request.Reset / ReleaseRequest / reading the next request into the same Request / Form.RemoveAll) *)
| CReadFiles (max_mem : Z) (sizes : list Z) (wf short : bool) (ok : bool) (remaining : list Z) (after_reset : list Z)
(* one connection: server options, the events, the TMPDIR listing (sorted sizes) after each event
   where it can be observed, files of earlier requests still present at each dispatch / after the
   close (not counting files owned by timed-out requests) *)
| CHist (c : scfg) (tr : list cevent) (obs : list (option (list Z))) (leftover : list Z).

(* all orders in which Go may iterate a map *)
Fixpoint insert_all {A} (x : A) (l : list A) : list (list A) :=
  match l with
  | [] => [[x]]
  | y :: r => (x :: l) :: map (cons y) (insert_all x r)
  end.
Fixpoint perms {A} (l : list A) : list (list A) :=
  match l with [] => [[]] | x :: r => flat_map (insert_all x) (perms r) end.

Definition write_opt (b : bytes) (f : mform) : option bytes :=
  match write_form b f with WOk o => Some o | _ => None end.

Definition written_matches (b : bytes) (f : mform) (w : option bytes) : bool :=
  match w with
  | None => match write_opt b f with None => true | Some _ => false end
  | Some o =>
      existsb (fun vs => existsb (fun fs => option_eqb beq (write_opt b (Build_mform vs fs)) (Some o))
                                 (perms (fm_files f))) (perms (fm_values f))
  end.

Definition oform_eqb (a b : option mform) : bool := option_eqb form_eqb a b.

Fixpoint sorted_insert (x : Z) (l : list Z) : list Z :=
  match l with [] => [x] | y :: r => if x <=? y then x :: l else y :: sorted_insert x r end.
Definition sortz (l : list Z) : list Z := fold_right sorted_insert [] l.

Fixpoint obs_match (m : list (option (list Z))) (o : list (option (list Z))) : bool :=
  match m, o with
  | [], [] => true
  | Some d :: m', Some d' :: o' => list_eqb Z.eqb (sortz d) d' && obs_match m' o'
  | Some _ :: m', None :: o' => obs_match m' o'            (* not observable at that point *)
  | _, _ => false
  end.

Definition corr_ok (x : c35case) : bool :=
  match x with
  | CRound b f w back =>
      written_matches b f w &&
      match w with
      | Some o => oform_eqb (read_form b (Z.of_nat (length o)) o) back
      | None => true
      end
  | CRead b size input impl => oform_eqb (read_form b size input) impl
  | CBig _ => true
  | CReadFiles mm sizes wf short ok lft _ =>
      let (f, disk) := rmf mm sizes wf short [] in
      Bool.eqb (match f with Some _ => true | None => false end) ok && list_eqb Z.eqb (sortz disk) lft
  | CHist c tr obs _ => obs_match (ctrace c cinit tr) obs
  end.

Definition prop_ok (x : c35case) : bool :=
  match x with
  | CRound b f w back =>
      (* in the domain of the theorem the form must come back; outside it nothing is claimed *)
      if valid_boundary b && form_ok b f then
        match w with Some _ => oform_eqb back (Some f) | None => false end
      else true
  | CRead _ _ _ _ => true
  | CBig same => same
  | CReadFiles _ _ _ _ ok lft after =>        (* an error leaves no file; Reset / ReleaseRequest / the next Read leaves none either *)
      (ok || match lft with [] => true | _ => false end) && match after with [] => true | _ => false end
  | CHist _ _ _ leftover => forallb (Z.eqb 0) leftover
  end.
