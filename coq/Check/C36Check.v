(* Case type and the checks evaluated on harness cases for C36 (fasthttpadaptor vs net/http). *)
From FH Require Import Model.Base Gen.GenC36 Spec.NetHttpRW Model.Adaptor.
Open Scope N_scope.

(* a response as read by the harness client: ok = a complete final response was parsed;
   fields grouped by (canonical) name, values in wire order *)
Record robs := { o_ok : bool; o_status : Z; o_fields : list (bytes * list bytes); o_body : bytes }.

(* an http.Request as produced by ConvertRequest / http.ReadRequest *)
Record cobs := {
  b_method : bytes; b_uri : bytes; b_url : bytes; b_proto : bytes; b_major : Z; b_minor : Z;
  b_host : bytes; b_hdr : list (bytes * list bytes); b_body : bytes
}.

Inductive c36case :=
(* part: 0 status, 1 handler-set fields, 2 body.  a = through NewFastHTTPHandler, n = through net/http's server *)
| CResp (part : N) (head : bool) (p : prog) (a n : robs)
(* part: 0 request line, 1 Host, 2 header "Host", 3 header pname, 4 all other headers, 5 body.
   refparse = url.ParseRequestURI(target).String(), refauth = the same for "http://"+target with the scheme removed
   (None = error).  a = ConvertRequest, n = http.ReadRequest (None = error) *)
| CConv (part : N) (pname : bytes) (q : sreq) (refparse refauth : option bytes) (a n : option cobs)
| CSkip.

(* compact literal for long runs of one byte in case files *)
Definition rep (c : N) (n : Z) : bytes := repeat c (Z.to_nat n).

Definition lookup (l : list (bytes * list bytes)) (n : bytes) : list bytes := h_get l n.
Definition vals_eqb (a b : list bytes) : bool := list_eqb beq a b.
Definition is_nil {A} (l : list A) : bool := match l with [] => true | _ => false end.

(* values the program ever supplies for header name n, as they would look on the wire *)
Definition prog_vals (p : prog) (n : bytes) : list bytes :=
  flat_map (fun o => match o with
                     | HAdd k v | HSet k v => if beq (canon k) n then [wire_val v] else []
                     | _ => [] end) p.
Definition leaks (p : prog) (n : bytes) (obs : list bytes) : bool :=
  existsb (fun v => existsb (beq v) (prog_vals p n)) obs.

(* Content-Type and Server are filled in by the servers themselves (default / sniffed) when the handler did not set them *)
Definition is_auto (n : bytes) : bool := beq n hdrContentType || beq n hdrServer.

(* model response m against an observed response o *)
Definition resp_match (p : prog) (m : mresp) (o : robs) : bool :=
  o_ok o && (m_status m =? o_status o)%Z && beq (m_body m) (o_body o)
  && forallb (fun n =>
       excluded_name n ||
       match f_get (m_fields m) n with
       | [] => if is_auto n then negb (leaks p n (lookup (o_fields o) n)) else is_nil (lookup (o_fields o) n)
       | vs => vals_eqb vs (lookup (o_fields o) n)
       end) (map fst (m_fields m) ++ map fst (o_fields o)).

Definition urlrep_str (u : urlrep) (refparse refauth : option bytes) : option bytes :=
  match u with UParse _ => refparse | UAuthority _ => refauth end.

Definition hdr_eq_names (a b : list (bytes * list bytes)) (skip : bytes -> bool) : bool :=
  forallb (fun n => skip n || vals_eqb (lookup a n) (lookup b n)) (map fst a ++ map fst b).

Definition conv_match (m : creq) (refparse refauth : option bytes) (o : option cobs) : bool :=
  match urlrep_str (c_url m) refparse refauth, o with
  | None, None => true
  | Some u, Some o =>
      beq (c_method m) (b_method o) && beq (c_uri m) (b_uri o) && beq u (b_url o) && beq (c_proto m) (b_proto o)
      && (c_major m =? b_major o)%Z && (c_minor m =? b_minor o)%Z && beq (c_host m) (b_host o)
      && hdr_eq_names (c_hdr m) (b_hdr o) (fun _ => false) && beq (c_body m) (b_body o)
  | _, _ => false
  end.

(* model = adaptor, and the spec = the real net/http (spec validation) *)
Definition corr_ok (c : c36case) : bool :=
  match c with
  | CResp _ head p a n =>
      negb (adaptor_panics p) && resp_match p (adaptor_resp head p) a && resp_match p (spec_resp head p) n
  | CConv _ _ q rp ra a n =>
      conv_match (convert_request q) rp ra a && conv_match (spec_read_request q) rp ra n
  | CSkip => true
  end.

(* names with their own header part (3) in conversion cases *)
Definition own_part_name (n : bytes) : bool :=
  beq n hdrHost || beq n hdrConnection || beq n hdrCookie || beq n hdrContentLength || beq n sCacheControl.

(* the property: adaptor = net/http on the compared projection *)
Definition prop_ok (c : c36case) : bool :=
  match c with
  | CResp part head p a n =>
      o_ok a && o_ok n &&
      match part with
      | 0 => (o_status a =? o_status n)%Z
      | 1 => forallb (fun nm =>
               excluded_name nm
               || (is_auto nm && is_nil (h_get (rw_frozen (rw_run p)) nm) && negb (leaks p nm (lookup (o_fields a) nm)))
               || vals_eqb (lookup (o_fields a) nm) (lookup (o_fields n) nm))
             (map fst (o_fields a) ++ map fst (o_fields n))
      | _ => beq (o_body a) (o_body n)
      end
  | CConv part pname q _ _ a n =>
      match a, n with
      | None, None => true
      | Some a, Some n =>
          match part with
          | 0 => beq (b_method a) (b_method n) && beq (b_uri a) (b_uri n) && beq (b_url a) (b_url n)
                 && beq (b_proto a) (b_proto n) && (b_major a =? b_major n)%Z && (b_minor a =? b_minor n)%Z
          | 1 => beq (b_host a) (b_host n)
          | 2 => vals_eqb (lookup (b_hdr a) hdrHost) (lookup (b_hdr n) hdrHost)
          | 3 => vals_eqb (lookup (b_hdr a) pname) (lookup (b_hdr n) pname)
          | 4 => hdr_eq_names (b_hdr a) (b_hdr n) own_part_name
          | _ => beq (b_body a) (b_body n)
          end
      | _, _ => false
      end
  | CSkip => true
  end.
