(* Case type and the two checks evaluated on harness cases for C38.

   Directed cases: a scenario (sequence of harness operations on a real PipelineClient with a scripted in-memory server) is replayed
   on the transition system of Model/Pipeline.v by a deterministic scheduler [settle] that fires enabled labels of [step] in a fixed
   priority order until quiescence (the harness waits for quiescence after every operation).  Compared: PendingRequests() after every
   operation and, per call, the result class and whether the server received the request. *)
From FH Require Import Model.Base Gen.GenC38 Model.Pipeline.
Open Scope N_scope.

Inductive op :=
| OCall (dl : option N)     (* DoDeadline with the deadline at logical tick dl / Do *)
| OReply (k : nat)          (* the server answers k more requests of the current connection *)
| OClose                    (* the server closes the current connection *)
| OAdvance (t : N)          (* let time pass until tick t *)
| OFinish                   (* the server answers everything from now on, on every connection (and accepts connections again) *)
| ORefuse                   (* from now on every dial fails (connection refused); the current connection is not touched *)
| OAccept.                  (* dials succeed again *)

(* environment of the scheduler: what the scripted server will do, and the writer's bufio.Writer:
   [unflushed] are requests written into the buffer and not yet flushed, [armed] says that flushTimerCh is set
   (writer: "if flushTimerCh == nil && (len(chW) == 0 || len(chR) == cap(chR))" after each write, and — since the fix — also before
   going idle with a non-empty buffer; the flush itself happens in the slow paths of the two selects).  The server only receives — and only answers — flushed requests. *)
Record env := { avail : nat; closed : bool; dirty : bool; auto : bool; delivered : list nat;
                unflushed : list nat; armed : bool;
                refusing : bool; dialfailed : bool }.

Definition env0 : env :=
  {| avail := 0; closed := false; dirty := false; auto := false; delivered := []; unflushed := []; armed := false;
     refusing := false; dialfailed := false |}.

Definition ids (s : st) : list nat := seq 0 (nitems s).

(* first caller step that is enabled, in call order (blocked channel senders are served in FIFO order) *)
Definition caller_label (s : st) : option label :=
  let try_id id :=
    let it := items s id in
    match i_pc it with
    | PWait => if reached (i_dl it) (now s) then Some (LWaitTimeout id)
               else match i_done it with Some _ => Some (LWaitDone id) | None => None end
    | PEnq => if reached (i_dl it) (now s) then Some (LEnqTimeout id)
              else if negb (full s (chW s)) then Some (LEnqOk id)
              else match i_dl it with None => Some (LSubst id) | Some _ => None end
    | PSubst => if full s (chW s) then Some (LSubstFail id) else Some (LEnqOk id)
    | _ => None
    end in
  fold_left (fun acc id => match acc with Some l => Some l | None => try_id id end) (ids s) None.

Definition mem (id : nat) (l : list nat) : bool := existsb (Nat.eqb id) l.

Definition next_label (s : st) (e : env) : option (label * env) :=
  match caller_label s with
  | Some l => Some (l, e)
  | None =>
    match md s with
    | Down => match nitems s with
              | O => None
              | _ =>
                if refusing e then
                  (if dialfailed e then None       (* the worker keeps retrying; nothing changes *)
                   else Some (LDial false, {| avail := avail e; closed := closed e; dirty := dirty e; auto := auto e; delivered := delivered e;
                                               unflushed := unflushed e; armed := armed e; refusing := true; dialfailed := true |}))
                else Some (LDial true, {| avail := if auto e then 1000%nat else 0%nat; closed := false; dirty := false;
                                           auto := auto e; delivered := delivered e; unflushed := []; armed := false; refusing := refusing e; dialfailed := dialfailed e |})
              end
    | _ =>
      (* reader *)
      match rd s, chR s with
      | RHold id, _ =>
          if closed e then Some (LRRead false, e)
          else if negb (mem id (delivered e)) then None          (* the server has not received this request *)
          else match avail e with
               | S k => Some (LRRead true, {| avail := k; closed := closed e; dirty := dirty e; auto := auto e;
                                               delivered := delivered e; unflushed := unflushed e; armed := armed e; refusing := refusing e; dialfailed := dialfailed e |})
               | O => None
               end
      | RIdle, _ :: _ => Some (LRPop, e)
      | _, _ => None
      end
    end
  end.

Definition flush (e : env) : env :=
  {| avail := avail e; closed := closed e; dirty := dirty e; auto := auto e;
     delivered := if closed e then delivered e else delivered e ++ unflushed e; unflushed := []; armed := false; refusing := refusing e; dialfailed := dialfailed e |}.

(* writer and teardown steps, tried when callers and reader are quiescent.  The result label is None for a pure buffer flush. *)
Definition next_label2 (s : st) (e : env) : option (option label * env) :=
  match md s with
  | Down => None
  | Up =>
      match wr s, chW s with
      | WHold _, _ => if full s (chR s) then (if armed e then Some (None, flush e) else None)      (* againChR slow path *)
                      else Some (Some LWPush, e)
      | WIdle, id :: rest =>
          let expired := reached (i_dl (items s id)) (now s) in
          if expired then Some (Some (LWPop true), e)
          else
            let arm := armed e || (match rest with [] => true | _ => false end) || full s (chR s) in
            Some (Some (LWPop true),
                  {| avail := avail e; closed := closed e; dirty := closed e; auto := auto e; delivered := delivered e;
                     unflushed := unflushed e ++ [id]; armed := arm; refusing := refusing e; dialfailed := dialfailed e |})
      | WIdle, [] =>
          (* againChW slow path: "if flushTimerCh == nil && bw.Buffered() > 0" arms the flush before the select, so unflushed data
             is flushed whether or not a write armed it (before commit 1c25925 only [armed e] flushed here and a request written
             in front of items that then expired stayed in the buffer for ever) *)
          if armed e || (match unflushed e with [] => false | _ => true end) then Some (None, flush e)
                     else if closed e && dirty e then Some (Some LWExit, e) else None
      | WDown, _ => None
      end
  | Stopping =>
      match wr s with
      | WDown =>
          match rd s, chR s with
          | RIdle, [] => Some (Some LRExit, e)
          | RDown, _ :: _ => Some (Some LDrainOne, e)
          | RDown, [] => Some (Some LDrainEnd, e)
          | _, _ => None
          end
      | _ => Some (Some LWExit, e)
      end
  end.

Fixpoint settle (fuel : nat) (s : st) (e : env) : option (st * env) :=
  match fuel with
  | O => None
  | S f =>
      match next_label s e with
      | Some (l, e1) => match step s l with Some s1 => settle f s1 e1 | None => None end
      | None =>
          match next_label2 s e with
          | Some (Some l, e1) => match step s l with Some s1 => settle f s1 e1 | None => None end
          | Some (None, e1) => settle f s e1
          | None => Some (s, e)
          end
      end
  end.

Definition FUEL : nat := 2000.

Fixpoint advance (n : nat) (t : N) (s : st) (e : env) : option (st * env) :=
  match n with
  | O => None
  | S k => if t <=? now s then Some (s, e)
           else match step s LTick with
                | Some s1 => match settle FUEL s1 e with Some (s2, e2) => advance k t s2 e2 | None => None end
                | None => None
                end
  end.

Definition do_op (s : st) (e : env) (o : op) : option (st * env) :=
  match o with
  | OCall dl => match step s (LCall dl) with Some s1 => settle FUEL s1 e | None => None end
  | OReply k => settle FUEL s {| avail := avail e + k; closed := closed e; dirty := dirty e; auto := auto e; delivered := delivered e;
                                 unflushed := unflushed e; armed := armed e; refusing := refusing e; dialfailed := dialfailed e |}
  | OClose => settle FUEL s {| avail := 0; closed := true; dirty := false; auto := auto e; delivered := delivered e;
                               unflushed := unflushed e; armed := armed e; refusing := refusing e; dialfailed := dialfailed e |}
  | OAdvance t => advance 64 t s e
  | ORefuse => settle FUEL s {| avail := avail e; closed := closed e; dirty := dirty e; auto := auto e; delivered := delivered e;
                                unflushed := unflushed e; armed := armed e; refusing := true; dialfailed := false |}
  | OAccept => settle FUEL s {| avail := avail e; closed := closed e; dirty := dirty e; auto := auto e; delivered := delivered e;
                                unflushed := unflushed e; armed := armed e; refusing := false; dialfailed := false |}
  | OFinish => settle FUEL s {| avail := if closed e then avail e else 1000%nat; closed := closed e; dirty := dirty e; auto := true;
                                delivered := delivered e; unflushed := unflushed e; armed := armed e; refusing := false; dialfailed := false |}
  end.

(* run a scenario; collect |chW| + |chR| (= PendingRequests()) after every operation *)
Fixpoint run_ops (s : st) (e : env) (ops : list op) (pend : list N) : option (st * env * list N) :=
  match ops with
  | [] => Some (s, e, rev pend)
  | o :: rest =>
      match do_op s e o with
      | Some (s1, e1) => run_ops s1 e1 rest (N.of_nat (length (chW s1) + length (chR s1)) :: pend)
      | None => None
      end
  end.

Definition class_code (r : result) : N :=
  match r with RResp => 0 | RTimeout => 1 | ROverflow => 2 | RConnErr => 3 end.

(* per call: (class, server saw the request) — 8 = the call has not returned *)
Definition model_results (s : st) (e : env) : list (N * bool) :=
  map (fun id => (match i_pc (items s id) with PRet r _ => class_code r | _ => 8 end,
                  existsb (Nat.eqb id) (delivered e))) (ids s).

Record callobs := { co_deadline : bool; co_class : N; co_seen : bool; co_late : N (* ms after the deadline *); co_echo : bool }.

Inductive c38case :=
| C38Dir (cap : nat) (ops : list op) (pend : list N) (stall : N) (res : list callobs)
| C38Stress (cap : nat) (conns : nat) (maxpend : N) (stall : N) (res : list callobs)
| C38Cap (maxPending : Z) (implCapW implCapR : N).

Definition nb_eqb (a b : N * bool) : bool := (fst a =? fst b) && Bool.eqb (snd a) (snd b).

Definition corr_ok (c : c38case) : bool :=
  match c with
  | C38Dir cap ops pend _ res =>
      match run_ops (init cap) env0 ops [] with
      | Some (s, e, mp) =>
          list_eqb N.eqb mp pend
          && list_eqb nb_eqb (model_results s e) (map (fun o => (co_class o, co_seen o)) res)
      | None => false
      end
  | C38Stress _ _ _ _ _ => true
  | C38Cap mp w r => let c := N.of_nat (eff_cap mp DefaultMaxPendingRequests) in (c =? w) && (c =? r)
  end.

(* ---- the property on the implementation's observation ------------------------------------------------------------- *)
Definition SLACK_MS : N := 150.

(* [stall]: the largest lateness (ms, rounded up) the machine imposed on a trivial 2 ms timer loop during the run: measured scheduling
   slack, added to the fixed allowance.  Do calls (no deadline) may wait forever: only what they returned, if anything, is judged. *)
Definition call_ok (stall : N) (o : callobs) : bool :=
  (* returned by its deadline plus slack, with its response, ErrTimeout, ErrPipelineOverflow or a connection error (deadline calls) *)
  (if co_deadline o then (co_late o <=? SLACK_MS + stall) && (co_class o <=? 3) else true)
  && (if co_class o =? 0 then co_echo o else true)
  (* overflow => never transmitted *)
  && (if co_class o =? 2 then negb (co_seen o) else true).

Definition prop_ok (c : c38case) : bool :=
  match c with
  | C38Dir cap _ pend stall res => forallb (call_ok stall) res && forallb (fun p => p <=? 2 * N.of_nat cap) pend
  | C38Stress cap conns maxpend stall res => forallb (call_ok stall) res && (maxpend <=? 2 * N.of_nat cap * N.of_nat conns)
  | C38Cap mp w r => (w =? r) && (if (0 <? mp)%Z then w =? Z.to_N mp else true)
  end.
