(* Case type and the two checks evaluated on harness histories for C39. *)
From FH Require Import Model.Base Gen.GenC39 Model.Prefork Spec.PreforkSpec.
Open Scope Z_scope.

(* One history of the real Prefork.prefork driven through the CommandProducer seam:
   configuration, ShutdownGracePeriod and RecoverInterval (ns), the observed label sequence
   (master-side labels in observation order; child deaths/reaps placed by the harness from the
   children's wait statuses), the returned error class (None = did not return in time), the
   fate of every started child, the number of tagged processes found in /proc after the return,
   the duration of the teardown (ns), and per processed exit (minimal lifetime, start-to-processing) in ns. *)
Inductive c39case :=
| C39 (c : cfg) (grace_ns ri_ns : Z) (tr : list event) (ret : option err) (ks : list kobs)
      (tagged_left : Z) (teardown_ns : Z) (lifes : list (Z * Z)).

Definition mkcfg (g : Z) (t : Z) (b hs hr hc : bool) : cfg := Build_cfg (Z.to_nat g) t b hs hr hc.
Definition ko (pid : Z) (reaped lft : bool) (c : cause) (ts : option bool) : kobs := Build_kobs pid reaped lft c ts.

Definition is_reaped (k : kid) : bool := match os k with Reaped => true | _ => false end.

(* the model's account of one child against the observed one *)
Definition kid_corr (k : kid) (o : kobs) : bool :=
  (cpid k =? o_pid o) && Bool.eqb (is_reaped k) (o_reaped o) &&
  match o_cause o with
  | CTerm => sig k
  | CKill => kil k
  | _ => true
  end.

Fixpoint forallb2 {A B} (f : A -> B -> bool) (a : list A) (b : list B) : bool :=
  match a, b with
  | [], [] => true
  | x :: a', y :: b' => f x y && forallb2 f a' b'
  | _, _ => false
  end.

(* the model accepts the observed label sequence, ends in the same place, and agrees on every child *)
Definition corr_ok (x : c39case) : bool :=
  match x with
  | C39 c _ _ tr ret ks _ _ _ =>
      match run c (init c) tr with
      | None => false
      | Some s =>
          forallb2 kid_corr (kids s) ks &&
          match ph s, ret with
          | PReturned e, Some e' => err_eqb e e'
          | PReturned _, None => false
          | _, Some _ => false
          | _, None => true
          end
      end
  end.

(* the property, judged on what the implementation did *)
Definition prop_ok (x : c39case) : bool :=
  match x with
  | C39 c grace ri tr ret ks nleft tdn lifes =>
      match ret with
      | None => false                                   (* prefork must return on these histories *)
      | Some e =>
          over_recovery_ok c tr e
          && supervised c tr
          && forallb kid_done ks
          && (nleft =? 0)
          && grace_respected grace tdn ks
          && interval_respected ri lifes
      end
  end.
