(* Case type and the two checks evaluated on harness cases for C40. *)
From FH Require Import Model.Base Gen.GenC40 Model.LB Spec.LBSpec.
Open Scope Z_scope.

Inductive lbop :=
| OCall (pend : list Z) (healthy : bool)   (* one complete call; pend = PendingRequests() of every fake client, by identity;
                                              healthy = what isHealthy says about the result (whichever client serves it) *)
| OBegin (pend : list Z)                    (* a call enters: get() chooses a client and the call blocks inside that client *)
| OEnd (tid : nat) (healthy : bool)        (* the blocked call number tid (calls are numbered from 0) returns with this verdict *)
| OAdd                                     (* AddClient(fresh fake): its identity is the next unused number *)
| ORemove (rm : list nat)                  (* RemoveClients(callback true exactly for these identities) *)
| OAt (t : Z).                             (* wait until (logical) time t, in ns since the start *)

Inductive c40case :=
(* a sequential history on an LBClient constructed with n0 Clients; after every operation what the harness observed *)
| CHist (n0 : nat) (ops : list (lbop * obs))
(* a concurrent burst (finished well inside penaltyDuration): per client calls served, unhealthy results, final penalty, final total *)
| CStress (bad : Z) (calls fails pens tots : list Z).   (* bad = panics + results that are neither nil, the fake's error nor ErrNoAvailableClients *)

Definition Ob (ids : list nat) (pens tots : list Z) (choice : option nat) (err : N) : obs := mkObs ids pens tots choice err.

Definition apply_op (s : state) (op : lbop) : option (state * option nat * N) :=
  match op with
  | OCall pend healthy =>
      let ext := map (fun id => nth id pend 0) (do_init s) in
      match steps s (call_labels s ext healthy) with
      | Some s' =>
          match log s' with
          | EChosen _ c :: _ => Some (s', Some c, 0%N)
          | ENoClients _ :: _ => Some (s', None, 1%N)
          | [] => None
          end
      | None => None
      end
  | OBegin pend =>
      let ext := map (fun id => nth id pend 0) (do_init s) in
      match step s (LGet ext) with
      | Some s' =>
          match log s' with
          | EChosen _ c :: _ => Some (s', Some c, 0%N)
          | ENoClients _ :: _ => Some (s', None, 1%N)
          | [] => None
          end
      | None => None
      end
  | OEnd tid healthy =>
      match get_thread s tid with
      | Some (PCall c) =>
          match steps s (finish_labels s tid healthy) with
          | Some s' => Some (s', Some c, 0%N)
          | None => None
          end
      | _ => None
      end
  | OAdd => match step s LAdd with Some s' => Some (s', None, 0%N) | None => None end
  | ORemove rm =>
      match step s (LRemove (map (fun id => existsb (Nat.eqb id) rm) (cs s))) with
      | Some s' => Some (s', None, 0%N) | None => None end
  | OAt t => match advance s t with Some s' => Some (s', None, 0%N) | None => None end
  end.

Definition obs_matches (s : state) (choice : option nat) (err : N) (o : obs) : bool :=
  list_eqb Nat.eqb (cs s) (o_ids o) &&
  list_eqb Z.eqb (map (fun c => c_pen (getc s c)) (cs s)) (o_pens o) &&
  list_eqb Z.eqb (map (fun c => c_tot (getc s c)) (cs s)) (o_tots o) &&
  option_eqb Nat.eqb choice (o_choice o) && (err =? o_err o)%N.

Fixpoint replay (s : state) (ops : list (lbop * obs)) : bool :=
  match ops with
  | [] => true
  | (op, o) :: r =>
      match apply_op s op with
      | Some (s', choice, err) => obs_matches s' choice err o && replay s' r
      | None => false
      end
  end.

Definition corr_ok (c : c40case) : bool :=
  match c with
  | CHist n0 ops => replay (init_state n0) ops
  | CStress bad calls fails pens tots =>
      (bad =? 0) &&
      (* no timer can have fired: every unhealthy result up to maxPenalty is a live penalty, the rest counted as completed *)
      list_eqb Z.eqb pens (map (fun f => Z.min maxPenalty f) fails) &&
      list_eqb Z.eqb tots (map (fun p => fst p - Z.min maxPenalty (snd p)) (combine calls fails))
  end.

(* ---- the property, judged on the observations alone ---------------------------------------------------------- *)
Definition set_last (lf : list (nat * Z)) (id : nat) (t : Z) : list (nat * Z) :=
  (id, t) :: filter (fun p => negb (fst p =? id)%nat) lf.

(* members / nextid: the membership implied by the API calls alone (identities are handed out in creation order).
   conf: the Clients configured at construction that have not joined yet — they join at the first request (that is when
   LBClient reads its Clients field), so a RemoveClients before the first request only acts on clients registered with
   AddClient.  (Under the stricter reading "configured Clients are members from construction on" the unchanged code fails:
   RemoveClients before the first request does not remove them — reported as a candidate finding, not judged here.) *)
Fixpoint judge (members conf : list nat) (nextid : nat) (prev : obs) (lastfail : list (nat * Z)) (nowt : Z) (ops : list (lbop * obs)) : bool :=
  match ops with
  | [] => true
  | (op, cur) :: r =>
      bound_ok cur &&
      match op with
      | OCall pend healthy =>
          let members := members ++ conf in
          route_ok pend prev cur && route_members_ok members pend prev cur &&
          judge members [] nextid cur (match o_choice cur with
                     | Some id => if healthy then lastfail else set_last lastfail id nowt
                     | None => lastfail end) nowt r
      | OBegin pend =>
          let members := members ++ conf in
          route_ok pend prev cur && route_members_ok members pend prev cur && judge members [] nextid cur lastfail nowt r
      | OEnd _ healthy =>
          judge members conf nextid cur (match o_choice cur with
                     | Some id => if healthy then lastfail else set_last lastfail id nowt
                     | None => lastfail end) nowt r
      | OAt t => expiry_ok lastfail t cur && judge members conf nextid cur lastfail t r
      | OAdd => judge (members ++ [nextid]) conf (S nextid) cur lastfail nowt r
      | ORemove rm => judge (filter (fun c => negb (existsb (Nat.eqb c) rm)) members) conf nextid cur lastfail nowt r
      end
  end.

Definition prop_ok (c : c40case) : bool :=
  match c with
  | CHist n0 ops => judge [] (seq 0 n0) n0 (mkObs [] [] [] None 0%N) [] 0 ops
  | CStress bad calls fails pens tots => (bad =? 0) && forallb (fun p => (0 <=? p) && (p <=? spec_max_penalty)) pens
  end.
