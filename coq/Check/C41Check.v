(* Case type and the two checks evaluated on harness cases for C41. *)
From FH Require Import Model.Base Gen.GenC41 Model.Dialer Spec.DialerSpec.
Open Scope N_scope.

(* a phase: what every address does, an optional forced value of e.addrsIdx (through the verif export),
   Dial calls started at the given offsets (ms since the start of the phase; thread id, timeout in ms),
   and what each returned *)
Record phase := mkPh {
  ph_oracle : list outcome;
  ph_setidx : option N;
  ph_renew : option N;                (* Some n: the cache entry was dropped (FlushDNSCache / expiry) before the phase and the
                                         Resolver now returns n addresses: fresh entry, counter 0 *)
  ph_res : rmode;                     (* what the Resolver does if it is consulted during the phase *)
  ph_starts : list (N * N * N);       (* offset, thread, timeout *)
  ph_results : list dobs
}.

Inductive c41case :=
| CDial (capn n : N) (phases : list phase)
| CStress (capn n to maxin : N) (accepting : bool) (rs : list (oxres * N))
| CConsts (default_timeout_ms dns_cache_ms : N)
| CUnstable.   (* the scenario was disturbed by machine load on every attempt (independent canary): dropped, judges nothing *)

Definition is_nil {A} (l : list A) : bool := match l with [] => true | _ => false end.

Definition xres_eqb (a b : xres) : bool :=
  match a, b with
  | XOk x, XOk y | XTimeout x, XTimeout y | XErr x, XErr y => x =? y
  | XResolveErr, XResolveErr => true
  | _, _ => false
  end.

Definition threads_of (p : phase) : list N := map (fun x => snd (fst x)) (ph_starts p).

(* start the Dial calls in order, letting time pass up to each start offset, then run to completion *)
Fixpoint run_starts (c : dcfg) (s : dstate) (oracle : N -> outcome) (rm : rmode) (ts : list N) (t0 : N) (starts : list (N * N * N)) : dstate :=
  match starts with
  | [] => sim c 400 s oracle rm ts
  | (off, t, to) :: rest =>
      let s1 := sim_until c 400 s oracle rm ts (t0 + off) in
      let s2 := match dstep c s1 (LTick (t0 + off - clock s1)) with Some x => x | None => s1 end in
      let s3 := match dstep c s2 (LStart t to) with Some x => x | None => s2 end in
      run_starts c s3 oracle rm ts t0 rest
  end.
Definition phase_cfg (c : dcfg) (p : phase) : dcfg :=
  match ph_renew p with Some n' => mkCfg (cap c) n' | None => c end.
(* the Resolver is consulted only when there is no usable cache entry *)
Definition eff_res (has_entry : bool) (p : phase) : rmode :=
  match ph_renew p with
  | Some _ => ph_res p
  | None => if has_entry then RGood else ph_res p
  end.
Definition entry_after (has_entry : bool) (p : phase) : bool :=
  match eff_res has_entry p with
  | RGood => match ph_renew p with Some _ => negb (is_nil (ph_starts p)) | None => has_entry || negb (is_nil (ph_starts p)) end
  | _ => false
  end.
Definition run_phase (c : dcfg) (s : dstate) (has_entry : bool) (p : phase) : dstate :=
  let s0 := match ph_renew p with Some _ => mkDS (sem s) 0 (clock s) (tp s) (inprog s) | None => s end in
  let s1 := match ph_setidx p with Some v => mkDS (sem s0) v (clock s0) (tp s0) (inprog s0) | None => s0 end in
  run_starts (phase_cfg c p) s1 (oracle_of (ph_oracle p)) (eff_res has_entry p) (threads_of p) (clock s1) (ph_starts p).

Definition result_of (s : dstate) (t : N) : option xres :=
  match tp s t with TDone r _ _ _ _ => Some r | _ => None end.
(* logical duration of the dial in the run of the transition system (ms): return time - (deadline - timeout) *)
Definition elapsed_of (s : dstate) (t to : N) : option N :=
  match tp s t with TDone _ dl _ _ at_ => Some (at_ - (dl - to)) | _ => None end.
Definition close_ms (a b : N) : bool := (a <=? b + slack_ms) && (b <=? a + slack_ms).

Fixpoint dial_corr (c : dcfg) (s : dstate) (has_entry : bool) (phases : list phase) : bool :=
  match phases with
  | [] => true
  | p :: rest =>
      let s' := run_phase c s has_entry p in
      forallb (fun d : dobs => match d with
                           | (t, to, Ret r, el) => option_eqb xres_eqb (result_of s' t) (Some r) &&
                                                   match elapsed_of s' t to with Some m => close_ms m el | None => false end
                           | (_, _, Stuck, _) => false    (* every dial of the transition system run returns *)
                           end) (ph_results p)
      && (sem s' =? 0) && dial_corr (phase_cfg c p) s' (entry_after has_entry p) rest
  end.

(* every invariant / consequence of the transition system that the concurrent run can show *)
Definition stress_corr (capn n to maxin : N) (accepting : bool) (rs : list (oxres * N)) : bool :=
  ((capn =? 0) || (maxin <=? capn)) &&
  forallb (fun r => match fst r with
                    | Ret (XOk a) => accepting && (a <? n)
                    | Ret (XTimeout a) => negb accepting && (a <? n)
                    | Ret (XErr _) => false
                    | Ret XResolveErr => false
                    | Stuck => false end) rs.

Definition corr_ok (c : c41case) : bool :=
  match c with
  | CDial capn n phases => dial_corr (mkCfg capn n) dsinit false phases
  | CStress capn n to maxin acc rs => stress_corr capn n to maxin acc rs
  | CConsts dt dc => (Z.of_N dt * 1000000 =? DefaultDialTimeout)%Z && (Z.of_N dc * 1000000 =? DefaultDNSCacheDuration)%Z
  | CUnstable => true
  end.

Definition prop_ok (c : c41case) : bool :=
  match c with
  | CDial capn n phases => forallb (fun p => forallb (dial_ok (ph_oracle p) (ph_res p)) (ph_results p)) phases
  | CStress capn n to maxin acc rs => stress_dial_ok capn to maxin acc rs
  | CConsts _ _ => true
  | CUnstable => true
  end.
