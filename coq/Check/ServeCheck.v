(* ServeCheck.v — shared by C10Check / C14Check / C17Check: how a harness case is turned into the inputs of
   Model/Serve.v, and projections of the model's event trace to what a harness can observe. *)
From FH Require Import Model.Base Gen.GenC10 Model.ReqHead Model.ConnOpt Model.Serve Model.ServeInst Spec.ServeSpec.
Open Scope nat_scope.

Definition mk_scfg (rm sb dk cos kh : bool) (maxr : N) (x : expect_mode) : scfg :=
  {| reduce_mem := rm; stream_body := sb; disable_keepalive := dk; close_on_shutdown := cos;
     keep_hijacked := kh; max_reqs := maxr; xmode := x |}.

Definition nth_req {A} (num : N) (l : list A) (d : A) : A := nth (N.to_nat num - 1) l d.

(* ops: handler operations per request; xst: ExpectHandler status per request (100 = continue; the
   ContinueHandler says yes iff 100); stop: s.stop reads 1 from the handler of this request on *)
(* gone: Shutdown closed the connection as idle just as the first byte of this request arrived *)
Definition mk_env_gone (ops : list (list hop)) (xst : list Z) (stop gone : option N) : env :=
  {| handler := fun num _ => nth_req num ops [];
     expect_status := fun num _ => nth_req num xst 100%Z;
     continue_ok := fun num _ => Z.eqb (nth_req num xst 100%Z) 100%Z;
     stop_at_close := fun num => match stop with Some k => (k <=? num)%N | None => false end;
     stop_at_idle := fun num => match stop with Some k => (k <=? num)%N | None => false end;
     gone_at_start := fun num => match gone with Some k => (k =? num)%N | None => false end |}.

Definition mk_env (ops : list (list hop)) (xst : list Z) (stop : option N) : env :=
  {| handler := fun num _ => nth_req num ops [];
     expect_status := fun num _ => nth_req num xst 100%Z;
     continue_ok := fun num _ => Z.eqb (nth_req num xst 100%Z) 100%Z;
     stop_at_close := fun num => match stop with Some k => (k <=? num)%N | None => false end;
     stop_at_idle := fun num => match stop with Some k => (k <=? num)%N | None => false end;
     gone_at_start := fun _ => false |}.

(* ReadBufferSize 4096 (default), MaxRequestBodySize default 4 MiB *)
Definition the_framer : framer := inst_framer default_cfg 4096%N (4 * 1024 * 1024)%Z.

Definition run (en : entry) (ad : admission) (cfg : scfg) (ops : list (list hop)) (xst : list Z) (stop : option N)
           (cs : list bytes) (t : tail) : list event :=
  serve_conn the_framer cfg (mk_env ops xst stop) en ad {| buf := []; chunks := cs; tl := t |}.

Definition run_full (en : entry) (ad : admission) (cfg : scfg) (ops : list (list hop)) (xst : list Z) (stop gone : option N)
           (cs : list bytes) (t : tail) : list event :=
  serve_conn the_framer cfg (mk_env_gone ops xst stop gone) en ad {| buf := []; chunks := cs; tl := t |}.
Definition run_gone (en : entry) (ad : admission) (cfg : scfg) (ops : list (list hop)) (gone : option N)
           (cs : list bytes) (t : tail) : list event := run_full en ad cfg ops [] None gone cs t.

(* ---- projections ---- *)
Definition state_eqb (a b : conn_state) : bool :=
  match a, b with
  | StNew, StNew | StActive, StActive | StIdle, StIdle | StHijacked, StHijacked | StClosed, StClosed => true
  | _, _ => false
  end.

(* responses that reached the wire, in order: (status, Connection values) *)
Fixpoint wire_from (pend : list resp) (evs : list event) : list resp :=
  match evs with
  | [] => []
  | Resp r :: rest => wire_from (pend ++ [r]) rest
  | Flush :: rest => pend ++ wire_from [] rest
  | Drop :: rest => wire_from [] rest
  | _ :: rest => wire_from pend rest
  end.
Definition wire (evs : list event) : list (Z * list bytes) :=
  map (fun r => (r_status r, r_conn r)) (wire_from [] evs).

Definition server_closed (evs : list event) : bool :=
  existsb (fun e => match e with Close | HijackClose => true | _ => false end) evs.

Definition dispatched (evs : list event) : list bytes :=
  flat_map (fun e => match e with Dispatch _ q => [q_tag q] | _ => [] end) evs.

Definition hijack_of (evs : list event) : option (hj_src * bytes * list bytes) :=
  match filter is_hijack_ev evs with
  | HijackEv s b cs :: _ => Some (s, b, cs)
  | _ => None
  end.

Definition resp_eqb (a b : Z * list bytes) : bool := Z.eqb (fst a) (fst b) && list_eqb beq (snd a) (snd b).
