(* Model/Adaptor.v — executable model of fasthttpadaptor as it is in /repo (C36).
     fasthttpadaptor/adaptor.go : NewFastHTTPHandler, writer.{Header,WriteHeader,Write,Flush,status,consumePreflush}
     fasthttpadaptor/request.go : ConvertRequest
     header.go                  : ResponseHeader.AddBytesKV / setSpecialHeader / AppendBytes / mustSkipContentLength,
                                  RequestHeader.parseHeaders / All (as far as ConvertRequest observes them)
   The handler-program vocabulary (op) and http.Header (hmap: the adaptor's writer.h IS a net/http http.Header)
   come from Spec/NetHttpRW.v.  Domain: header names that are tokens; Hijack is not modelled. *)
From FH Require Import Model.Base Gen.GenC36 Spec.NetHttpRW.
Open Scope N_scope.

(* ------------------------------------------------------------------ *)
(* writer: the http.ResponseWriter handed to the net/http handler (as of 8ad8bae).
   w_committed : set once by commit (commitOnce): the status code given (0 = none: status() picks the default) and
                 the snapshot writer.frozen of the header map
   w_h         : writer.h (the live map)
   w_buf       : writer.responseBody (bytes written before the first Flush)
   w_flushed   : the first Flush happened: the fasthttp goroutine copied status() and committedHeader() into
                 ctx.Response while the handler was blocked in Flush (modeFlushed branch)
   w_pipe      : bytes written to the io.Pipe after streamReady was closed
   w_panic     : WriteHeader panicked (invalid code) *)
Record wstate := {
  w_committed : option (Z * hmap); w_h : hmap; w_buf : bytes;
  w_flushed : bool;
  w_pipe : bytes; w_panic : bool
}.
Definition w_init : wstate :=
  {| w_committed := None; w_h := []; w_buf := []; w_flushed := false; w_pipe := []; w_panic := false |}.

(* writer.commit(code): only the first call has an effect *)
Definition w_commit (w : wstate) (c : Z) : wstate :=
  match w_committed w with
  | Some _ => w
  | None => {| w_committed := Some (c, w_h w); w_h := w_h w; w_buf := w_buf w; w_flushed := w_flushed w; w_pipe := w_pipe w; w_panic := w_panic w |}
  end.

(* modeFlushed: "No Content-Length when streaming": the key is compared with == on the canonical key *)
Definition drop_content_length (h : hmap) : hmap := h_del h hdrContentLength.

Definition w_step (w : wstate) (o : op) : wstate :=
  if w_panic w then w else
  match o with
  | WriteHeader c =>
      if ((c <? 100) || (c >? 999))%Z then
        {| w_committed := w_committed w; w_h := w_h w; w_buf := w_buf w; w_flushed := w_flushed w; w_pipe := w_pipe w; w_panic := true |}
      else if ((100 <=? c) && (c <=? 199) && negb (c =? StatusSwitchingProtocols))%Z then w
      else w_commit w c
  | Write b =>
      let w' := w_commit w 0%Z in
      if w_flushed w'
      then {| w_committed := w_committed w'; w_h := w_h w'; w_buf := w_buf w'; w_flushed := true; w_pipe := w_pipe w' ++ b; w_panic := false |}
      else {| w_committed := w_committed w'; w_h := w_h w'; w_buf := w_buf w' ++ b; w_flushed := false; w_pipe := w_pipe w'; w_panic := false |}
  | Flush =>
      let w' := w_commit w 0%Z in
      {| w_committed := w_committed w'; w_h := w_h w'; w_buf := w_buf w'; w_flushed := true; w_pipe := w_pipe w'; w_panic := false |}
  | _ => {| w_committed := w_committed w; w_h := hdr_step (w_h w) o; w_buf := w_buf w; w_flushed := w_flushed w; w_pipe := w_pipe w; w_panic := false |}
  end.

Definition w_run (p : prog) : wstate := fold_left w_step p w_init.

(* writer.status: the committed code, or (code 0 / never committed) the ctx status, which is StatusOK for a fresh RequestCtx *)
Definition w_out_status (w : wstate) : Z :=
  match w_committed w with Some (c, _) => if (c =? 0)%Z then StatusOK else c | None => StatusOK end.
(* committedHeader(), without Content-Length when streaming *)
Definition w_out_hdr (w : wstate) : hmap :=
  match w_committed w with
  | Some (_, fh) => if w_flushed w then drop_content_length fh else fh
  | None => w_h w
  end.
(* modeDone: responseBody; modeFlushed: pre-flush bytes then everything read from the pipe *)
Definition w_out_body (w : wstate) : bytes := if w_flushed w then w_buf w ++ w_pipe w else w_buf w.

(* ------------------------------------------------------------------ *)
(* hasHeaderValue: headerValueScanner cuts at commas, stripSpace removes SP / HTAB at both ends (c40b715),
   caseInsensitiveCompare ignores bit 0x20 *)
Fixpoint split_comma_acc (s cur : bytes) : list bytes :=
  match s with
  | [] => [rev cur]
  | c :: r => if c =? COMMA then rev cur :: split_comma_acc r [] else split_comma_acc r (c :: cur)
  end.
Definition split_comma (s : bytes) : list bytes := split_comma_acc s [].
Fixpoint strip_left_sp (s : bytes) : bytes :=
  match s with
  | c :: r => if (c =? SP) || (c =? HT) then strip_left_sp r else s
  | [] => []
  end.
Definition strip_space (s : bytes) : bytes := rev (strip_left_sp (rev (strip_left_sp s))).
Definition has_header_value (v tok : bytes) : bool :=
  existsb (fun e => ieq (strip_space e) tok) (split_comma v).

(* ------------------------------------------------------------------ *)
(* fasthttp ResponseHeader as the adaptor drives it: AddBytesKV per (key, value). *)
Record fhdr := {
  f_ct : bytes; f_ce : bytes; f_server : bytes;
  f_h : list (bytes * bytes);      (* h.h *)
  f_cookies : list bytes           (* h.cookies (values) *)
}.
Definition f_init : fhdr := {| f_ct := []; f_ce := []; f_server := []; f_h := []; f_cookies := [] |}.

(* removeNewLines *)
Definition remove_newlines (v : bytes) : bytes := map nl_to_sp v.

(* setArgBytes on h.h: replace the first entry with that key, else append *)
Fixpoint set_arg (l : list (bytes * bytes)) (k v : bytes) : list (bytes * bytes) :=
  match l with
  | [] => [(k, v)]
  | (k', v') :: r => if beq k' k then (k, v) :: r else (k', v') :: set_arg r k v
  end.

Inductive hclass := KContentType | KContentLength | KContentEncoding | KConnection | KServer | KSetCookie
                  | KTransferEncoding | KTrailer | KDate | KPlain.

(* setSpecialHeader's dispatch (first-letter switch + caseInsensitiveCompare) *)
Definition classify (k : bytes) : hclass :=
  if ieq hdrContentType k then KContentType
  else if ieq hdrContentLength k then KContentLength
  else if ieq hdrContentEncoding k then KContentEncoding
  else if ieq hdrConnection k then KConnection
  else if ieq hdrServer k then KServer
  else if ieq hdrSetCookie k then KSetCookie
  else if ieq hdrTransferEncoding k then KTransferEncoding
  else if ieq hdrTrailer k then KTrailer
  else if ieq hdrDate k then KDate
  else KPlain.

Definition fh_add (f : fhdr) (k0 v0 : bytes) : fhdr :=
  let k := canon (remove_newlines k0) in      (* normalizeHeaderKey (token names) *)
  let v := remove_newlines v0 in
  match classify k with
  | KContentType => {| f_ct := v; f_ce := f_ce f; f_server := f_server f; f_h := f_h f; f_cookies := f_cookies f |}
  | KContentEncoding => {| f_ct := f_ct f; f_ce := v; f_server := f_server f; f_h := f_h f; f_cookies := f_cookies f |}
  | KServer => {| f_ct := f_ct f; f_ce := f_ce f; f_server := v; f_h := f_h f; f_cookies := f_cookies f |}
  | KSetCookie => {| f_ct := f_ct f; f_ce := f_ce f; f_server := f_server f; f_h := f_h f; f_cookies := f_cookies f ++ [v] |}
  | KConnection =>     (* the close option sets the flag (951f378); anything else is stored with set semantics.  Not observed (excluded) *)
      if has_header_value v tokClose then f
      else {| f_ct := f_ct f; f_ce := f_ce f; f_server := f_server f; f_h := set_arg (f_h f) k v; f_cookies := f_cookies f |}
  | KContentLength | KTransferEncoding | KDate | KTrailer => f   (* managed by fasthttp / trailers: not observed *)
  | KPlain => {| f_ct := f_ct f; f_ce := f_ce f; f_server := f_server f; f_h := f_h f ++ [(k, v)]; f_cookies := f_cookies f |}
  end.

(* for k, vv := range w.Header() { for _, v := range vv { ctx.Response.Header.Add(k, v) } } *)
Definition fh_of_hmap (h : hmap) : fhdr :=
  fold_left (fun f e => fold_left (fun f' v => fh_add f' (fst e) v) (snd e) f) h f_init.

(* AppendBytes, restricted to the lines that originate from the handler (the default Server, the Date, the
   default or sniffed Content-Type, Content-Length and Connection lines are not handler-set fields) *)
Definition opt_line (k v : bytes) : list (bytes * bytes) := match v with [] => [] | _ => [(k, v)] end.
Definition fh_lines (f : fhdr) : list (bytes * bytes) :=
  opt_line hdrServer (f_server f) ++ opt_line hdrContentType (f_ct f) ++ opt_line hdrContentEncoding (f_ce f)
  ++ filter (fun kv => negb (beq (fst kv) hdrDate)) (f_h f)
  ++ map (fun v => (hdrSetCookie, v)) (f_cookies f).

(* the client (net/http's response reader) trims optional whitespace around each value *)
Definition client_fields (l : list (bytes * bytes)) : list (bytes * bytes) :=
  map (fun kv => (fst kv, trim_ows (snd kv))) l.

(* ResponseHeader.mustSkipContentLength: no body for 1xx, 204, 304 *)
Definition must_skip_body (c : Z) : bool :=
  if ((c <? 100) || (c =? StatusOK))%Z then false
  else ((c =? StatusNotModified) || (c =? StatusNoContent) || (c <? 200))%Z.

Definition adaptor_final (head : bool) (w : wstate) : mresp :=
  let c := w_out_status w in
  {| m_status := c;
     m_fields := client_fields (fh_lines (fh_of_hmap (w_out_hdr w)));
     m_body := if head || must_skip_body c then [] else w_out_body w |}.

Definition adaptor_resp (head : bool) (p : prog) : mresp := adaptor_final head (w_run p).
Definition adaptor_panics (p : prog) : bool := w_panic (w_run p).

(* ------------------------------------------------------------------ *)
(* ConvertRequest on a request in structured form (see Spec/NetHttpRW.v sreq).
   fasthttp's RequestHeader keeps Host, Content-Type, User-Agent, Content-Length, Connection: close,
   Transfer-Encoding, Cookie apart from the other headers; RequestHeader.All() puts them back. *)
Definition sGET : bytes := s2b "GET".
Definition sHEAD : bytes := s2b "HEAD".
Definition sZero : bytes := s2b "0".
Definition sHTTP10 : bytes := s2b "HTTP/1.0".
Definition sHTTP2 : bytes := s2b "HTTP/2".
Definition sSemiSp : bytes := s2b "; ".
Definition sChunked : bytes := s2b "chunked".

(* values of every line with that (case-insensitively matched) name, in order *)
Definition lines_get (l : list (bytes * bytes)) (n : bytes) : list bytes :=
  map snd (filter (fun kv => ieq (fst kv) n) l).
Definition last_or_empty (l : list bytes) : bytes := last l [].

Fixpoint join_with (sep : bytes) (l : list bytes) : bytes :=
  match l with
  | [] => []
  | [x] => x
  | x :: r => x ++ sep ++ join_with sep r
  end.

(* RequestHeader state after parseHeaders + ContinueReadBody, as far as All() shows it *)
Record freq := {
  fq_host : bytes; fq_cl : bytes (* contentLengthBytes *); fq_ct : bytes; fq_ua : bytes;
  fq_cookies : list bytes; fq_h : list (bytes * bytes); fq_close : bool
}.

Definition is_special_req (k : bytes) : bool :=
  ieq k hdrHost || ieq k hdrUserAgent || ieq k hdrContentType || ieq k hdrContentLength
  || ieq k hdrConnection || ieq k hdrTransferEncoding || ieq k hdrCookie.

Definition fh_parse (q : sreq) : freq :=
  let l := q_hdrs q in
  let no11 := negb (beq (q_proto q) protoHTTP11) in
  let chunked := existsb (fun v => ieq v sChunked) (lines_get l hdrTransferEncoding) in
  let cls := lines_get l hdrContentLength in
  let ignore_body := beq (q_method q) sGET || beq (q_method q) sHEAD in
  (* Connection lines: any line with the close option sets the flag (0c9b9fb); a line without it is stored *)
  let conns := lines_get l hdrConnection in
  let close_hdr := existsb (fun v => has_header_value v tokClose) conns in
  let conn_stored := filter (fun v => negb (has_header_value v tokClose)) conns in
  let close :=
    if close_hdr then true
    else if negb (match cls with [] => true | _ => false end) && negb (match lines_get l hdrTransferEncoding with [] => true | _ => false end) then true
    else if no11 then negb (match conn_stored with v :: _ => has_header_value v tokKeepAlive | [] => false end)
    else false in
  {| fq_host := last_or_empty (lines_get l hdrHost);
     fq_cl := if chunked then (if beq (q_body q) [] then sZero else [])
              else match cls with
                   | v :: _ => v
                   | [] => if ignore_body then [] else sZero     (* ContinueReadBody: SetContentLength(0) *)
                   end;
     fq_ct := last_or_empty (lines_get l hdrContentType);
     fq_ua := last_or_empty (lines_get l hdrUserAgent);
     fq_cookies := lines_get l hdrCookie;
     fq_h := map (fun kv => (canon (fst kv), snd kv))
                 (filter (fun kv => negb (is_special_req (fst kv))) l)
             ++ map (fun v => (hdrConnection, v)) conn_stored
             ++ (if chunked && negb (beq (q_body q) []) then [(hdrTransferEncoding, sChunked)] else []);
     fq_close := close |}.

(* RequestHeader.All() *)
Definition fh_all (f : freq) : list (bytes * bytes) :=
  opt_line hdrHost (fq_host f) ++ opt_line hdrContentLength (fq_cl f) ++ opt_line hdrContentType (fq_ct f)
  ++ opt_line hdrUserAgent (fq_ua f)
  ++ (match fq_cookies f with [] => [] | cs => [(hdrCookie, join_with sSemiSp cs)] end)
  ++ fq_h f
  ++ (if fq_close f then [(hdrConnection, tokClose)] else []).

Definition lower_bytes (s : bytes) : bytes := map lowerb s.

Definition convert_request (q : sreq) : creq :=
  let f := fh_parse q in
  let all := fh_all f in
  {| c_method := q_method q;
     c_uri := q_target q;
     c_url := UParse (q_target q);                       (* url.ParseRequestURI(RequestURI) *)
     c_proto := q_proto q;
     c_major := if beq (q_proto q) sHTTP2 then 2%Z else 1%Z;
     c_minor := if beq (q_proto q) sHTTP10 then 0%Z else 1%Z;
     c_host := lower_bytes (match q_urlhost q with [] => fq_host f | uh => uh end);   (* ctx.Host() = URI host *)
     c_hdr := fold_left (fun h kv => if beq (fst kv) sTransferEncoding then h else h_add h (canon (fst kv)) (snd kv)) all [];
     c_body := q_body q |}.
