(* Model/Args.v — executable model of fasthttp.Args (args.go) and AppendQuotedArg (bytesconv.go).

   A Go `[]argsKV` is modelled as the pair (live, spare): `live` are the elements below len,
   `spare` are the elements between len and cap, in index order.  Spare slots keep their stale
   key/value/noValue (the code keeps them to reuse their buffers: allocArg hands out h[n] when
   cap(h) > n, delAllArgsStable parks the deleted element at args[n], Reset only truncates).
   When the spare is empty, Go's append creates fresh zero slots; a zero slot and
   argsKV{value: []byte{}} have the same (empty) contents, so `zeroKV` stands for both.
   No proofs in this file. *)
From FH Require Import Model.Base Gen.GenC28.
Open Scope N_scope.

Record argsKV := mkKV { kv_key : bytes; kv_value : bytes; kv_noValue : bool }.

Definition argsNoValue : bool := true.
Definition argsHasValue : bool := false.

Definition zeroKV : argsKV := mkKV [] [] false.

Record args := mkArgs { live : list argsKV; spare : list argsKV }.

Definition emptyArgs : args := mkArgs [] [].

(* func (a *Args) Reset() { a.args = a.args[:0] } *)
Definition Reset (a : args) : args := mkArgs [] (live a ++ spare a).

(* func allocArg(h []argsKV) ([]argsKV, *argsKV): the slice without its new last element,
   the (stale or fresh) contents of that element, and the remaining spare. *)
Definition allocArg (a : args) : list argsKV * argsKV * list argsKV :=
  match spare a with
  | s :: sp => (live a, s, sp)          (* cap(h) > n: h = h[:n+1] *)
  | [] => (live a, zeroKV, [])          (* append(h, argsKV{value: []byte{}}) *)
  end.

(* func releaseArg(h []argsKV) []argsKV { return h[:len(h)-1] } — on (done, last slot, spare) *)
Definition releaseArg (done : list argsKV) (kv : argsKV) (sp : list argsKV) : args :=
  mkArgs done (kv :: sp).

(* func appendArg(args []argsKV, key, value string, noValue bool) []argsKV *)
Definition appendArg (a : args) (key value : bytes) (noValue : bool) : args :=
  let '(h, kv, sp) := allocArg a in
  let kv := mkKV key (kv_value kv) (kv_noValue kv) in               (* kv.key = append(kv.key[:0], key...) *)
  let kv := if noValue then mkKV (kv_key kv) [] (kv_noValue kv)      (* kv.value = kv.value[:0] *)
            else mkKV (kv_key kv) value (kv_noValue kv) in           (* kv.value = append(kv.value[:0], value...) *)
  let kv := mkKV (kv_key kv) (kv_value kv) noValue in                (* kv.noValue = noValue *)
  mkArgs (h ++ [kv]) sp.

(* func setArg(h []argsKV, key, value string, noValue bool) []argsKV — the loop over h;
   None = fell through the loop (no element has the key) *)
Fixpoint setArg_loop (h : list argsKV) (key value : bytes) (noValue : bool) : option (list argsKV) :=
  match h with
  | [] => None
  | kv :: r =>
      if beq key (kv_key kv) then
        let kv := if noValue then mkKV (kv_key kv) [] (kv_noValue kv)
                  else mkKV (kv_key kv) value (kv_noValue kv) in
        let kv := mkKV (kv_key kv) (kv_value kv) noValue in
        Some (kv :: r)                                                (* return h *)
      else match setArg_loop r key value noValue with
           | Some r' => Some (kv :: r')
           | None => None
           end
  end.

Definition setArg (a : args) (key value : bytes) (noValue : bool) : args :=
  match setArg_loop (live a) key value noValue with
  | Some h => mkArgs h (spare a)
  | None => appendArg a key value noValue
  end.

(* func delAllArgsStable(args []argsKV, key string) []argsKV
   `kept` = args[:i] already scanned, `rest` = args[i:n] still to scan, `parked` = the deleted
   elements written to args[n] with n decreasing (so the most recently deleted comes first). *)
Fixpoint delAllArgsStable_loop (kept rest parked : list argsKV) (key : bytes) : list argsKV * list argsKV :=
  match rest with
  | [] => (kept, parked)
  | kv :: r =>
      if beq key (kv_key kv)
      then delAllArgsStable_loop kept r (kv :: parked) key   (* copy(args[i:], args[i+1:]); n--; i--; args[n] = tmp *)
      else delAllArgsStable_loop (kept ++ [kv]) r parked key
  end.

Definition delAllArgsStable (a : args) (key : bytes) : args :=
  let (kept, parked) := delAllArgsStable_loop [] (live a) [] key in
  mkArgs kept (parked ++ spare a).

(* func hasArg(h []argsKV, key string) bool *)
Fixpoint hasArg (h : list argsKV) (key : bytes) : bool :=
  match h with
  | [] => false
  | kv :: r => if beq key (kv_key kv) then true else hasArg r key
  end.

(* func peekArgStr / peekArgBytes: None = the nil result *)
Fixpoint peekArgStr (h : list argsKV) (k : bytes) : option bytes :=
  match h with
  | [] => None
  | kv :: r => if beq (kv_key kv) k then Some (kv_value kv) else peekArgStr r k
  end.

(* func peekArgBytes(h []argsKV, k []byte) []byte — the bytes.Equal twin used by PeekBytes *)
Fixpoint peekArgBytes (h : list argsKV) (k : bytes) : option bytes :=
  match h with
  | [] => None
  | kv :: r => if beq (kv_key kv) k then Some (kv_value kv) else peekArgBytes r k
  end.

(* func (a *Args) PeekMulti(key string) [][]byte — range over a.All() *)
Fixpoint PeekMulti_loop (h : list argsKV) (key : bytes) (values : list bytes) : list bytes :=
  match h with
  | [] => values
  | kv :: r => if beq (kv_key kv) key then PeekMulti_loop r key (values ++ [kv_value kv])
               else PeekMulti_loop r key values
  end.
Definition PeekMulti (a : args) (key : bytes) : list bytes := PeekMulti_loop (live a) key [].

Definition Peek (a : args) (key : bytes) : option bytes := peekArgStr (live a) key.
Definition PeekBytes (a : args) (key : bytes) : option bytes := peekArgBytes (live a) key.
Definition Has (a : args) (key : bytes) : bool := hasArg (live a) key.
Definition Len (a : args) : Z := Z.of_nat (length (live a)).
(* func (a *Args) All(): the sequence of yielded (key, value) pairs *)
Definition All (a : args) : list (bytes * bytes) := map (fun kv => (kv_key kv, kv_value kv)) (live a).

(* the public mutators *)
Definition Add (a : args) (k v : bytes) : args := appendArg a k v argsHasValue.
Definition AddNoValue (a : args) (k : bytes) : args := appendArg a k [] argsNoValue.
Definition Set_ (a : args) (k v : bytes) : args := setArg a k v argsHasValue.
Definition SetNoValue (a : args) (k : bytes) : args := setArg a k [] argsNoValue.
Definition Del (a : args) (k : bytes) : args := delAllArgsStable a k.

(* ---------------- CopyTo ---------------- *)

(* the body of copyArgs' loop: dstKV keeps its buffers, every field is overwritten *)
Definition copyKV (dstKV srcKV : argsKV) : argsKV :=
  let dstKV := mkKV (kv_key srcKV) (kv_value dstKV) (kv_noValue dstKV) in          (* dstKV.key = append(dstKV.key[:0], srcKV.key...) *)
  let dstKV := if kv_noValue srcKV
               then mkKV (kv_key dstKV) [] (kv_noValue dstKV)                       (* dstKV.value = dstKV.value[:0] *)
               else mkKV (kv_key dstKV) (kv_value srcKV) (kv_noValue dstKV) in      (* append(dstKV.value[:0], srcKV.value...) *)
  mkKV (kv_key dstKV) (kv_value dstKV) (kv_noValue srcKV).                         (* dstKV.noValue = srcKV.noValue *)

(* for i := range n: `slots` = dst[i:cap], `src` = src[i:]; returns dst[:n] and the slots left beyond n *)
Fixpoint copy_loop (slots src : list argsKV) : list argsKV * list argsKV :=
  match src with
  | [] => ([], slots)
  | s :: sr =>
      let '(d, rest) := match slots with d :: rest => (d, rest) | [] => (zeroKV, []) (* unreachable: padded below *) end in
      let '(c, sp) := copy_loop rest sr in
      (copyKV d s :: c, sp)
  end.

(* func copyArgs(dst, src []argsKV) []argsKV *)
Definition copyArgs (dst : args) (src : list argsKV) : args :=
  let slots := live dst ++ spare dst in                                            (* dst[:cap(dst)] *)
  let slots := if Nat.ltb (length slots) (length src)                              (* cap(dst) < len(src): tmp, old slots copied, rest empty *)
               then slots ++ repeat zeroKV (length src - length slots)
               else slots in
  let '(c, sp) := copy_loop slots src in
  mkArgs c sp.

(* func (a *Args) CopyTo(dst *Args) — returns the new dst *)
Definition CopyTo (a dst : args) : args := copyArgs dst (live a).

(* ---------------- serialisation ---------------- *)

(* func AppendQuotedArg(dst, src []byte) []byte *)
Fixpoint AppendQuotedArg (dst src : bytes) : bytes :=
  match src with
  | [] => dst
  | c :: r =>
      if c =? SP then AppendQuotedArg (dst ++ [PLUS]) r
      else if negb (tbl quotedArgShouldEscapeTable c =? 0)
      then AppendQuotedArg (dst ++ [PCT; tbl upperhex (N.shiftr c 4); tbl upperhex (N.land c 15)]) r
      else AppendQuotedArg (dst ++ [c]) r
  end.

(* func (a *Args) AppendBytes(dst []byte) []byte — loop body on the remaining elements args[i:] *)
Fixpoint AppendBytes_loop (dst : bytes) (h : list argsKV) : bytes :=
  match h with
  | [] => dst
  | kv :: r =>
      let dst := AppendQuotedArg dst (kv_key kv) in
      let dst := if negb (kv_noValue kv)
                 then let dst := dst ++ [EQS] in
                      match kv_value kv with
                      | [] => dst
                      | _ => AppendQuotedArg dst (kv_value kv)
                      end
                 else dst in
      let dst := match r with [] => dst | _ => dst ++ [AMP] end in    (* if i+1 < n *)
      AppendBytes_loop dst r
  end.
Definition AppendBytes (a : args) (dst : bytes) : bytes := AppendBytes_loop dst (live a).
Definition QueryString (a : args) : bytes := AppendBytes a [].

(* ---------------- parsing ---------------- *)

(* bytes.IndexByte: None = -1 *)
Fixpoint indexByte (s : bytes) (c : N) : option nat :=
  match s with
  | [] => None
  | x :: r => if x =? c then Some O else option_map S (indexByte r c)
  end.

(* the slow-path loop of decodeArgAppend, on src[i:] *)
Fixpoint decode_loop (src : bytes) : bytes :=
  match src with
  | [] => []
  | c :: r =>
      if c =? PCT then
        match r with
        | c1 :: c2 :: r' =>
            let x2 := tbl hex2intTable c2 in
            let x1 := tbl hex2intTable c1 in
            if (x1 =? 16) || (x2 =? 16) then PCT :: decode_loop r
            else (N.lor (N.shiftl x1 4 mod 256) x2) :: decode_loop r'      (* x1<<4|x2 ; i += 2 *)
        | _ => src                                                         (* end > len(src): append(dst, src[i:]...) *)
        end
      else if c =? PLUS then SP :: decode_loop r
      else c :: decode_loop r
  end.

(* func decodeArgAppend(dst, src []byte) []byte *)
Definition decodeArgAppend (dst src : bytes) : bytes :=
  let idxPercent := indexByte src PCT in
  let idxPlus := indexByte src PLUS in
  match idxPercent, idxPlus with
  | None, None => dst ++ src                                    (* fast path *)
  | _, _ =>
      let idx := match idxPercent, idxPlus with
                 | None, Some p => p
                 | Some q, None => q
                 | Some q, Some p => if Nat.ltb p q then p else q
                 | None, None => O
                 end in
      (dst ++ firstn idx src) ++ decode_loop (skipn idx src)
  end.

(* func (s *argsScanner) next(kv *argsKV) bool — the `for i, c := range s.b` loop.
   `cur` holds s.b[:i] (while isKey) or s.b[k:i] (after the first '='), in reverse. *)
Fixpoint next_loop (rest : bytes) (isKey : bool) (cur : bytes) (kv : argsKV) : argsKV * bytes :=
  match rest with
  | [] =>
      (* after the loop *)
      if isKey
      then (mkKV (decodeArgAppend [] (rev cur)) [] argsNoValue, [])
      else (mkKV (kv_key kv) (decodeArgAppend [] (rev cur)) (kv_noValue kv), [])
  | c :: r =>
      if c =? EQS then
        if isKey
        then next_loop r false [] (mkKV (decodeArgAppend [] (rev cur)) (kv_value kv) (kv_noValue kv))
        else next_loop r isKey (c :: cur) kv
      else if c =? AMP then
        if isKey
        then (mkKV (decodeArgAppend [] (rev cur)) [] argsNoValue, r)
        else (mkKV (kv_key kv) (decodeArgAppend [] (rev cur)) (kv_noValue kv), r)
      else next_loop r isKey (c :: cur) kv
  end.

(* None = `return false` *)
Definition next (b : bytes) (kv : argsKV) : option (argsKV * bytes) :=
  match b with
  | [] => None
  | _ => Some (next_loop b true [] (mkKV (kv_key kv) (kv_value kv) argsHasValue))
  end.

(* func (a *Args) ParseBytes(b []byte): the `for s.next(kv)` loop; `done` = a.args without the
   element kv points to.  None = out of fuel (never happens: see Proof). *)
Fixpoint ParseBytes_loop (fuel : nat) (b : bytes) (done : list argsKV) (kv : argsKV) (sp : list argsKV) : option args :=
  match fuel with
  | O => None
  | S fuel' =>
      match next b kv with
      | None => Some (releaseArg done kv sp)
      | Some (kv', b') =>
          match kv_key kv', kv_value kv' with
          | [], [] => ParseBytes_loop fuel' b' done kv' sp          (* the same slot is reused *)
          | _, _ =>
              let '(h, nkv, sp') := allocArg (mkArgs (done ++ [kv']) sp) in
              ParseBytes_loop fuel' b' h nkv sp'
          end
      end
  end.

Definition ParseBytes (a : args) (b : bytes) : option args :=
  let a := Reset a in
  let '(h, kv, sp) := allocArg a in
  ParseBytes_loop (S (length b)) b h kv sp.

(* ---------------- operation sequences (what the harness drives) ---------------- *)
Inductive op :=
| OAdd (k v : bytes)
| OAddNoValue (k : bytes)
| OSet (k v : bytes)
| OSetNoValue (k : bytes)
| ODel (k : bytes)
| OReset
| OParse (raw : bytes).

Definition step (a : args) (o : op) : args :=
  match o with
  | OAdd k v => Add a k v
  | OAddNoValue k => AddNoValue a k
  | OSet k v => Set_ a k v
  | OSetNoValue k => SetNoValue a k
  | ODel k => Del a k
  | OReset => Reset a
  | OParse raw => match ParseBytes a raw with Some a' => a' | None => a end
  end.

Definition run_ops (a : args) (ops : list op) : args := fold_left step ops a.
