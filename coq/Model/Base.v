(* Base.v — shared vocabulary of every model: bytes, byte strings, hex literals.
   No proofs here beyond trivial computational facts; models must keep running
   when a proof elsewhere breaks. *)
From Coq Require Export Ascii String.
From Coq Require Export List NArith ZArith Bool.
Export ListNotations.
Open Scope N_scope.

Definition byte := N.
Definition bytes := list N.

Definition is_byte (b : N) : bool := b <? 256.
Definition wf_bytes (s : bytes) : Prop := Forall (fun x => x < 256) s.
Definition wf_bytesb (s : bytes) : bool := forallb is_byte s.

(* ---- hex literals: the harness writes byte strings as (h "474554") ---- *)
Definition hexval (c : ascii) : N :=
  let n := N_of_ascii c in
  if (48 <=? n) && (n <=? 57) then n - 48
  else if (97 <=? n) && (n <=? 102) then n - 87
  else if (65 <=? n) && (n <=? 70) then n - 55
  else 0.

Fixpoint h (s : string) : bytes :=
  match s with
  | String a (String b r) => (16 * hexval a + hexval b) :: h r
  | _ => []
  end.

(* ASCII string literal to bytes (for readable constants in models/specs) *)
Fixpoint s2b (s : string) : bytes :=
  match s with
  | EmptyString => []
  | String a r => N_of_ascii a :: s2b r
  end.

(* ---- equality on byte strings ---- *)
Fixpoint beq (a b : bytes) : bool :=
  match a, b with
  | [], [] => true
  | x :: a', y :: b' => (x =? y) && beq a' b'
  | _, _ => false
  end.

Fixpoint list_eqb {A} (eq : A -> A -> bool) (a b : list A) : bool :=
  match a, b with
  | [], [] => true
  | x :: a', y :: b' => eq x y && list_eqb eq a' b'
  | _, _ => false
  end.

Definition option_eqb {A} (eq : A -> A -> bool) (a b : option A) : bool :=
  match a, b with
  | None, None => true
  | Some x, Some y => eq x y
  | _, _ => false
  end.

Definition pair_eqb {A B} (ea : A -> A -> bool) (eb : B -> B -> bool)
           (a b : A * B) : bool := ea (fst a) (fst b) && eb (snd a) (snd b).

(* ---- named characters ---- *)
Definition CR : N := 13.   Definition LF : N := 10.  Definition SP : N := 32.
Definition HT : N := 9.    Definition COLON : N := 58. Definition SEMI : N := 59.
Definition SLASH : N := 47. Definition DOT : N := 46. Definition PCT : N := 37.
Definition EQS : N := 61.  Definition AMP : N := 38. Definition PLUS : N := 43.
Definition QM : N := 63.   Definition HASH : N := 35. Definition DASH : N := 45.
Definition COMMA : N := 44. Definition DQ : N := 34. Definition BSL : N := 92.
Definition AT : N := 64.   Definition LBR : N := 91. Definition RBR : N := 93.
Definition ch0 : N := 48.  Definition ch9 : N := 57.

(* table lookup as Go does it on a 256-entry string constant *)
Definition tbl (t : list N) (b : N) : N := nth (N.to_nat b) t 0.

(* index helpers used by case files: which cases (by position) fail a test *)
Fixpoint failing_from {A} (i : N) (f : A -> bool) (l : list A) : list N :=
  match l with
  | [] => []
  | x :: r => if f x then failing_from (i + 1) f r else i :: failing_from (i + 1) f r
  end.
Definition failing {A} (f : A -> bool) (l : list A) : list N := failing_from 0 f l.

Lemma beq_refl a : beq a a = true.
Proof. induction a as [|x a IH]; cbn; [reflexivity|]. now rewrite N.eqb_refl, IH. Qed.

Lemma beq_eq a b : beq a b = true <-> a = b.
Proof.
  revert b; induction a as [|x a IH]; destruct b as [|y b]; cbn; split; try easy.
  - intros H. apply andb_true_iff in H as [H1 H2]. apply N.eqb_eq in H1. apply IH in H2. congruence.
  - intros H. injection H as -> ->. now rewrite N.eqb_refl, beq_refl.
Qed.
