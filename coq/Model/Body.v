(* Body.v — model of the message-body READERS of http.go (shared by C34, C07 and the
   framing properties).  Functions modelled, one Gallina function each, same names:

     appendBodyFixedSize, readBody, parseChunkSize (with its extension loop), readCrLf,
     readBodyChunked, readBodyIdentity (+ roundUpForSliceCap), readBodyWithStreaming,
     header.ReadTrailer / tryReadTrailer (the framing part), Request.ContinueReadBody +
     Request.ReadBody (reqReadBody), Response.ReadBody + the trailer step of
     Response.ReadLimitBody (respReadBody).

   The *bufio.Reader is "the remaining input bytes, then io.EOF": every reader takes the
   unread input `b` and returns the unread rest.  readHexInt comes from Model/Ints.v.
   Word size is fixed to 64 bit (maxHexIntChars64).

   Every function threads `peak`: the largest body-buffer LENGTH (in bytes) the function has
   requested so far (dstLen in appendBodyFixedSize, len(dst) in readBodyIdentity); capacity
   rounding (roundUpForSliceCap) is on top of that and is modelled only where the code uses
   it to size the buffer it then fills (identity mode).

   No proofs here (Proof/BodyProof.v). *)
From FH Require Import Model.Base Gen.GenC30 Gen.GenC34 Model.Ints.
Open Scope Z_scope.

Definition blen (b : bytes) : Z := Z.of_nat (length b).
Definition btake (n : Z) (b : bytes) : bytes := firstn (Z.to_nat n) b.
Definition bdrop (n : Z) (b : bytes) : bytes := skipn (Z.to_nat n) b.

(* error classes the harness can tell apart (never error strings) *)
Inductive berr :=
| EBodyTooLarge      (* ErrBodyTooLarge *)
| EUnexpectedEOF     (* io.ErrUnexpectedEOF from appendBodyFixedSize *)
| EEOF               (* io.EOF from readHexInt: nothing left where a chunk size was expected *)
| EBrokenChunk       (* ErrBrokenChunk{...} *)
| EEmptyHex          (* errEmptyHexNum *)
| ETooLargeHex       (* errTooLargeHexNum *)
| ENoProgress        (* "bufio read returned (0, nil)": not reachable with this reader model *)
| ETrailer           (* the trailer block was found but parseTrailer rejected it *).

Definition berr_eqb (a b : berr) : bool :=
  match a, b with
  | EBodyTooLarge, EBodyTooLarge | EUnexpectedEOF, EUnexpectedEOF | EEOF, EEOF
  | EBrokenChunk, EBrokenChunk | EEmptyHex, EEmptyHex | ETooLargeHex, ETooLargeHex
  | ENoProgress, ENoProgress | ETrailer, ETrailer => true
  | _, _ => false
  end.

(* result of a body reader: BOk dst rest peak | BErr e dst peak (dst = what the Go function
   returns next to the error) | BPanic (a Go panic) | BOutOfFuel (model artefact; proved unreachable) *)
Inductive bres :=
| BOk (dst rest : bytes) (peak : Z)
| BErr (e : berr) (dst : bytes) (peak : Z)
| BPanic
| BOutOfFuel.

(* ---- appendBodyFixedSize(r, dst, n): read exactly n more bytes behind dst ---- *)
(* runtime.maxAlloc on 64-bit Linux: make([]byte, n) panics ("makeslice: len out of range")
   above it; between the machine's memory and maxAlloc the allocation is a fatal out-of-memory
   crash, which the model cannot express (only reachable without a limit: maxBodySize <= 0). *)
Definition maxAlloc : Z := 2 ^ 48.

Definition appendBodyFixedSize (b dst : bytes) (n peak : Z) : bres :=
  if n =? 0 then BOk dst b peak
  else if n <? 0 then BPanic                       (* dst[:dstLen] with dstLen < offset *)
  else if blen dst + n >? maxAlloc then BPanic     (* make([]byte, roundUpForSliceCap(dstLen)) *)
  else
    let dstLen := blen dst + n in
    let peak' := Z.max peak dstLen in              (* make([]byte, roundUpForSliceCap(dstLen)) / dst[:dstLen] *)
    if n <=? blen b then BOk (dst ++ btake n b) (bdrop n b) peak'
    else BErr EUnexpectedEOF (dst ++ b) peak'.     (* dst[:offset], io.ErrUnexpectedEOF *)

(* ---- readBody(r, contentLength, maxBodySize, dst) ---- *)
Definition readBody (cl max : Z) (dst b : bytes) (peak : Z) : bres :=
  if (max >? 0) && (cl >? max) then BErr EBodyTooLarge dst peak
  else appendBodyFixedSize b dst cl peak.

(* ---- readCrLf ---- *)
Definition readCrLf (b : bytes) : option bytes :=
  match b with
  | c1 :: r1 =>
      if (c1 =? CR)%N then
        match r1 with
        | c2 :: r2 => if (c2 =? LF)%N then Some r2 else None
        | [] => None
        end
      else None
  | [] => None
  end.

(* ---- parseChunkSize: readHexInt, then the loop over OWS / chunk extensions up to '\r'
   (which is unread), then readCrLf ---- *)
Fixpoint pcs_loop (b : bytes) (inExt afterSizeOWS : bool) : option bytes :=
  match b with
  | [] => None                                          (* ReadByte error: ErrBrokenChunk *)
  | c :: r =>
      if (c =? CR)%N then Some b                        (* UnreadByte; break *)
      else if (c =? LF)%N then None                     (* '\n' after chunk size *)
      else if inExt then pcs_loop r inExt afterSizeOWS
      else if (c =? SP)%N || (c =? HT)%N then pcs_loop r false true
      else if (c =? SEMI)%N then (if afterSizeOWS then None else pcs_loop r true afterSizeOWS)
      else None
  end.

Inductive pcres := PCOk (n : Z) (rest : bytes) | PCErr (e : berr).

Definition parseChunkSize (b : bytes) : pcres :=
  match readHexInt 64 maxHexIntChars64 b with
  | HErr HEmpty => PCErr EEmptyHex
  | HErr HTooLarge => PCErr ETooLargeHex
  | HErr HEof => PCErr EEOF
  | HOk n r =>
      match pcs_loop r false false with
      | None => PCErr EBrokenChunk
      | Some r1 =>
          match readCrLf r1 with
          | None => PCErr EBrokenChunk
          | Some r2 => PCOk n r2
          end
      end
  end.

(* ---- readBodyChunked(r, maxBodySize, dst) ---- *)
Definition ends_crlf (d : bytes) : bool := beq (skipn (length d - 2) d) strCRLF.
Definition drop_last2 (d : bytes) : bytes := firstn (length d - 2) d.

Fixpoint rbc_loop (fuel : nat) (max : Z) (dst b : bytes) (peak : Z) : bres :=
  match fuel with
  | O => BOutOfFuel
  | S f =>
      match parseChunkSize b with
      | PCErr e => BErr e dst peak
      | PCOk n r =>
          if n =? 0 then BOk dst r peak
          else if (max >? 0) && (blen dst + n >? max) then BErr EBodyTooLarge dst peak
          else
            match appendBodyFixedSize r dst (n + blen strCRLF) peak with
            | BOk d r' pk =>
                if ends_crlf d then rbc_loop f max (drop_last2 d) r' pk
                else BErr EBrokenChunk d pk            (* cannot find crlf at the end of chunk *)
            | other => other
            end
      end
  end.

Definition readBodyChunked (max : Z) (dst b : bytes) : bres :=
  if 0 <? blen dst then BPanic                         (* BUG: expected zero-length buffer *)
  else rbc_loop (S (length b)) max dst b 0.

(* ---- roundUpForSliceCap (round2_64.go) ---- *)
Definition roundUpForSliceCap (n : Z) : Z :=
  if n <=? 0 then 0
  else if n >? 100 * 1024 * 1024 then n
  else 2 ^ Z.log2_up n.

(* ---- readBodyIdentity(r, maxBodySize, dst) ----
   The sizes of the individual bufio reads are not determined by the input, so they are an
   oracle `rs`: the k-th Read delivers min(max(rs_k,1), room, remaining) bytes; an exhausted
   oracle means "as much as fits".  cap0 = cap(dst) of the (empty) buffer passed in.
   acc = dst[:offset], dstlen = len(dst). *)
Definition identityInitialBuf : Z := 1024.             (* make([]byte, 1024) in readBodyIdentity *)

Fixpoint rbi_loop (fuel : nat) (max : Z) (rs : list Z) (b acc : bytes) (dstlen offset peak : Z) : bres :=
  match fuel with
  | O => BOutOfFuel
  | S f =>
      match b with
      | [] => BOk acc [] peak                           (* (0, io.EOF): return dst[:offset], nil *)
      | _ =>
          let room := dstlen - offset in
          let want := match rs with [] => room | r :: _ => Z.max 1 (Z.min r room) end in
          let nn := Z.min want (blen b) in
          let acc' := acc ++ btake nn b in
          let offset' := offset + nn in
          if (max >? 0) && (offset' >? max) then BErr EBodyTooLarge acc' peak
          else if dstlen =? offset' then
            let n0 := roundUpForSliceCap (2 * offset') in
            let n := if (max >? 0) && (n0 >? max) then max + 1 else n0 in
            rbi_loop f max (tl rs) (bdrop nn b) acc' n offset' (Z.max peak n)
          else rbi_loop f max (tl rs) (bdrop nn b) acc' dstlen offset' peak
      end
  end.

Definition readBodyIdentity (max cap0 : Z) (rs : list Z) (b : bytes) : bres :=
  let d := if cap0 <=? 0 then identityInitialBuf else cap0 in
  rbi_loop (S (length b)) max rs b [] d 0 d.

(* ---- readBodyWithStreaming(r, contentLength, maxBodySize, dst): the pre-read of a streamed
   request body.  SChunked = errChunkedStream (handled by requestStream.Read). ---- *)
Inductive sres := SChunked | SBody (r : bres) | STooLarge (prefix rest : bytes).
Definition streamPrereadMax : Z := 8 * 1024.
Definition readBodyWithStreaming (cl max : Z) (b : bytes) : sres :=
  if cl =? -1 then SChunked
  else
    let readN := Z.min (Z.min max cl) streamPrereadMax in
    match appendBodyFixedSize b [] readN 0 with
    | BOk d r pk => if cl >? max then STooLarge d r else SBody (BOk d r pk)
    | other => SBody other
    end.

(* ---- header.ReadTrailer: framing part.  With all input available the loop of
   tryReadTrailer sees the whole remaining input:
     empty input                      -> io.EOF
     input starts with CRLF           -> no trailer fields, 2 bytes consumed
     no CRLFCRLF in the input         -> ErrNeedMore until the reader hits EOF inside the trailer
                                         -> io.ErrUnexpectedEOF (io.EOF is reserved for "closed before the
                                            first byte of the trailer")
     otherwise                        -> the block up to and including the first CRLFCRLF goes
                                         to parseTrailer (headerScanner: Model/Lines.v), which
                                         consumes k <= |block| bytes or fails.
   Assumption (stated in props): the trailer block fits the reader buffer. ---- *)
Fixpoint index_crlfcrlf (b : bytes) (i : Z) : option Z :=
  match b with
  | c1 :: r =>
      match r with
      | c2 :: c3 :: c4 :: _ =>
          if (c1 =? CR)%N && (c2 =? LF)%N && (c3 =? CR)%N && (c4 =? LF)%N then Some i
          else index_crlfcrlf r (i + 1)
      | _ => None
      end
  | [] => None
  end.

Inductive trres :=
| TrOk (rest : bytes)                  (* ReadTrailer returned nil *)
| TrEOF                                (* io.EOF: nothing at all behind the last chunk; callers turn it into
                                          ErrBrokenChunk{io.ErrUnexpectedEOF} *)
| TrTruncated                          (* io.ErrUnexpectedEOF: the input ends inside the trailer section *)
| TrFields (block rest : bytes).       (* a non-empty trailer block: parseTrailer decides *)

Definition has_crlf_prefix (b : bytes) : bool :=
  match b with c1 :: c2 :: _ => (c1 =? CR)%N && (c2 =? LF)%N | _ => false end.

Definition readTrailer (b : bytes) : trres :=
  match b with
  | [] => TrEOF
  | _ =>
      if has_crlf_prefix b then TrOk (bdrop 2 b)
      else match index_crlfcrlf b 0 with
           | None => TrTruncated
           | Some i => TrFields (btake (i + 4) b) (bdrop (i + 4) b)
           end
  end.

(* parseTr block = Some k: parseTrailer accepted the block and consumed k bytes of it;
   None: it returned an error.  Model/Lines.v will provide the real one; `trailer_reject`
   is the conservative stand-in (no trailer fields accepted). *)
Definition trailer_parser := bytes -> option Z.
Definition trailer_reject : trailer_parser := fun _ => None.

Definition after_trailer (parseTr : trailer_parser) (body r : bytes) (pk : Z) : bres :=
  match readTrailer r with
  | TrOk r' => BOk body r' pk
  | TrEOF => BErr EBrokenChunk body pk
  | TrTruncated => BErr EUnexpectedEOF body pk
  | TrFields block r' =>
      match parseTr block with
      | Some k => BOk body (bdrop k block ++ r') pk
      | None => BErr ETrailer body pk
      end
  end.

(* ---- Request.ContinueReadBody + Request.ReadBody for a request that is not a pre-parsed
   multipart form; cl = Header.ContentLength() (-1 chunked, -2 none).  ignore-body requests
   with cl = -2 read nothing. ---- *)
Definition reqReadBody (parseTr : trailer_parser) (cl max : Z) (b : bytes) : bres :=
  if (cl >? 0) && (max >? 0) && (cl >? max) then BErr EBodyTooLarge [] 0
  else if cl =? -2 then BOk [] b 0
  else if cl >=? 0 then readBody cl max [] b 0
  else if cl =? -1 then
    match readBodyChunked max [] b with
    | BOk body r pk => after_trailer parseTr body r pk
    | other => other
    end
  else readBodyIdentity max 0 [] b.

(* ---- Response.ReadBody (StreamBody = false, body not skipped) + the trailer step of
   Response.ReadLimitBody ---- *)
Definition respReadBody (parseTr : trailer_parser) (cl max cap0 : Z) (rs : list Z) (b : bytes) : bres :=
  if cl >=? 0 then readBody cl max [] b 0
  else if cl =? -1 then
    match readBodyChunked max [] b with
    | BOk body r pk => after_trailer parseTr body r pk
    | other => other
    end
  else readBodyIdentity max cap0 rs b.

(* projections other models use *)
Definition bres_body (r : bres) : option bytes := match r with BOk d _ _ => Some d | _ => None end.
Definition bres_rest (r : bres) : option bytes := match r with BOk _ r _ => Some r | _ => None end.
Definition bres_err (r : bres) : option berr := match r with BErr e _ _ => Some e | _ => None end.
Definition bres_peak (r : bres) : Z := match r with BOk _ _ p | BErr _ _ p => p | _ => 0 end.
