(* BodyConsume.v — how far one iteration of Server.serveConnCounted advances the connection
   (C02: unread request bodies never turn into requests).

   The connection is a byte stream addressed by offsets; nothing here looks at byte values.
   A request is described by what header parsing decided about it (head length, framing,
   Expect: 100-continue, Connection: close, GET/HEAD, multipart boundary) and by what the
   application does: the answers of ExpectHandler / ContinueHandler and the handler's
   behaviour over the body stream.  Functions modelled (same control flow, one Gallina
   function each):

     http.go    Request.readLimitBody / readBodyStream / ContinueReadBody / ContinueReadBodyStream,
                readBody + appendBodyFixedSize (as "advance n bytes or hit the end of input"),
                readBodyChunked, readBodyWithStreaming (prefetch of min(max, CL, 8 KiB)),
                readMultipartForm (as an oracle ok/err that consumes exactly Content-Length),
                Request.bodyBytes / closeBodyStream (detaching the stream, bodyStreamUnread)
     streaming.go  requestStream.Read, both modes (fixed: prefetched bytes, totalBytesRead;
                chunked: chunkLeft, eof flag, sticky err, parseChunkSize, readCrLf, ReadTrailer), drained
     server.go  serveConnCounted: body reading, the Expect branch, the handler call, the
                timeout ctx swap, the post-handler drain io.CopyN(io.Discard, rs, max+1),
                connectionClose, the hijack exit and the loop.

   Offsets inside one request are relative to the first byte after its head.  Numbers are Z.
   No proofs here (Proof/BodyConsumeProof.v). *)
From FH Require Import Model.Base Gen.GenC02.
Open Scope Z_scope.

(* ------------------------------------------------------------------------------------ *)
(* request descriptions                                                                 *)
(* ------------------------------------------------------------------------------------ *)

(* one chunk of a chunked body: length of its size line (hex digits, extension, CRLF), number of
   data bytes (> 0), and whether its terminating CRLF is intact.  A broken terminator is ONE wrong
   byte in place of CRLF; whatever follows it is again chunk syntax (that is what lets the
   stream reader resume). *)
Record chunk := mkChunk { ch_line : Z; ch_size : Z; ch_ok : bool }.

Inductive framing :=
| FNone                                        (* contentLength = -2: no Content-Length, no Transfer-Encoding *)
| FFixed (n : Z)                               (* contentLength = n >= 0 *)
| FChunked (cs : list chunk) (zl tl : Z).      (* contentLength = -1; zl = length of the last-chunk line, tl = trailer section incl. final CRLF *)

Definition chunk_len (c : chunk) : Z := ch_line c + ch_size c + (if ch_ok c then 2 else 1).
Fixpoint chunks_len (cs : list chunk) : Z :=
  match cs with [] => 0 | c :: cs' => chunk_len c + chunks_len cs' end.

(* what the handler does with the body stream *)
Inductive rdprog :=
| RNone                 (* no Read call *)
| RUpTo (k : Z)         (* Read until k data bytes were delivered, or EOF / error (io.ReadFull) *)
| REOF.                 (* Read until EOF / error (io.ReadAll) *)
Inductive finact :=
| FinNone
| FinDetach             (* CloseBodyStream / ResetBody / SetBody... : Request.closeBodyStream;  REOF + FinDetach = Request.Body() *)
| FinTimeout            (* ctx.TimeoutError *)
| FinHijack             (* ctx.Hijack *)
| FinConnClose.         (* ctx.SetConnectionClose / Response "Connection: close" *)

Record req := mkReq {
  r_id : Z;
  r_head : Z;               (* bytes of request line + header block *)
  r_getlike : bool;         (* Header.IsGet() || Header.IsHead() *)
  r_close : bool;           (* Header.ConnectionClose() *)
  r_expect : bool;          (* Request.MayContinue() *)
  r_fr : framing;
  r_mp : option bool;       (* Some ok: multipart boundary present and no Content-Encoding; ok = multipart.ReadForm succeeds *)
  r_lim : option Z;         (* Some a: only a bytes follow the head, then the peer half-closes *)
  r_expect_status : Z;      (* answer of ExpectHandler for this request *)
  r_continue_ok : bool;     (* answer of ContinueHandler for this request *)
  r_rd : rdprog;
  r_fin : finact;
  r_max : Z;                (* RequestConfig.MaxRequestBodySize returned by Server.HeaderReceived for this request (0: none) *)
  r_uri_ok : bool;          (* Request.parseURI succeeds (it runs before the body is read) *)
  r_pick : nat;             (* which pooled requestStream object requestStreamPool.Get hands out (beyond the pool: a new one) *)
  r_alt : option (Z * Z) }. (* Some (d, sid): the body bytes are such that at raw body offset d there is CRLF, a last-chunk
                               line and trailer like the real ones, and then a whole request-looking unit number sid:
                               what a chunked reader sees that takes the first d raw bytes of the body for chunk data *)

Record cfg := mkCfg {
  c_stream : bool;          (* StreamRequestBody *)
  c_max : Z;                (* effective maxRequestBodySize (> 0 in the server) *)
  c_getonly : bool;
  c_preparse : bool;        (* !DisablePreParseMultipartForm *)
  c_expectH : bool;         (* ExpectHandler != nil *)
  c_continueH : bool;       (* ContinueHandler != nil *)
  c_nokeepalive : bool }.   (* DisableKeepalive *)

(* ------------------------------------------------------------------------------------ *)
(* the connection reader                                                                *)
(* ------------------------------------------------------------------------------------ *)

(* maxRequestBodySize of the iteration: the HeaderReceived override, else the server's limit *)
Definition emax (c : cfg) (r : req) : Z := if 0 <? r_max r then r_max r else c_max c.

(* advance n bytes from pos; None = the input ends first *)
Definition adv (lim : option Z) (pos n : Z) : option Z :=
  match lim with
  | None => Some (pos + n)
  | Some a => if pos + n <=? a then Some (pos + n) else None
  end.
(* nothing at all left at pos *)
Definition at_end (lim : option Z) (pos : Z) : bool :=
  match lim with None => false | Some a => a <=? pos end.
(* the position after reading as much as possible of n bytes *)
Definition adv_most (lim : option Z) (pos n : Z) : Z :=
  match lim with
  | None => pos + n
  | Some a => Z.min (pos + n) (Z.max a pos)
  end.

(* ------------------------------------------------------------------------------------ *)
(* non-streaming body reading: Request.ContinueReadBody                                 *)
(* ------------------------------------------------------------------------------------ *)

Inductive nsres :=
| NOk (pos : Z)        (* body read, reader at pos *)
| NEof                 (* the error is io.EOF *)
| NErr.                (* any other error *)

(* readBodyChunked: dlen = len(dst) *)
Fixpoint nsChunked (lim : option Z) (max : Z) (cs : list chunk) (zl : Z) (pos dlen : Z) : nsres :=
  match cs with
  | [] =>
      if at_end lim pos then NEof                         (* readHexInt: io.EOF *)
      else match adv lim pos zl with
           | None => NErr
           | Some p1 => NOk p1                            (* chunkSize == 0: return *)
           end
  | c :: cs' =>
      if at_end lim pos then NEof
      else match adv lim pos (ch_line c) with
           | None => NErr
           | Some p1 =>
               if (max >? 0) && (dlen + ch_size c >? max) then NErr          (* ErrBodyTooLarge *)
               else match adv lim p1 (ch_size c + 2) with                    (* appendBodyFixedSize(chunkSize+2) *)
                    | None => NErr
                    | Some p2 =>
                        if ch_ok c then nsChunked lim max cs' zl p2 (dlen + ch_size c)
                        else NErr                                            (* cannot find crlf at the end of chunk *)
                    end
           end
  end.

(* readMultipartForm over an io.LimitedReader of CL bytes, then the rest of the limit is discarded;
   an input that ends before CL bytes is an unexpected EOF *)
Definition readMultipart (lim : option Z) (cl : Z) (ok : bool) : nsres :=
  if ok then match adv lim 0 cl with Some p => NOk p | None => NErr end else NErr.

Definition continueReadBody (c : cfg) (r : req) : nsres :=
  let lim := r_lim r in
  let max := emax c r in
  match r_fr r with
  | FNone => NOk 0
  | FFixed n =>
      if (0 <? n) && (max >? 0) && (n >? max) then NErr
      else match (if (0 <? n) && c_preparse c then r_mp r else None) with
           | Some ok => readMultipart lim n ok
           | None =>
               (* ReadBody -> readBody -> appendBodyFixedSize *)
               if (max >? 0) && (n >? max) then NErr
               else match adv lim 0 n with Some p => NOk p | None => NErr end
           end
  | FChunked cs zl tl =>
      match nsChunked lim max cs zl 0 0 with
      | NOk p1 =>
          (* Header.ReadTrailer; io.EOF becomes ErrBrokenChunk *)
          match adv lim p1 tl with Some p2 => NOk p2 | None => NErr end
      | e => e
      end
  end.

(* ------------------------------------------------------------------------------------ *)
(* requestStream                                                                        *)
(* ------------------------------------------------------------------------------------ *)

(* chunked mode: s_chs = chunks not yet finished; when s_open, the head chunk's size line was
   consumed and its ch_size is chunkLeft.  fixed mode: s_cl, s_pre (prefetched bytes). *)
Inductive rc := RcOk | RcEof | RcErr.    (* all wanted bytes delivered | io.EOF | another error *)

Record sst := mkSst {
  s_fixed : bool;
  s_cl : Z;
  s_pre : Z;
  s_chs : list chunk;
  s_open : bool;
  s_pos : Z;               (* connection reader position *)
  s_t : Z;                 (* totalBytesRead *)
  s_eof : bool;
  s_err : option rc }.     (* rs.err: the sticky chunked framing error (what every later Read returns) *)

(* repeated Read calls until `want` more data bytes were delivered (None: until EOF).
   totalBytesRead normally starts at 0; the code is followed for any start value (a pooled object
   that was not reset): bytes below max(totalBytesRead, prefetched) need no connection read, the
   length test is `totalBytesRead == contentLength`. *)
Definition fread (lim : option Z) (st : sst) (want : option Z) : rc * sst :=
  let cl := s_cl st in
  let t := s_t st in
  if t =? cl then (RcEof, st)
  else if cl <? t then
    (* the length test never fires: every Read takes what it is asked for from the connection *)
    match want with
    | Some k =>
        match adv lim (s_pos st) k with
        | Some p => (RcOk, mkSst true cl (s_pre st) [] false p (t + k) false None)
        | None => let p := adv_most lim (s_pos st) k in (RcEof, mkSst true cl (s_pre st) [] false p (t + (p - s_pos st)) false None)
        end
    | None =>
        match lim with
        | Some a => let p := Z.max a (s_pos st) in (RcEof, mkSst true cl (s_pre st) [] false p (t + (p - s_pos st)) false None)
        | None => (RcErr, st)          (* blocks until the peer gives up *)
        end
    end
  else
    let target := match want with Some k => Z.min (t + k) cl | None => cl end in
    (* data bytes below base need no connection read *)
    let base := Z.max t (s_pre st) in
    let reach := if target <=? base then target
                 else match lim with
                      | None => target
                      | Some a => Z.min target (base + Z.max 0 (a - s_pos st))
                      end in
    let t' := Z.max t reach in
    let st' := mkSst true cl (s_pre st) [] false (s_pos st + Z.max 0 (t' - base)) t' false None in
    if t' <? target then (RcEof, st')                   (* rs.reader.Read returned io.EOF: passed on as is *)
    else match want with
         | Some k => if target =? t + k then (RcOk, st') else (RcEof, st')
         | None => (RcEof, st')
         end.

Fixpoint cread (lim : option Z) (zl tl : Z) (chs : list chunk) (opened : bool) (pos t : Z) (want : option Z) : rc * sst :=
  match chs with
  | [] =>
      (* parseChunkSize reads the last-chunk line, then ReadTrailer; any parseChunkSize error is kept in rs.err *)
      if at_end lim pos then (RcEof, mkSst false 0 0 [] false pos t false (Some RcEof))
      else match adv lim pos zl with
           | None => (RcErr, mkSst false 0 0 [] false (adv_most lim pos zl) t false (Some RcErr))
           | Some p1 =>
               (* ReadTrailer: only peeks until the section is complete.  Nothing at all there: io.EOF, which is not
                  an error here.  The input ends inside the section: io.ErrUnexpectedEOF, kept in rs.err *)
               match adv lim p1 tl with
               | Some p2 => (RcEof, mkSst false 0 0 [] false p2 t true None)
               | None => if at_end lim p1 then (RcEof, mkSst false 0 0 [] false p1 t true None)
                         else (RcErr, mkSst false 0 0 [] false p1 t false (Some RcErr))
               end
           end
  | c :: chs' =>
      if negb opened && at_end lim pos then (RcEof, mkSst false 0 0 chs false pos t false (Some RcEof))   (* readHexInt: io.EOF *)
      else
      match (if opened then Some pos else adv lim pos (ch_line c)) with
      | None => (RcErr, mkSst false 0 0 chs false (adv_most lim pos (ch_line c)) t false (Some RcErr))
      | Some p1 =>
          let n := match want with Some k => Z.min k (ch_size c) | None => ch_size c end in
          match adv lim p1 n with
          | None =>
              (* the input ends inside the chunk data: io.ErrUnexpectedEOF (not kept: nothing is lost) *)
              let got := adv_most lim p1 n - p1 in
              (RcErr, mkSst false 0 0 (mkChunk (ch_line c) (ch_size c - got) (ch_ok c) :: chs') true (p1 + got) (t + got) false None)
          | Some p2 =>
              if n <? ch_size c then
                (RcOk, mkSst false 0 0 (mkChunk (ch_line c) (ch_size c - n) (ch_ok c) :: chs') true p2 (t + n) false None)
              else
                (* chunkLeft == 0: readCrLf; its error is kept in rs.err *)
                if ch_ok c then
                  match adv lim p2 2 with
                  | None => (RcErr, mkSst false 0 0 chs' false (adv_most lim p2 2) (t + n) false (Some RcErr))
                  | Some p3 =>
                      let want' := match want with Some k => Some (k - n) | None => None end in
                      match want' with
                      | Some 0 => (RcOk, mkSst false 0 0 chs' false p3 (t + n) false None)
                      | _ => cread lim zl tl chs' false p3 (t + n) want'
                      end
                  end
                else
                  (* one wrong byte is consumed and the error is returned *)
                  match adv lim p2 1 with
                  | None => (RcErr, mkSst false 0 0 chs' false p2 (t + n) false (Some RcErr))
                  | Some p3 => (RcErr, mkSst false 0 0 chs' false p3 (t + n) false (Some RcErr))
                  end
          end
      end
  end.

Definition sread (lim : option Z) (zl tl : Z) (st : sst) (want : option Z) : rc * sst :=
  match want with
  | Some 0 => (RcOk, st)
  | _ =>
    if s_fixed st then fread lim st want
    else if s_eof st then (RcEof, st)
    else match s_err st with
         | Some e => (e, st)                       (* the framing is broken: there is no way to resume *)
         | None => cread lim zl tl (s_chs st) (s_open st) (s_pos st) (s_t st) want
         end
  end.

(* requestStream.drained: the whole body has been read from the stream *)
Definition drained (st : sst) : bool := if s_fixed st then s_t st =? s_cl st else s_eof st.

(* ------------------------------------------------------------------------------------ *)
(* requestStreamPool                                                                    *)
(* ------------------------------------------------------------------------------------ *)

(* The fields of a requestStream object that acquireRequestStream does NOT assign (it sets
   prefetchedBytes, reader, header and contentLength): what the previous user left in them is what
   the next request's stream starts with, on any connection.  releaseRequestStream is the only
   thing that clears them. *)
Record rsobj := mkRs { o_t : Z; o_left : Z; o_eof : bool; o_err : option rc }.   (* totalBytesRead, chunkLeft, eof, err *)
Definition rs_new : rsobj := mkRs 0 0 false None.                                 (* requestStreamPool.New *)

(* releaseRequestStream, assignment by assignment (the other four fields are overwritten by acquire) *)
Definition releaseRequestStream (o : rsobj) : rsobj :=
  let o := mkRs 0 (o_left o) (o_eof o) (o_err o) in       (* rs.totalBytesRead = 0 *)
  let o := mkRs (o_t o) 0 (o_eof o) (o_err o) in          (* rs.chunkLeft = 0 *)
  let o := mkRs (o_t o) (o_left o) false (o_err o) in     (* rs.eof = false *)
  mkRs (o_t o) (o_left o) (o_eof o) None.                 (* rs.err = nil *)

Definition rspool := list rsobj.
Definition rs_acquire (p : rspool) (k : nat) : rsobj * rspool :=
  match nth_error p k with
  | Some o => (o, (firstn k p ++ skipn (S k) p)%list)
  | None => (rs_new, p)
  end.

(* a stream together with the chunkLeft it inherited and has not used up yet *)
Record dstream := mkD { d_skip : Z; d_st : sst }.

(* the clean stream of ContinueReadBodyStream overlaid with what the pooled object carried *)
Definition stream_on (o : rsobj) (st : sst) : dstream :=
  mkD (o_left o)
      (mkSst (s_fixed st) (s_cl st) (s_pre st) (s_chs st) (s_open st) (s_pos st) (o_t o)
             (if s_fixed st then false else o_eof o) (if s_fixed st then None else o_err o)).

(* where a reader lands that took the first raw bytes of a chunked body for chunk data and now expects
   CRLF at raw offset p: at the intact terminator of a real chunk (the real chunks after it remain) ... *)
Fixpoint land_real (cs : list chunk) (off p : Z) : option (list chunk) :=
  match cs with
  | [] => None
  | c :: cs' =>
      if (p =? off + ch_line c + ch_size c) && ch_ok c then Some cs'
      else land_real cs' (off + chunk_len c) p
  end.

(* requestStream.Read with an inherited chunkLeft: no size line is parsed, the next d_skip raw bytes
   are delivered as data, then readCrLf *)
Definition dread (lim : option Z) (zl tl : Z) (cs : list chunk) (alt : option (Z * Z)) (d : dstream) (want : option Z) : rc * dstream :=
  let st := d_st d in
  match want with
  | Some 0 => (RcOk, d)
  | _ =>
    if s_fixed st || s_eof st || (match s_err st with Some _ => true | None => false end) || (d_skip d <=? 0) then
      let '(x, st') := sread lim zl tl st want in (x, mkD (d_skip d) st')
    else
      let n := match want with Some k => Z.min k (d_skip d) | None => d_skip d end in
      match adv lim (s_pos st) n with
      | None =>
          let got := adv_most lim (s_pos st) n - s_pos st in     (* io.ErrUnexpectedEOF *)
          (RcErr, mkD (d_skip d - got) (mkSst false 0 0 (s_chs st) false (s_pos st + got) (s_t st + got) false None))
      | Some p2 =>
          if n <? d_skip d then
            (RcOk, mkD (d_skip d - n) (mkSst false 0 0 (s_chs st) false p2 (s_t st + n) false None))
          else
            (* chunkLeft == 0: readCrLf at raw offset p2 *)
            let landed :=
              match land_real cs 0 p2 with
              | Some rest => Some rest
              | None => match alt with Some (a, _) => if p2 =? a then Some [] else None | None => None end
              end in
            match landed, adv lim p2 2 with
            | Some rest, Some p3 =>
                let st' := mkSst false 0 0 rest false p3 (s_t st + n) false None in
                let want' := match want with Some k => Some (k - n) | None => None end in
                match want' with
                | Some 0 => (RcOk, mkD 0 st')
                | _ => let '(x, st'') := sread lim zl tl st' want' in (x, mkD 0 st'')
                end
            | _, _ =>
                (* no CRLF there: the error is kept in rs.err *)
                (RcErr, mkD 0 (mkSst false 0 0 (s_chs st) false (adv_most lim p2 1) (s_t st + n) false (Some RcErr)))
            end
      end
  end.

(* rs.chunkLeft of the object when it goes back to the pool *)
Definition left_of (d : dstream) : Z :=
  let st := d_st d in
  if s_fixed st then d_skip d
  else if 0 <? d_skip d then d_skip d
  else if s_open st then match s_chs st with c :: _ => ch_size c | [] => 0 end else 0.
Definition obj_of (d : dstream) : rsobj := mkRs (s_t (d_st d)) (left_of d) (s_eof (d_st d)) (s_err (d_st d)).

(* ------------------------------------------------------------------------------------ *)
(* streaming body reading: Request.ContinueReadBodyStream                               *)
(* ------------------------------------------------------------------------------------ *)

Inductive sinit :=
| SPlain (r : nsres)      (* no stream object: no body, pre-parsed multipart form, or an error *)
| SStream (st : sst).

Definition prefetchLimit : Z := 8 * 1024.

Definition continueReadBodyStream (c : cfg) (r : req) : sinit :=
  let lim := r_lim r in
  match r_fr r with
  | FNone => SPlain (NOk 0)
  | FFixed n =>
      match (if (0 <? n) && c_preparse c then r_mp r else None) with
      | Some ok => SPlain (readMultipart lim n ok)
      | None =>
          (* readBodyWithStreaming *)
          let readN := Z.min (Z.min (emax c r) n) prefetchLimit in
          match adv lim 0 readN with
          | None => SPlain NErr
          | Some p => SStream (mkSst true n readN [] false p 0 false None)    (* also when n > max (ErrBodyTooLarge) *)
          end
      end
  | FChunked cs zl tl => SStream (mkSst false 0 0 cs false 0 0 false None)    (* errChunkedStream *)
  end.

(* ------------------------------------------------------------------------------------ *)
(* one iteration of the serve loop                                                      *)
(* ------------------------------------------------------------------------------------ *)

Inductive event :=
| EParse (off : Z)                         (* a head parse starts at this connection offset *)
| E100                                     (* "HTTP/1.1 100 Continue" written *)
| EDispatch (id : Z) (nread : Z) (hrc : rc)(* handler called; what its reads over the stream returned *)
| EResp (status : Z) (closehdr : bool)     (* final response of the iteration, handed to the buffered writer (flushed at once unless more
                                              pipelined input is already buffered) *)
| EHijack
| EDesync (id : Z) (rel abs : Z)           (* keep-alive after request id at offset rel of its body (abs on the connection), which is not where the next request starts *)
| ESilent                                  (* the loop ends on io.EOF while reading a body: no response, and bw is NOT flushed:
                                              responses of earlier pipelined requests that were still buffered are never sent *)
| EClose.                                  (* the server stops reading the connection *)

(* what an observer of the connection sees: everything but the bookkeeping events *)
Definition visible (e : event) : bool := match e with EParse _ | EClose | ESilent => false | _ => true end.

Definition zl_of (f : framing) : Z := match f with FChunked _ zl _ => zl | _ => 0 end.
Definition tl_of (f : framing) : Z := match f with FChunked _ _ tl => tl | _ => 0 end.

Definition statusOK : Z := StatusOK.
Definition statusBadRequest : Z := StatusBadRequest.
Definition statusRequestTimeout : Z := StatusRequestTimeout.
Definition statusExpectationFailed : Z := StatusExpectationFailed.
Definition statusContinue : Z := StatusContinue.

(* result of the body-reading phase *)
Inductive bphase :=
| BReady (pos : Z) (st : option sst)       (* the handler can run *)
| BFailSilent                              (* err == io.EOF in the main path: break, no response *)
| BFail.                                   (* writeErrorResponse(400), break *)

Definition read_body (c : cfg) (r : req) (expect_path : bool) : bphase :=
  if c_stream c then
    match continueReadBodyStream c r with
    | SStream st => BReady (s_pos st) (Some st)
    | SPlain (NOk p) => BReady p None
    | SPlain NEof => if expect_path then BFail else BFailSilent
    | SPlain NErr => BFail
    end
  else
    match continueReadBody c r with
    | NOk p => BReady p None
    | NEof => if expect_path then BFail else BFailSilent
    | NErr => BFail
    end.

Definition cs_of (f : framing) : list chunk := match f with FChunked cs _ _ => cs | _ => [] end.
Definition rread (r : req) (d : dstream) (want : option Z) : rc * dstream :=
  dread (r_lim r) (zl_of (r_fr r)) (tl_of (r_fr r)) (cs_of (r_fr r)) (r_alt r) d want.

(* the handler's reads *)
Definition run_reads (r : req) (d : dstream) : Z * rc * dstream :=
  match r_rd r with
  | RNone => (0, RcOk, d)
  | RUpTo k =>
      let '(x, d') := rread r d (Some k) in
      let n := s_t (d_st d') - s_t (d_st d) in
      (n, (if n =? k then RcOk else x), d')          (* the reading loop stops, satisfied, at k bytes whatever came with them *)
  | REOF => let '(x, d') := rread r d None in (s_t (d_st d') - s_t (d_st d), x, d')
  end.

(* io.CopyN(io.Discard, rs, max+1): true = connectionClose *)
Definition drain (c : cfg) (r : req) (d : dstream) : bool * dstream :=
  let '(x, d') := rread r d (Some (emax c r + 1)) in
  (match x with RcEof => false | _ => true end, d').

(* the iteration up to the handler call *)
Inductive pre :=
| PStop (evs : list event)                                (* the loop breaks before the handler *)
| PRun (evs : list event) (pos : Z) (st : option sst).    (* the handler runs: reader position, body stream (before a pooled object is attached) *)

Definition expect_verdict (c : cfg) (r : req) : option Z :=   (* Some status: the expectation is rejected with it *)
  if r_expect r then
    if c_expectH c then (if r_expect_status r =? statusContinue then None else Some (r_expect_status r))
    else if c_continueH c then (if r_continue_ok r then None else Some statusExpectationFailed)
    else None
  else None.

Definition before_handler (c : cfg) (r : req) : pre :=
  if negb (r_uri_ok r) then PStop [EResp statusBadRequest true]                      (* parseURI error: writeErrorResponse, break; the body is not read *)
  else if c_getonly c && negb (r_getlike r) then PStop [EResp statusBadRequest true]       (* ErrGetOnly *)
  else
  (* first body-reading attempt: skipped when MayContinue() *)
  let first := if r_expect r then BReady 0 None else read_body c r false in
  match first with
  | BFailSilent => PStop [ESilent]
  | BFail => PStop [EResp statusBadRequest true]
  | BReady pos0 st0 =>
    (* 'Expect: 100-continue' request handling *)
    match expect_verdict c r with
    | Some status =>
        (* continueReadingRequest = false; connectionClose = true; handler not called *)
        PStop [EResp status true]
    | None =>
      let second := if r_expect r then read_body c r true else BReady pos0 st0 in
      let pre := if r_expect r then [E100] else [] in
      match second with
      | BFailSilent => PStop (pre ++ [ESilent])
      | BFail => PStop (pre ++ [EResp statusBadRequest true])
      | BReady pos1 st1 => PRun pre pos1 st1
      end
    end
  end.

(* the handler call and the rest of the iteration; returns the events, Some pos (keep-alive,
   next head parse at pos, relative to the end of this head) or None (connection finished), and the
   stream as it is when its object goes back to the pool *)
Definition after_handler (c : cfg) (r : req) (pos1 : Z) (st1 : option dstream) : list event * option Z * option dstream :=
  let close0 := c_nokeepalive c || r_close r in
  (* s.Handler(ctx) *)
  let '(nread, hrc, st2) :=
    match st1 with
    | Some d => let '(n, x, d') := run_reads r d in (n, x, Some d')
    | None => (0, RcOk, None)
    end in
  let pos2 := match st2 with Some d => s_pos (d_st d) | None => pos1 end in
  (* closeBodyStream (CloseBodyStream, ResetBody, SetBody...) detaches the stream and records in
     req.bodyStreamUnread whether the body had been read to its end; a timeout swaps the ctx *)
  let attached :=
    match r_fin r with
    | FinDetach => None
    | FinTimeout => None
    | _ => st2
    end in
  let unread :=
    match r_fin r, st2 with
    | FinDetach, Some d => negb (drained (d_st d))
    | _, _ => false
    end in
  let timedout := match r_fin r with FinTimeout => true | _ => false end in
  let status := match r_fin r with FinTimeout => statusRequestTimeout | _ => statusOK end in
  let hijack := match r_fin r with FinHijack => true | _ => false end in
  let had_stream := match st1 with Some _ => true | None => false end in
  let '(close1, pos3, st3) :=
    if had_stream && negb hijack && (timedout || unread) then
      (* the rest of the body cannot be skipped: the connection must not be reused *)
      (true, pos2, st2)
    else
      (* the drain *)
      match attached with
      | Some d => if hijack then (close0, pos2, st2)
                  else let '(cl, d') := drain c r d in (close0 || cl, s_pos (d_st d'), Some d')
      | None => (close0, pos2, st2)
      end in
  let close2 := close1 || match r_fin r with FinConnClose => true | _ => false end in
  let evs := [EDispatch (r_id r) nread hrc; EResp status close2] in
  if close2 then (evs, None, st3)
  else if hijack then (evs ++ [EHijack], None, st3)
  else (evs, Some pos3, st3).

(* One iteration over the requestStream pool.  `rel` is what happens to the object's fields when it
   goes back to the pool (releaseRequestStream in the real code): the stream is released by
   closeBodyStream, at the end of the iteration, or when the ctx is reset after the connection or the
   hijack handler ended; after a handler timeout the ctx, and the stream with it, is never pooled again. *)
Definition serve_one (rel : rsobj -> rsobj) (c : cfg) (r : req) (p : rspool) : list event * option Z * rspool :=
  match before_handler c r with
  | PStop evs => (evs, None, p)
  | PRun evs pos st =>
      let '(d, p1) :=
        match st with
        | Some s => let '(o, p1) := rs_acquire p (r_pick r) in (Some (stream_on o s), p1)    (* acquireRequestStream *)
        | None => (None, p)
        end in
      let '(evs2, nxt, dfin) := after_handler c r pos d in
      let p2 := match dfin, r_fin r with
                | Some _, FinTimeout => p1
                | Some df, _ => rel (obj_of df) :: p1
                | None, _ => p1
                end in
      (evs ++ evs2, nxt, p2)
  end.

(* ------------------------------------------------------------------------------------ *)
(* the connection: a list of pipelined requests, then end of input                      *)
(* ------------------------------------------------------------------------------------ *)

(* bytes the framing occupies on the wire as the harness writes it *)
Definition wire_len (f : framing) : Z :=
  match f with
  | FNone => 0
  | FFixed n => n
  | FChunked cs zl tl => chunks_len cs + zl + tl
  end.

Definition truncated (r : req) : bool := match r_lim r with Some _ => true | None => false end.

Fixpoint serve_p (rel : rsobj -> rsobj) (c : cfg) (rs : list req) (base : Z) (p : rspool) : list event * rspool :=
  match rs with
  | [] => ([EClose], p)                               (* br.Peek(1): io.EOF *)
  | r :: rest =>
      let '(evs, nxt, p1) := serve_one rel c r p in
      let '(tail, p2) :=
        match nxt with
        | None => ([EClose], p1)
        | Some off =>
            if at_end (r_lim r) off then ([EClose], p1)   (* br.Peek(1): io.EOF; nothing is left to parse *)
            else if negb (truncated r) && (off =? wire_len (r_fr r)) then serve_p rel c rest (base + r_head r + off) p1
            else ([EDesync (r_id r) off (base + r_head r + off)], p1)
        end in
      (EParse base :: evs ++ tail, p2)
  end.

(* several connections one after the other over the same pool *)
Fixpoint serve_conns (rel : rsobj -> rsobj) (c : cfg) (conns : list (list req)) (p : rspool) : list (list event) :=
  match conns with
  | [] => []
  | rs :: more => let '(tr, p1) := serve_p rel c rs 0 p in tr :: serve_conns rel c more p1
  end.

(* one connection of a server whose pool is empty *)
Definition serve (c : cfg) (rs : list req) (base : Z) : list event := fst (serve_p releaseRequestStream c rs base []).
