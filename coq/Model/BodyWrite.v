(* BodyWrite.v — model of the message-body WRITERS of http.go:
     writeChunk, writeBodyChunked (Read loop and the WriteTo shortcut for bytes.Reader /
     bytes.Buffer), writeBodyFixedSize -> copyBodyStream -> copyZeroAlloc, which for a
     bufio.Writer destination is bufio.Writer.ReadFrom (plain readers) or WriterTo.WriteTo
     (bytes.Reader), Response.writeBodyStream / Request.writeBodyStream (framing choice, trailer,
     panic recovery), and the pure wire encodings used by the theorems.

   Ingredients:
     * `bw`       — bufio.Writer over a target that accepts `budget` more bytes and then fails
                    (budget < 0: never fails): Write, Flush exactly as in the Go standard library.
     * `sstate`   — a body stream: its content and a script saying how each Read call behaves
                    (how many bytes it offers, (0,nil), error, panic).  Read(p) delivers
                    min(offer, len p, remaining) bytes, so the same stream can be read through
                    buffers of any size (copyBufPool's 4096 bytes, or bufio's free space).
   No proofs here (Proof/BodyWriteProof.v). *)
From FH Require Import Model.Base Gen.GenC30 Gen.GenC34 Model.Ints Model.Body.
Open Scope Z_scope.

(* ------------------------------------------------------------------ *)
(* bufio.Writer over a failing target                                  *)
(* ------------------------------------------------------------------ *)
Record bw := mkBW {
  bw_size : Z;        (* len(b.buf) *)
  bw_buf : bytes;     (* b.buf[:b.n] *)
  bw_out : bytes;     (* everything the target has accepted *)
  bw_budget : Z;      (* bytes the target still accepts; negative = unlimited *)
  bw_err : bool       (* b.err != nil (sticky) *)
}.
Definition bw_new (size budget : Z) : bw := mkBW size [] [] budget false.
Definition bw_avail (w : bw) : Z := bw_size w - blen (bw_buf w).
(* bytes a peer has received once everything still buffered is flushed successfully *)
Definition bw_wire (w : bw) : bytes := bw_out w ++ bw_buf w.

(* target.Write(p): accepts min(len p, budget) bytes, error iff it could not accept all *)
Definition tgt_write (w : bw) (p : bytes) : bw * Z * bool (* w', n, failed *) :=
  if bw_budget w <? 0 then
    (mkBW (bw_size w) (bw_buf w) (bw_out w ++ p) (bw_budget w) (bw_err w), blen p, false)
  else if blen p <=? bw_budget w then
    (mkBW (bw_size w) (bw_buf w) (bw_out w ++ p) (bw_budget w - blen p) (bw_err w), blen p, false)
  else
    (mkBW (bw_size w) (bw_buf w) (bw_out w ++ btake (bw_budget w) p) 0 (bw_err w), bw_budget w, true).

(* bufio.Writer.Flush; returns the writer and "err == nil" *)
Definition bw_flush (w : bw) : bw * bool :=
  if bw_err w then (w, false)
  else match bw_buf w with
       | [] => (w, true)
       | buf =>
           match tgt_write w buf with
           | (w1, n, failed) =>
               if failed then (mkBW (bw_size w1) (bdrop n buf) (bw_out w1) (bw_budget w1) true, false)
               else (mkBW (bw_size w1) [] (bw_out w1) (bw_budget w1) false, true)
           end
       end.

(* bufio.Writer.Write.  The Go loop `for len(p) > b.Available() && b.err == nil` runs at
   most twice: once to top up and flush a non-empty buffer, once to pass a large p straight
   to the target; the two iterations are written out. *)
Definition bw_write (w : bw) (p : bytes) : bw * bool :=
  (* iteration with b.Buffered() > 0: copy what fits, Flush *)
  let '(w1, p1) :=
    if (blen p >? bw_avail w) && negb (bw_err w) && negb (beq (bw_buf w) []) then
      let n := bw_avail w in
      let wf := mkBW (bw_size w) (bw_buf w ++ btake n p) (bw_out w) (bw_budget w) (bw_err w) in
      (fst (bw_flush wf), bdrop n p)
    else (w, p) in
  (* iteration with b.Buffered() == 0: large write, directly to the target *)
  let '(w2, p2) :=
    if (blen p1 >? bw_avail w1) && negb (bw_err w1) then
      match tgt_write w1 p1 with
      | (wt, n, failed) =>
          (mkBW (bw_size wt) (bw_buf wt) (bw_out wt) (bw_budget wt) failed, bdrop n p1)
      end
    else (w1, p1) in
  if bw_err w2 then (w2, false)
  else (mkBW (bw_size w2) (bw_buf w2 ++ p2) (bw_out w2) (bw_budget w2) false, true).

(* ------------------------------------------------------------------ *)
(* body streams                                                        *)
(* ------------------------------------------------------------------ *)
Inductive rdop :=
| OData (k : Z)       (* offers k bytes: (n, nil) *)
| ODataEOF (k : Z)    (* like OData, but returns io.EOF together with the last bytes *)
| OZero               (* (0, nil) *)
| OErr                (* (0, err) with err != io.EOF *)
| OPanic.             (* Read panics *)

Record sstate := mkSS { ss_data : bytes; ss_script : list rdop }.

Inductive rdres :=
| RdOk (p : bytes) (eof : bool)   (* (len p, nil) or (len p, io.EOF) *)
| RdErr
| RdPanic.

(* one Read(p) with len(p) = c > 0 *)
Definition sread (s : sstate) (c : Z) : rdres * sstate :=
  let d := ss_data s in
  match ss_script s with
  | [] =>
      match d with
      | [] => (RdOk [] true, s)
      | _ => let n := Z.min c (blen d) in (RdOk (btake n d) false, mkSS (bdrop n d) [])
      end
  | OData k :: sc =>
      match d with
      | [] => (RdOk [] true, mkSS [] sc)
      | _ => let n := Z.min (Z.max k 1) (Z.min c (blen d)) in (RdOk (btake n d) false, mkSS (bdrop n d) sc)
      end
  | ODataEOF k :: sc =>
      match d with
      | [] => (RdOk [] true, mkSS [] sc)
      | _ => let n := Z.min (Z.max k 1) (Z.min c (blen d)) in
             (RdOk (btake n d) (blen d =? n), mkSS (bdrop n d) sc)
      end
  | OZero :: sc => (RdOk [] false, mkSS d sc)
  | OErr :: sc => (RdErr, mkSS d sc)
  | OPanic :: sc => (RdPanic, mkSS d sc)
  end.

(* fuel for any loop that performs one Read per iteration *)
Definition sfuel (s : sstate) : nat := S (S (length (ss_data s) + length (ss_script s))).

(* which Go type the stream has, as far as the writers care *)
Inductive skind :=
| KReader           (* any io.Reader without WriteTo *)
| KBytesReader.     (* bytes.Reader / bytes.Buffer: WriteTo writes everything in one Write *)

(* outcome of a writer *)
Inductive wres :=
| WOk                 (* nil *)
| WErrWrite           (* the bufio.Writer / target failed *)
| WErrRead            (* the stream's Read returned an error *)
| WErrSize            (* "copied n bytes from body stream instead of size bytes" *)
| WErrNoProgress      (* io.ErrNoProgress: 100 consecutive (0, nil) reads in bufio.ReadFrom *)
| WPanic              (* the stream's Read panicked (or writeHexInt's sanity check) *)
| WOutOfFuel.

Definition wres_eqb (a b : wres) : bool :=
  match a, b with
  | WOk, WOk | WErrWrite, WErrWrite | WErrRead, WErrRead | WErrSize, WErrSize
  | WErrNoProgress, WErrNoProgress | WPanic, WPanic | WOutOfFuel, WOutOfFuel => true
  | _, _ => false
  end.

(* ------------------------------------------------------------------ *)
(* writeChunk                                                          *)
(* ------------------------------------------------------------------ *)
Definition copyBufSize : Z := 4096.       (* copyBufPool: make([]byte, 4096) *)

Definition writeChunk (w : bw) (b : bytes) : bw * wres :=
  let n := blen b in
  match writeHexInt maxHexIntChars64 n with
  | None => (w, WPanic)
  | Some hx =>
      let '(w1, ok1) := bw_write w hx in
      if negb ok1 then (w1, WErrWrite) else
      let '(w2, ok2) := bw_write w1 strCRLF in
      if negb ok2 then (w2, WErrWrite) else
      let '(w3, ok3) := bw_write w2 b in
      if negb ok3 then (w3, WErrWrite) else
      let '(w4, ok4) := if n >? 0 then bw_write w3 strCRLF else (w3, true) in
      if negb ok4 then (w4, WErrWrite) else
      let '(w5, ok5) := bw_flush w4 in
      (w5, if ok5 then WOk else WErrWrite)
  end.

(* ------------------------------------------------------------------ *)
(* writeBodyChunked                                                    *)
(* ------------------------------------------------------------------ *)
Fixpoint wbc_loop (fuel : nat) (w : bw) (s : sstate) : bw * sstate * wres :=
  match fuel with
  | O => (w, s, WOutOfFuel)
  | S f =>
      match sread s copyBufSize with
      | (RdPanic, s') => (w, s', WPanic)
      | (RdErr, s') => (w, s', WErrRead)                       (* n == 0, err != nil, err != io.EOF *)
      | (RdOk [] false, s') => wbc_loop f w s'                  (* n == 0, err == nil: continue *)
      | (RdOk [] true, s') =>                                   (* n == 0, io.EOF: final chunk *)
          let '(w', r) := writeChunk w [] in (w', s', r)
      | (RdOk p _, s') =>                                       (* n > 0: the error, if any, is dropped *)
          let '(w', r) := writeChunk w p in
          match r with WOk => wbc_loop f w' s' | _ => (w', s', r) end
      end
  end.

Definition writeBodyChunked (k : skind) (w : bw) (s : sstate) : bw * sstate * wres :=
  match k with
  | KBytesReader =>
      (* wt.WriteTo(&chunkedBodyWriter): one Write with everything, unless empty *)
      let d := ss_data s in
      let s' := mkSS [] (ss_script s) in
      match d with
      | [] => let '(w', r) := writeChunk w [] in (w', s', r)
      | _ =>
          let '(w1, r1) := writeChunk w d in
          match r1 with
          | WOk => let '(w2, r2) := writeChunk w1 [] in (w2, s', r2)
          | _ => (w1, s', r1)
          end
      end
  | KReader => wbc_loop (sfuel s) w s
  end.

(* ------------------------------------------------------------------ *)
(* writeBodyFixedSize                                                  *)
(* ------------------------------------------------------------------ *)
Definition maxConsecutiveEmptyReads : Z := 100.   (* bufio *)

(* io.LimitedReader{R: stream, N: lim}.Read(p), len p = c; lim = None: the bare stream *)
Definition lread (s : sstate) (lim : option Z) (c : Z) : rdres * sstate * option Z :=
  match lim with
  | None => let '(r, s') := sread s c in (r, s', None)
  | Some n =>
      if n <=? 0 then (RdOk [] true, s, lim)                    (* return 0, io.EOF *)
      else
        let '(r, s') := sread s (Z.min c n) in
        match r with
        | RdOk p _ => (r, s', Some (n - blen p))
        | _ => (r, s', lim)
        end
  end.

(* bufio.Writer.ReadFrom(r) for a target that is not an io.ReaderFrom.
   n = bytes copied so far, nr = consecutive empty reads of the current round. *)
Fixpoint rf_loop (fuel : nat) (w : bw) (s : sstate) (lim : option Z) (n nr : Z) : bw * sstate * Z * wres :=
  match fuel with
  | O => (w, s, n, WOutOfFuel)
  | S f =>
      (* if b.Available() == 0 { Flush } — re-evaluating it after an empty read changes nothing *)
      let '(w0, okf) := if bw_avail w =? 0 then bw_flush w else (w, true) in
      if negb okf then (w0, s, n, WErrWrite)
      else
        match lread s lim (bw_avail w0) with
        | (RdPanic, s', _) => (w0, s', n, WPanic)
        | (RdErr, s', _) => (w0, s', n, WErrRead)
        | (RdOk [] false, s', lim') =>
            if nr + 1 >=? maxConsecutiveEmptyReads then (w0, s', n, WErrNoProgress)
            else rf_loop f w0 s' lim' n (nr + 1)
        | (RdOk p eof, s', lim') =>
            let w1 := mkBW (bw_size w0) (bw_buf w0 ++ p) (bw_out w0) (bw_budget w0) (bw_err w0) in
            let n' := n + blen p in
            if eof then
              (* io.EOF: if the buffer is exactly full, flush preemptively *)
              if bw_avail w1 =? 0 then
                let '(w2, ok2) := bw_flush w1 in (w2, s', n', if ok2 then WOk else WErrWrite)
              else (w1, s', n', WOk)
            else rf_loop f w1 s' lim' n' 0
        end
  end.

Definition bw_readfrom (w : bw) (s : sstate) (lim : option Z) : bw * sstate * Z * wres :=
  if bw_err w then (w, s, 0, WErrWrite) else rf_loop (S (sfuel s)) w s lim 0 0.

(* copyBodyStream(w, r) with w a bufio.Writer; lim = Some size when r was wrapped in io.LimitReader *)
Definition copyBodyStream (k : skind) (w : bw) (s : sstate) (lim : option Z) : bw * sstate * Z * wres :=
  match k with
  | KBytesReader =>
      let d := ss_data s in
      let s' := mkSS [] (ss_script s) in
      match d with
      | [] => (w, s', 0, WOk)                                  (* bytes.Reader.WriteTo: nothing to write *)
      | _ =>
          let '(w1, ok) := bw_write w d in
          (* n = bytes accepted by bufio; on failure bytes.Reader reports the write error *)
          (w1, s', (if ok then blen d else 0), if ok then WOk else WErrWrite)
      end
  | KReader => bw_readfrom w s lim
  end.

(* writeBodyFixedSize: plain readers are limited to the declared size (io.LimitReader) and
   probed with a one-byte Read afterwards; io.WriterTo streams copy themselves unlimited. *)
Definition writeBodyFixedSize (k : skind) (w : bw) (s : sstate) (size : Z) : bw * sstate * wres :=
  let limited := match k with KReader => true | KBytesReader => false end in
  let '(w1, s1, n, r) := copyBodyStream k w s (if limited then Some size else None) in
  match r with
  | WOk =>
      if negb (n =? size) then (w1, s1, WErrSize)              (* copied n bytes instead of size *)
      else if limited then
        match sread s1 1 with                                   (* r.Read(b[:1]) *)
        | (RdOk (_ :: _) _, s2) => (w1, s2, WErrSize)          (* body stream yields more than size bytes *)
        | (RdPanic, s2) => (w1, s2, WPanic)
        | (_, s2) => (w1, s2, WOk)
        end
      else (w1, s1, WOk)
  | _ => (w1, s1, r)
  end.

(* ------------------------------------------------------------------ *)
(* Response.writeBodyStream / Request.writeBodyStream                  *)
(* ------------------------------------------------------------------ *)
(* hdr = the bytes Header.Write produces for this message (opaque here: Model/Write.v),
   trailer = Header.TrailerHeader() (CRLF when no trailer is announced),
   cl = Header.ContentLength() after SetBodyStream (>= 0 fixed, < 0 chunked).
   `closed` in the result says whether closeBodyStream ran (it does not when Read panicked). *)
Record wsout := mkWS { ws_w : bw; ws_s : sstate; ws_res : wres; ws_closed : bool }.

Definition respWriteBodyStream (k : skind) (hdr trailer : bytes) (cl : Z) (sendBody immediateFlush : bool)
           (w : bw) (s : sstate) : wsout :=
  let '(w1, ok1) := bw_write w hdr in
  if negb ok1 then mkWS w1 s WErrWrite true else
  let '(w2, ok2) := if immediateFlush then bw_flush w1 else (w1, true) in
  if negb ok2 then mkWS w2 s WErrWrite true else
  if cl >=? 0 then
    if sendBody then
      let '(w3, s3, r3) := writeBodyFixedSize k w2 s cl in
      match r3 with
      | WPanic => mkWS w3 s3 WPanic false          (* recovered by the deferred func; stream stays attached *)
      | _ => mkWS w3 s3 r3 true
      end
    else mkWS w2 s WOk true
  else
    if sendBody then
      let '(w3, s3, r3) := writeBodyChunked k w2 s in
      match r3 with
      | WPanic => mkWS w3 s3 WPanic false
      | WOk =>
          let '(w4, ok4) := bw_write w3 trailer in
          mkWS w4 s3 (if ok4 then WOk else WErrWrite) true
      | _ => mkWS w3 s3 r3 true
      end
    else mkWS w2 s WOk true.

(* Request.writeBodyStream has no recover: a panic propagates to the caller of Write *)
Definition reqWriteBodyStream (k : skind) (hdr trailer : bytes) (cl : Z) (w : bw) (s : sstate) : wsout :=
  respWriteBodyStream k hdr trailer cl true false w s.

(* ------------------------------------------------------------------ *)
(* pure wire encodings                                                 *)
(* ------------------------------------------------------------------ *)
Definition hex_of (n : Z) : bytes := match writeHexInt maxHexIntChars64 n with Some d => d | None => [] end.
(* one non-final chunk as writeChunk emits it *)
Definition enc_chunk (c : bytes) : bytes := hex_of (blen c) ++ strCRLF ++ c ++ strCRLF.
(* the last-chunk line ("0" CRLF); the trailer section and final CRLF come from writeTrailer *)
Definition enc_last : bytes := hex_of 0 ++ strCRLF.
Definition enc_chunks (cs : list bytes) : bytes := concat (map enc_chunk cs) ++ enc_last.
(* a complete chunked body with an empty trailer section *)
Definition enc_chunked_message (cs : list bytes) : bytes := enc_chunks cs ++ strCRLF.

(* ------------------------------------------------------------------ *)
(* streams that copy themselves: io.WriterTo / BodyWriterTo            *)
(* ------------------------------------------------------------------ *)
(* A bytes.Reader, a bytes.Buffer or a BodyWriterTo with SupportsBodyWriteTo() = true is not
   Read by fasthttp: its WriteTo is handed a writer and issues Write calls.  Such a stream is
   the list `segs` of the byte slices it writes, in order — empty slices included — and it
   stops at the first Write that fails, returning that error.

   chunkedBodyWriter.Write(p): the adapter writeBodyChunked passes to WriteTo.
     if len(p) == 0 { return 0, nil }      -- an empty chunk would be the end-of-body marker
     writeChunk(cw.w, p)                                                                   *)
Definition chunkedBodyWriter_Write (w : bw) (p : bytes) : bw * wres :=
  match p with
  | [] => (w, WOk)
  | _ => writeChunk w p
  end.

(* wt.WriteTo(&cw) *)
Fixpoint writeTo_chunked (w : bw) (segs : list bytes) : bw * wres :=
  match segs with
  | [] => (w, WOk)
  | p :: rest =>
      let '(w1, r) := chunkedBodyWriter_Write w p in
      match r with WOk => writeTo_chunked w1 rest | _ => (w1, r) end
  end.

(* writeBodyChunked(w, r) for such a stream: WriteTo through the adapter, then the last-chunk line *)
Definition writeBodyChunkedWT (w : bw) (segs : list bytes) : bw * wres :=
  let '(w1, r) := writeTo_chunked w segs in
  match r with
  | WOk => writeChunk w1 []
  | _ => (w1, r)
  end.

(* copyBodyStream(w, r) for a BodyWriterTo that opted in: r.WriteTo(w) with w the bufio.Writer itself;
   n = bytes written *)
Fixpoint writeTo_plain (w : bw) (segs : list bytes) (n : Z) : bw * Z * wres :=
  match segs with
  | [] => (w, n, WOk)
  | p :: rest =>
      let '(w1, ok) := bw_write w p in
      if ok then writeTo_plain w1 rest (n + blen p) else (w1, n, WErrWrite)
  end.

(* writeBodyFixedSize for it: not limited (the stream copies itself), only the size is compared *)
Definition writeBodyFixedSizeWT (w : bw) (segs : list bytes) (size : Z) : bw * wres :=
  let '(w1, n, r) := writeTo_plain w segs 0 in
  match r with
  | WOk => (w1, if n =? size then WOk else WErrSize)
  | _ => (w1, r)
  end.

(* Response.writeBodyStream / Request.writeBodyStream with such a stream (no Read, hence no panic path) *)
Definition respWriteBodyStreamWT (hdr trailer : bytes) (cl : Z) (sendBody immediateFlush : bool)
           (w : bw) (segs : list bytes) : bw * wres :=
  let '(w1, ok1) := bw_write w hdr in
  if negb ok1 then (w1, WErrWrite) else
  let '(w2, ok2) := if immediateFlush then bw_flush w1 else (w1, true) in
  if negb ok2 then (w2, WErrWrite) else
  if cl >=? 0 then
    if sendBody then writeBodyFixedSizeWT w2 segs cl else (w2, WOk)
  else
    if sendBody then
      let '(w3, r3) := writeBodyChunkedWT w2 segs in
      match r3 with
      | WOk => let '(w4, ok4) := bw_write w3 trailer in (w4, if ok4 then WOk else WErrWrite)
      | _ => (w3, r3)
      end
    else (w2, WOk).
