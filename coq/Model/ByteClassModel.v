(* Model of the table-driven byte functions of header.go / bytesconv.go. Tables come from Gen/GenC32.v. *)
From FH Require Import Model.Base Gen.GenC32.
Open Scope N_scope.

Definition validHeaderFieldByte (c : N) : bool := (c <? 128) && (nth (N.to_nat c) validHeaderFieldByteTable 0 =? 1).
Definition validHeaderValueByte (c : N) : bool := tbl validHeaderValueByteTable c =? 1.
Definition isValidMethod (m : bytes) : bool := forallb (fun c => negb (tbl validMethodValueByteTable c =? 0)) m.

(* removeNewLines: CR and LF become SP (value semantics of the in-place loop) *)
Definition removeNewLines (s : bytes) : bytes := map (fun c => if (c =? 13) || (c =? 10) then 32 else c) s.

Fixpoint nhk_loop (up : bool) (s : bytes) : bytes :=
  match s with
  | [] => []
  | c :: r => let c' := if up then tbl toUpperTable c else tbl toLowerTable c in c' :: nhk_loop (c' =? 45) r
  end.
Definition normalizeHeaderKeyValidated (s : bytes) (disable : bool) : bytes :=
  if disable then s else nhk_loop true s.
Definition normalizeHeaderKey (s : bytes) (disable : bool) : bytes :=
  let b := removeNewLines s in
  if disable then b
  else if forallb validHeaderFieldByte b then normalizeHeaderKeyValidated b false else b.

(* AppendHTMLEscape: dst, pending = s[prev:i] *)
Definition html_sub (c : N) : bytes :=
  if c =? 38 then s2b "&amp;" else if c =? 60 then s2b "&lt;" else if c =? 62 then s2b "&gt;"
  else if c =? 34 then s2b "&#34;" else if c =? 39 then s2b "&#39;" else [].
Fixpoint ahe_loop (s : bytes) (dst pending : bytes) : bytes :=
  match s with
  | [] => dst ++ pending
  | c :: r => match html_sub c with
              | [] => ahe_loop r dst (pending ++ [c])
              | sub => ahe_loop r (dst ++ pending ++ sub) []
              end
  end.
Definition AppendHTMLEscape (dst s : bytes) : bytes := ahe_loop s dst [].
