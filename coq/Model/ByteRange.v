(* Model/ByteRange.v — fs.go ParseByteRange on top of the integer-codec model (Model/Ints.v, W = 64).
   Go int = Z; the error values are collapsed into BRErr (corr_ok does not compare error strings).
   The constant strBytes comes from Gen/GenC24.v.  No proofs in this file. *)
From FH Require Import Model.Base Gen.GenC30 Gen.GenC24 Model.Ints.
Open Scope Z_scope.

Inductive brres := BROk (startPos endPos : Z) | BRErr.

(* bytes.HasPrefix *)
Fixpoint hasPrefix (b p : bytes) : bool :=
  match p, b with
  | [], _ => true
  | x :: p', y :: b' => (x =? y)%N && hasPrefix b' p'
  | _ :: _, [] => false
  end.

(* bytes.IndexByte: None = -1 *)
Fixpoint indexByte (b : bytes) (c : N) : option nat :=
  match b with
  | [] => None
  | x :: r => if (x =? c)%N then Some O else option_map S (indexByte r c)
  end.

(* func ParseByteRange(byteRange []byte, contentLength int) (startPos, endPos int, err error) *)
Definition ParseByteRange (byteRange : bytes) (contentLength : Z) : brres :=
  let b := byteRange in
  if negb (hasPrefix b strBytes) then BRErr                       (* unsupported range units *)
  else
    let b := skipn (length strBytes) b in
    match b with
    | c :: b =>
        if negb (c =? 61)%N then BRErr else                        (* b[0] != '=' *)
        match indexByte b 45%N with
        | None => BRErr                                            (* missing the end position *)
        | Some O =>                                                (* n == 0: suffix form *)
            match ParseUint 64 (skipn 1 b) with
            | PErr _ => BRErr
            | POk v =>
                if contentLength <=? 0 then BRErr                  (* invalid for empty content *)
                else if v =? 0 then BRErr                          (* zero suffix length *)
                else BROk (Z.max (contentLength - v) 0) (contentLength - 1)
            end
        | Some n =>
            match ParseUint 64 (firstn n b) with
            | PErr _ => BRErr
            | POk startPos =>
                if startPos >=? contentLength then BRErr
                else
                  let b := skipn (S n) b in
                  match b with
                  | [] => BROk startPos (contentLength - 1)
                  | _ =>
                      match ParseUint 64 b with
                      | PErr _ => BRErr
                      | POk endPos =>
                          let endPos := if endPos >=? contentLength then contentLength - 1 else endPos in
                          if endPos <? startPos then BRErr
                          else BROk startPos endPos
                      end
                  end
            end
        end
    | [] => BRErr                                                  (* missing byte range *)
    end.
