(* ClientConn.v — byte-level model of client connections for C04 (client calls return their own response).

   Part 1  wire vocabulary: symbols with ghost tags, responses, framing, the server side of a connection.
   Part 2  the response reader shared by HostClient and PipelineClient:
             Response.ReadLimitBody / ReadBody / mustSkipBody (http.go), requestStream.Read (streaming.go).
   Part 3  HostClient LTS: HostClient.doNonNilReqResp + transport.RoundTrip (client.go): acquire / write / read head /
           read body (buffered, or streamed with the release deferred to the body-stream close callback) / CloseConn | ReleaseConn.
   Part 4  PipelineClient LTS: pipelineConnClient.writer / reader / worker (client.go) on one connection at a time.

   Granularity.  The wire is a FIFO of symbols.  One symbol is a response head (status line + headers, parsed atomically), one unit
   of body data, the size line of a chunk ([SChunk n]: n units of data follow), or the terminator of a chunked body.  A unit of body data may *look like* a response head ([SBody (Some h)]): when
   the client reads it where it expects a head it parses as one (this is how a crafted body poisons a reused connection).  Every
   symbol carries a ghost tag: the id of the request whose response it belongs to.  The client never looks at tags.

   Connections are linear resources in this model: a connection record is in the idle pool, or inside the one thread that acquired
   it, or dropped (closed).  That "a pooled connection is lent to one call at a time" is HostClient's pool accounting (property C18,
   Model/ClientPool.v); here it is structural.

   The server is the environment: it reads the requests of a connection in order and answers each with a response of its choice
   ([LSrvRead] carries it), sends it symbol by symbol at any speed, and may close at any point.  The only requirement is that what
   it sends is the wire form of its responses ([wf_resp]: a Content-Length body has exactly the announced length); a server that
   appends bytes that belong to no response is outside the property. *)
From FH Require Import Model.Base.
Open Scope nat_scope.
Open Scope list_scope.

(* ---- Part 1: wire ------------------------------------------------------------------------------------------------------ *)
Inductive kind := KGet | KHead.
Inductive framing := FLen (n : nat) | FChunked | FIdent.   (* Content-Length: n | Transfer-Encoding: chunked | neither: until close *)
Record head := mkHead { h_fr : framing; h_close : bool; h_nobody : bool }.   (* h_nobody: 1xx / 204 / 304 (mustSkipContentLength) *)
Inductive sym := SHead (h : head) | SChunk (n : nat) | SBody (fake : option head) | STerm.
Definition tsym : Type := nat * sym.
Record resp := mkResp { r_head : head; r_body : list (option head) }.
Record req := mkReq { q_id : nat; q_kind : kind }.

Definition is_head (k : kind) : bool := match k with KHead => true | KGet => false end.
Definition no_wire_body (k : kind) (h : head) : bool := is_head k || h_nobody h.
(* a chunked body: one chunk holding all the units (a caller can stop reading in the middle of it), then the last-chunk line *)
Definition chunk_form (b : list (option head)) : list sym :=
  match b with [] => [STerm] | _ :: _ => SChunk (length b) :: map SBody b ++ [STerm] end.
Definition body_syms (r : resp) : list sym :=
  match h_fr (r_head r) with FChunked => chunk_form (r_body r) | _ => map SBody (r_body r) end.
Definition wire (k : kind) (r : resp) : list sym :=
  SHead (r_head r) :: (if no_wire_body k (r_head r) then [] else body_syms r).
Definition tag (id : nat) (l : list sym) : list tsym := map (pair id) l.
Definition twire (id : nat) (k : kind) (r : resp) : list tsym := tag id (wire k r).
(* what a server can put on the wire: a Content-Length body has exactly the announced length *)
Definition wf_resp (r : resp) : bool :=
  match h_fr (r_head r) with FLen n => Nat.eqb (length (r_body r)) n | _ => true end.

(* ResponseHeader.ConnectionClose() after parsing: "Connection: close", or no length information at all (header.go: contentLength == -2
   && !mustSkipContentLength => connectionClose = true) *)
Definition resp_close (h : head) : bool :=
  h_close h || match h_fr h with FIdent => negb (h_nobody h) | _ => false end.

Record conn := mkConn {
  c_id : nat;
  c_outb : list req;        (* requests written by the client, not yet read by the server *)
  c_inb : list tsym;        (* symbols sent by the server, not yet read by the client *)
  c_srvq : list tsym;       (* symbols of responses the server has produced but not sent yet *)
  c_srvclosed : bool        (* the server closed its end: nothing more is sent *)
}.
Definition new_conn (id : nat) : conn := mkConn id [] [] [] false.
(* a connection that may sit in the pool: no unanswered request, no unread inbound symbol, and nothing still to come (whatever the
   server had not sent when it closed never arrives) *)
Definition quiet (k : conn) : Prop := c_inb k = [] /\ (c_srvq k = [] \/ c_srvclosed k = true).
Definition clean (k : conn) : Prop := c_outb k = [] /\ quiet k.
Definition cleanb (k : conn) : bool :=
  match c_outb k, c_inb k with
  | [], [] => match c_srvq k with [] => true | _ => c_srvclosed k end
  | _, _ => false
  end.

Definition set_inb (k : conn) (l : list tsym) : conn := mkConn (c_id k) (c_outb k) l (c_srvq k) (c_srvclosed k).
Definition push_req (k : conn) (q : req) : conn := mkConn (c_id k) (c_outb k ++ [q]) (c_inb k) (c_srvq k) (c_srvclosed k).

(* server steps on one connection; [answer] is the ghost record of which response was produced for which request *)
Definition srv_read (k : conn) (r : resp) : option (conn * req) :=
  match c_outb k with
  | q :: rest => if c_srvclosed k || negb (wf_resp r) then None
                 else Some (mkConn (c_id k) rest (c_inb k) (c_srvq k ++ twire (q_id q) (q_kind q) r) false, q)
  | [] => None
  end.
Definition srv_send (k : conn) : option conn :=
  match c_srvq k with
  | x :: rest => if c_srvclosed k then None else Some (mkConn (c_id k) (c_outb k) (c_inb k ++ [x]) rest false)
  | [] => None
  end.
Definition srv_close (k : conn) : conn := mkConn (c_id k) (c_outb k) (c_inb k) (c_srvq k) true.

(* ---- Part 2: the response reader --------------------------------------------------------------------------------------- *)
Inductive outcome := OOk | OTimeout | OTooLarge | OErr.

Inductive phase :=
| PAcq                                  (* connection acquired, request not written yet *)
| PHead                                 (* request written, waiting for the response head (Header.Read) *)
| PBodyLen (left : nat)                 (* readBody / appendBodyFixedSize: [left] more units *)
| PChunkSize (cnt : nat)                (* readBodyChunked at a chunk-size line: [cnt] units accepted so far *)
| PChunkData (cnt : nat) (left : nat)   (* readBodyChunked inside a chunk: [left] more units of it *)
| PBodyIdent (cnt : nat)                (* readBodyIdentity: until EOF *)
| PHold                                 (* RoundTrip returned; body in memory behind bodyStream; release deferred to the close callback *)
| PStreamLen (left : nat) (eof : bool)  (* requestStream with Content-Length; eof = eofReader.eof *)
| PStreamChunked (left : nat) (eof : bool)   (* requestStream, chunked: left = chunkLeft *)
| PStreamIdent (eof : bool)             (* requestStream, until close *)
| PStreamBroken.                        (* requestStream, chunked, rs.err set: every further Read returns the framing error *)

Inductive rd_res :=
| RMore (p : phase)
| RDone (body : bool)       (* message complete; body = a body was read (bodyStream != nil in stream mode) *)
| RFail (e : outcome).

(* maxBodySize > 0 && contentLength > maxBodySize *)
Definition too_large (max n : nat) : bool := negb (Nat.eqb max 0) && Nat.ltb max n.

(* ReadLimitBody after Header.Read succeeded: mustSkipBody, then ReadBody's switch on ContentLength *)
Definition after_head (max : nat) (skip stream : bool) (h : head) : rd_res :=
  if skip || h_nobody h then RDone false
  else match h_fr h with
       | FLen n =>
           if too_large max n then (if stream then RMore (PStreamLen n false) else RFail OTooLarge)
           else match n with 0 => RDone true | S _ => RMore (PBodyLen n) end
       | FChunked => if stream then RMore (PStreamChunked 0 false) else RMore (PChunkSize 0)
       | FIdent => if stream then RMore (PStreamIdent false) else RMore (PBodyIdent 0)
       end.

(* one symbol taken from the connection while the call is inside ReadLimitBody *)
Definition rd_sym (max : nat) (skip stream : bool) (p : phase) (s : sym) : rd_res :=
  match p with
  | PHead =>
      match s with
      | SHead h | SBody (Some h) => after_head max skip stream h
      | _ => RFail OErr                                  (* not a status line *)
      end
  | PBodyLen lft =>
      match lft with
      | 0 => RFail OErr
      | 1 => RDone true
      | S l => RMore (PBodyLen l)                        (* any bytes are body bytes *)
      end
  | PChunkSize cnt =>
      match s with
      | SChunk n =>                                      (* maxBodySize > 0 && len(dst)+chunkSize > maxBodySize *)
          if too_large max (cnt + n) then RFail OTooLarge
          else match n with 0 => RFail OErr | S _ => RMore (PChunkData (cnt + n) n) end   (* size 0 is STerm, never SChunk 0 *)
      | STerm => RDone true
      | _ => RFail OErr                                  (* not a chunk-size line *)
      end
  | PChunkData cnt lft =>
      match lft with
      | 0 => RFail OErr
      | 1 => RMore (PChunkSize cnt)                      (* appendBodyFixedSize(chunkSize + CRLF): any bytes are chunk data *)
      | S l => RMore (PChunkData cnt l)
      end
  | PBodyIdent cnt => if too_large max (S cnt) then RFail OTooLarge else RMore (PBodyIdent (S cnt))
  | _ => RFail OErr
  end.

(* one symbol taken from the connection by a Read on the body stream (requestStream.Read through eofReader) *)
Definition stream_sym (p : phase) (s : sym) : option phase :=
  match p with
  | PStreamLen lft false =>
      match lft with
      | 0 => None
      | 1 => Some (PStreamLen 0 true)                    (* totalBytesRead == ContentLength: io.EOF with the data *)
      | S l => Some (PStreamLen l false)
      end
  | PStreamChunked 0 false =>
      match s with
      | SChunk (S n) => Some (PStreamChunked (S n) false)   (* parseChunkSize: chunkLeft = size *)
      | STerm => Some (PStreamChunked 0 true)               (* chunkSize == 0: trailer, io.EOF *)
      | _ => None                                           (* broken chunk: the Read fails *)
      end
  | PStreamChunked (S l) false => Some (PStreamChunked l false)   (* min(chunkLeft, len(p)) bytes of chunk data, whatever they are *)
  | PStreamIdent false => Some (PStreamIdent false)
  | _ => None
  end.

(* The peer closes while the caller reads the stream.  requestStream.Read hands the bufio.Reader's io.EOF through unchanged when it
   comes between units of a Content-Length body (from rs.reader.Read) or at a chunk-size line (from readHexInt), so eofReader
   records EOF although the body is incomplete: the caller sees a short body ending in a clean io.EOF, and the close callback
   treats the stream as fully read.  Inside a chunk EOF becomes io.ErrUnexpectedEOF: the Read fails, nothing is recorded. *)
Definition stream_eof (p : phase) : option phase :=
  match p with
  | PStreamLen n false => Some (PStreamLen n true)
  | PStreamChunked 0 false => Some (PStreamChunked 0 true)
  | PStreamIdent false => Some (PStreamIdent true)
  | _ => None
  end.

(* the close callback's [unread] *)
Definition stream_unread (p : phase) : bool :=
  match p with
  | PStreamLen _ e | PStreamChunked _ e | PStreamIdent e => negb e
  | PStreamBroken => true
  | _ => false
  end.
Definition is_stream_phase (p : phase) : bool :=
  match p with PHold | PStreamLen _ _ | PStreamChunked _ _ | PStreamIdent _ | PStreamBroken => true | _ => false end.

(* ---- Part 3: HostClient ------------------------------------------------------------------------------------------------- *)
Record opts := mkOpts {
  o_kind : kind;
  o_reqclose : bool;     (* req.ConnectionClose() *)
  o_stream : bool;       (* resp.StreamBody || c.StreamResponseBody *)
  o_skip : bool          (* resp.SkipBody as the caller left it *)
}.
(* x_rd: the pooled bufio.Reader (hc.AcquireReader) the call reads its response through; it belongs to the call - and to the body
   stream the call returned - until ReleaseReader *)
Record tctx := mkCtx { x_opts : opts; x_cid : nat; x_reset : bool; x_head : option head; x_got : list tsym; x_rd : option nat }.

Inductive thread :=
| TNone
| TRun (x : tctx) (p : phase) (k : conn)
| TDone (x : tctx) (o : outcome) (kept : bool).     (* kept: the connection went back to the pool *)

Record st := mkSt {
  s_max : nat;                    (* MaxResponseBodySize in units; 0 = unlimited *)
  s_next : nat;                   (* next connection id *)
  s_idle : list conn;             (* HostClient.conns: most recently released first *)
  s_thr : nat -> thread;
  s_ans : nat -> option resp;     (* ghost: the response the server produced for request id *)
  s_rfree : list nat;             (* HostClient.readerPool / Client.readerPool: bufio.Readers nobody uses *)
  s_rnext : nat                   (* next fresh reader *)
}.

Inductive loc := AtIdle (i : nat) | HeldBy (t : nat).

Inductive label :=
| LAcquire (t : nat) (o : opts) (from : option nat)   (* AcquireConn: Some i = the i-th idle connection, None = dial *)
| LWrite (t : nat) (reset : bool) (rd : option nat)   (* req.Write + Flush ok (reset = MaxConnDuration exceeded), then AcquireReader:
                                                         Some i = the i-th pooled reader, None = a new one *)
| LFail (t : nat) (e : outcome)                       (* any error before RoundTrip returns: deadline, EOF, write error *)
| LRead (t : nat)                                     (* ReadLimitBody consumes one symbol *)
| LReadEof (t : nat)                                  (* readBodyIdentity sees EOF *)
| LStreamRead (t : nat)                               (* caller reads one unit from BodyStream() *)
| LStreamEof (t : nat)                                (* caller's Read on the stream sees the peer's EOF between two units *)
| LStreamErr (t : nat)                                (* caller's Read fails at a chunk-size line (deadline, bad line): the error sticks *)
| LCloseStream (t : nat) (werr : bool)                (* CloseBodyStream / closeBodyStream(wErr) *)
| LSrvRead (l : loc) (r : resp)
| LSrvSend (l : loc)
| LSrvClose (l : loc)
| LCleanIdle (i : nat).                               (* connsCleaner / CloseIdleConnections drops an idle connection *)

Definition init (max : nat) : st := mkSt max 0 [] (fun _ => TNone) (fun _ => None) [] 0.

Definition set_thr (s : st) (t : nat) (v : thread) : st :=
  mkSt (s_max s) (s_next s) (s_idle s) (fun j => if Nat.eqb j t then v else s_thr s j) (s_ans s) (s_rfree s) (s_rnext s).
Definition set_idle (s : st) (l : list conn) : st := mkSt (s_max s) (s_next s) l (s_thr s) (s_ans s) (s_rfree s) (s_rnext s).
Definition set_ans (s : st) (id : nat) (r : resp) : st :=
  mkSt (s_max s) (s_next s) (s_idle s) (s_thr s) (fun j => if Nat.eqb j id then Some r else s_ans s j) (s_rfree s) (s_rnext s).
Definition set_rfree (s : st) (l : list nat) (n : nat) : st :=
  mkSt (s_max s) (s_next s) (s_idle s) (s_thr s) (s_ans s) l n.

Fixpoint remove_nth {A} (i : nat) (l : list A) : list A :=
  match l, i with
  | [], _ => []
  | _ :: r, 0 => r
  | x :: r, S j => x :: remove_nth j r
  end.
Fixpoint replace_nth {A} (i : nat) (v : A) (l : list A) : list A :=
  match l, i with
  | [], _ => []
  | _ :: r, 0 => v :: r
  | x :: r, S j => x :: replace_nth j v r
  end.

Definition add_got (x : tctx) (ts : tsym) : tctx := mkCtx (x_opts x) (x_cid x) (x_reset x) (x_head x) (x_got x ++ [ts]) (x_rd x).
Definition set_head (x : tctx) (s : sym) : tctx :=
  match s with
  | SHead h | SBody (Some h) => mkCtx (x_opts x) (x_cid x) (x_reset x) (Some h) (x_got x) (x_rd x)
  | _ => x
  end.
Definition set_reset (x : tctx) (b : bool) : tctx := mkCtx (x_opts x) (x_cid x) b (x_head x) (x_got x) (x_rd x).
Definition set_rd (x : tctx) (r : nat) : tctx := mkCtx (x_opts x) (x_cid x) (x_reset x) (x_head x) (x_got x) (Some r).

(* hc.ReleaseReader(br): in the error branch of RoundTrip, at the end of its buffered path, and - for a streamed body - only in the
   close callback of the body stream *)
Definition rel (s : st) (x : tctx) : st :=
  match x_rd x with Some r => set_rfree s (r :: s_rfree s) (s_rnext s) | None => s end.

(* resp.SkipBody during ReadLimitBody: customSkipBody || req.Header.IsHead() *)
Definition eff_skip (o : opts) : bool := o_skip o || is_head (o_kind o).

(* a body skipped on the caller's request is still on the wire:
   customSkipBody && !req.Header.IsHead() && !resp.Header.mustSkipContentLength() && resp.Header.ContentLength() != 0 *)
Definition skipped_body (o : opts) (h : head) : bool :=
  o_skip o && negb (is_head (o_kind o)) && negb (h_nobody h) && negb (match h_fr h with FLen 0 => true | _ => false end).
(* closeConn := resetConnection || req.ConnectionClose() || resp.ConnectionClose(); if <skipped body> { closeConn = true } *)
Definition close_conn (x : tctx) : bool :=
  x_reset x || o_reqclose (x_opts x) ||
  match x_head x with Some h => resp_close h || skipped_body (x_opts x) h | None => true end.

(* the tail of RoundTrip once ReadLimitBody returned nil *)
Definition finish (s : st) (t : nat) (x : tctx) (k : conn) (body : bool) : st :=
  if o_stream (x_opts x) && body then set_thr s t (TRun x PHold k)            (* customStreamBody && resp.bodyStream != nil *)
  else if close_conn x then set_thr (rel s x) t (TDone x OOk false)            (* hc.ReleaseReader(br); hc.CloseConn(cc) *)
  else set_thr (set_idle (rel s x) (k :: s_idle s)) t (TDone x OOk true).     (* hc.ReleaseReader(br); hc.ReleaseConn(cc) *)

Definition conn_at (s : st) (l : loc) : option conn :=
  match l with
  | AtIdle i => nth_error (s_idle s) i
  | HeldBy t => match s_thr s t with TRun _ _ k => Some k | _ => None end
  end.
Definition put_conn (s : st) (l : loc) (k : conn) : st :=
  match l with
  | AtIdle i => set_idle s (replace_nth i k (s_idle s))
  | HeldBy t => match s_thr s t with TRun x p _ => set_thr s t (TRun x p k) | _ => s end
  end.

Definition step (s : st) (l : label) : option st :=
  match l with
  | LAcquire t o from =>
      match s_thr s t with
      | TNone =>
          match from with
          | Some i =>
              match nth_error (s_idle s) i with
              | Some k => Some (set_thr (set_idle s (remove_nth i (s_idle s))) t
                                        (TRun (mkCtx o (c_id k) false None [] None) PAcq k))
              | None => None
              end
          | None =>
              let k := new_conn (s_next s) in
              Some (set_thr (mkSt (s_max s) (S (s_next s)) (s_idle s) (s_thr s) (s_ans s) (s_rfree s) (s_rnext s)) t
                            (TRun (mkCtx o (c_id k) false None [] None) PAcq k))
          end
      | _ => None
      end
  | LWrite t reset rd =>
      match s_thr s t with
      | TRun x PAcq k =>
          let k1 := push_req k (mkReq t (o_kind (x_opts x))) in
          match rd with
          | Some i =>
              match nth_error (s_rfree s) i with
              | Some r => Some (set_thr (set_rfree s (remove_nth i (s_rfree s)) (s_rnext s)) t (TRun (set_rd (set_reset x reset) r) PHead k1))
              | None => None
              end
          | None => Some (set_thr (set_rfree s (s_rfree s) (S (s_rnext s))) t (TRun (set_rd (set_reset x reset) (s_rnext s)) PHead k1))
          end
      | _ => None
      end
  | LFail t e =>
      match s_thr s t, e with
      | _, OOk => None
      | TRun x p k, _ => if is_stream_phase p then None else Some (set_thr (rel s x) t (TDone x e false))    (* ReleaseReader; CloseConn *)
      | _, _ => None
      end
  | LRead t =>
      match s_thr s t with
      | TRun x p k =>
          match c_inb k with
          | (tg, sy) :: rest =>
              let k1 := set_inb k rest in
              let x1 := add_got (match p with PHead => set_head x sy | _ => x end) (tg, sy) in
              match p with
              | PHead | PBodyLen _ | PChunkSize _ | PChunkData _ _ | PBodyIdent _ =>
                  match rd_sym (s_max s) (eff_skip (x_opts x)) (o_stream (x_opts x)) p sy with
                  | RMore p1 => Some (set_thr s t (TRun x1 p1 k1))
                  | RDone body => Some (finish s t x1 k1 body)
                  | RFail e => Some (set_thr (rel s x) t (TDone x1 e false))
                  end
              | _ => None
              end
          | [] => None
          end
      | _ => None
      end
  | LReadEof t =>
      match s_thr s t with
      | TRun x (PBodyIdent _) k =>
          match c_inb k with
          | [] => if c_srvclosed k then Some (finish s t x k true) else None
          | _ => None
          end
      | _ => None
      end
  | LStreamRead t =>
      match s_thr s t with
      | TRun x p k =>
          match c_inb k with
          | (tg, sy) :: rest =>
              match stream_sym p sy with
              | Some p1 => Some (set_thr s t (TRun (add_got x (tg, sy)) p1 (set_inb k rest)))
              | None => None
              end
          | [] => None
          end
      | _ => None
      end
  | LStreamEof t =>
      match s_thr s t with
      | TRun x p k =>
          match c_inb k, stream_eof p with
          | [], Some p1 => if c_srvclosed k then Some (set_thr s t (TRun x p1 k)) else None
          | _, _ => None
          end
      | _ => None
      end
  | LStreamErr t =>
      match s_thr s t with
      | TRun x (PStreamChunked 0 false) k => Some (set_thr s t (TRun x PStreamBroken k))    (* rs.err = err *)
      | _ => None
      end
  | LCloseStream t werr =>
      match s_thr s t with
      | TRun x p k =>
          if is_stream_phase p then
            (* closeConn || resp.ConnectionClose() || wErr != nil || unread *)
            if close_conn x || werr || stream_unread p
            then Some (set_thr (rel s x) t (TDone x OOk false))
            else Some (set_thr (set_idle (rel s x) (k :: s_idle s)) t (TDone x OOk true))
          else None
      | _ => None
      end
  | LSrvRead l r =>
      match conn_at s l with
      | Some k => match srv_read k r with
                  | Some (k1, q) => Some (set_ans (put_conn s l k1) (q_id q) r)
                  | None => None
                  end
      | None => None
      end
  | LSrvSend l =>
      match conn_at s l with
      | Some k => match srv_send k with Some k1 => Some (put_conn s l k1) | None => None end
      | None => None
      end
  | LSrvClose l =>
      match conn_at s l with
      | Some k => Some (put_conn s l (srv_close k))
      | None => None
      end
  | LCleanIdle i =>
      match nth_error (s_idle s) i with
      | Some _ => Some (set_idle s (remove_nth i (s_idle s)))
      | None => None
      end
  end.

Fixpoint run (s : st) (tr : list label) : option st :=
  match tr with
  | [] => Some s
  | l :: rest => match step s l with Some s1 => run s1 rest | None => None end
  end.

Inductive reach (max : nat) : st -> Prop :=
| reach_init : reach max (init max)
| reach_step : forall s l s1, reach max s -> step s l = Some s1 -> reach max s1.

(* ---- Part 4: PipelineClient --------------------------------------------------------------------------------------------- *)
(* One pipelineConnClient.  An item is a pipelineWork, identified by its call number.  Callers only matter through what they put
   into chW: a caller that times out (DoDeadline) leaves its item where it is, so caller timeouts are not steps of this LTS.
   writer: pops chW, drops the item if its deadline passed (not written), else writes the request and pushes the item to chR.
   reader: pops chR, sets SkipBody for HEAD, resp.Read(br) (no body limit, no streaming).
   worker: when the writer or the reader returns, the connection is closed, the other one is stopped, chR is drained. *)
Record pitem := mkItem { p_id : nat; p_kind : kind }.
Inductive wstate := WDown | WIdle | WHold (it : pitem).
Inductive rstate := RDown | RIdle | RHold (it : pitem) (p : phase) (got : list tsym).

Record pst := mkP {
  p_next : nat;                         (* next call number *)
  p_conn : option conn;                 (* None: no connection (worker between dials) *)
  p_dead : bool;                        (* conn.Close() was called by the worker: nothing is written or received any more *)
  p_chW : list pitem;
  p_chR : list pitem;
  p_wr : wstate;
  p_rd : rstate;
  p_done : nat -> option (kind * outcome * list tsym);   (* w.done signalled: request kind, result, symbols delivered into w.resp *)
  p_log : list (nat * resp)             (* ghost: (request id, response) in the order the server produced them *)
}.

Inductive plabel :=
| PCall (k : kind)                 (* Do / DoDeadline: chW <- w *)
| PDial                            (* worker: dialAddr ok, start writer and reader *)
| PWPop (expired ok : bool)        (* writer: w = <-chW; deadline test; w.req.Write(bw) *)
| PWPush                           (* writer: chR <- w *)
| PWExit                           (* writer returns (stopCh, idle stop, flush error) *)
| PRPop                            (* reader: w = <-chR *)
| PRRead                           (* reader: resp.Read consumes one symbol *)
| PRReadEof                        (* reader: readBodyIdentity sees EOF *)
| PRFail                           (* reader: resp.Read fails (deadline, EOF, parse error) *)
| PRExit                           (* reader returns on stopCh *)
| PDrain                           (* worker: both stopped; drain chR; connection gone *)
| PSrvRead (r : resp) | PSrvSend | PSrvClose.

Definition pinit : pst := mkP 0 None false [] [] WDown RDown (fun _ => None) [].

Definition p_set_done (s : pst) (it : pitem) (o : outcome) (g : list tsym) : pst :=
  mkP (p_next s) (p_conn s) (p_dead s) (p_chW s) (p_chR s) (p_wr s) (p_rd s)
      (fun j => if Nat.eqb j (p_id it) then Some (p_kind it, o, g) else p_done s j) (p_log s).
Definition p_set_conn (s : pst) (k : option conn) : pst :=
  mkP (p_next s) k (p_dead s) (p_chW s) (p_chR s) (p_wr s) (p_rd s) (p_done s) (p_log s).
Definition p_set_dead (s : pst) (b : bool) : pst :=
  mkP (p_next s) (p_conn s) b (p_chW s) (p_chR s) (p_wr s) (p_rd s) (p_done s) (p_log s).
Definition p_set_q (s : pst) (w r : list pitem) : pst :=
  mkP (p_next s) (p_conn s) (p_dead s) w r (p_wr s) (p_rd s) (p_done s) (p_log s).
Definition p_set_wr (s : pst) (w : wstate) : pst :=
  mkP (p_next s) (p_conn s) (p_dead s) (p_chW s) (p_chR s) w (p_rd s) (p_done s) (p_log s).
Definition p_set_rd (s : pst) (r : rstate) : pst :=
  mkP (p_next s) (p_conn s) (p_dead s) (p_chW s) (p_chR s) (p_wr s) r (p_done s) (p_log s).
Definition p_set_ans (s : pst) (id : nat) (r : resp) : pst :=
  mkP (p_next s) (p_conn s) (p_dead s) (p_chW s) (p_chR s) (p_wr s) (p_rd s) (p_done s) (p_log s ++ [(id, r)]).

(* An until-close response ends its connection: no other response can follow it, so a server that pipelines answers uses
   Content-Length or chunked framing. *)
Definition delimited (r : resp) : bool := match h_fr (r_head r) with FIdent => false | _ => true end.

(* worker: for len(chs.chR) > 0 { w := <-chs.chR; w.err = errPipelineConnStopped; w.done <- } *)
Fixpoint p_drain (s : pst) (l : list pitem) : pst :=
  match l with
  | [] => s
  | it :: rest => p_drain (p_set_done s it OErr []) rest
  end.

(* reader: if w.req.Header.IsHead() { w.resp.SkipBody = true } *)
Definition p_skip (it : pitem) : bool := is_head (p_kind it).

Definition pstep (s : pst) (l : plabel) : option pst :=
  match l with
  | PCall k =>
      let id := p_next s in
      Some (mkP (S id) (p_conn s) (p_dead s) (p_chW s ++ [mkItem id k]) (p_chR s) (p_wr s) (p_rd s) (p_done s) (p_log s))
  | PDial =>
      match p_conn s with
      | None => Some (p_set_rd (p_set_wr (p_set_dead (p_set_conn s (Some (new_conn 0))) false) WIdle) RIdle)
      | Some _ => None
      end
  | PWPop expired ok =>
      match p_wr s, p_chW s, p_conn s with
      | WIdle, it :: rest, Some k =>
          let s1 := p_set_q s rest (p_chR s) in
          if expired then Some (p_set_done s1 it OTimeout [])
          else if ok && negb (p_dead s)
          then Some (p_set_wr (p_set_conn s1 (Some (push_req k (mkReq (p_id it) (p_kind it))))) (WHold it))
          else Some (p_set_dead (p_set_wr (p_set_done s1 it OErr []) WDown) true)
      | _, _, _ => None
      end
  | PWPush =>
      match p_wr s with
      | WHold it => Some (p_set_wr (p_set_q s (p_chW s) (p_chR s ++ [it])) WIdle)
      | _ => None
      end
  | PWExit =>
      match p_wr s with
      | WIdle => Some (p_set_dead (p_set_wr s WDown) true)
      | WHold it => Some (p_set_dead (p_set_wr (p_set_done s it OErr []) WDown) true)
      | WDown => None
      end
  | PRPop =>
      match p_rd s, p_chR s with
      | RIdle, it :: rest => Some (p_set_rd (p_set_q s (p_chW s) rest) (RHold it PHead []))
      | _, _ => None
      end
  | PRRead =>
      match p_rd s, p_conn s with
      | RHold it p got, Some k =>
          match c_inb k with
          | (tg, sy) :: rest =>
              let s1 := p_set_conn s (Some (set_inb k rest)) in
              let got1 := got ++ [(tg, sy)] in
              match rd_sym 0 (p_skip it) false p sy with
              | RMore p1 => Some (p_set_rd s1 (RHold it p1 got1))
              | RDone _ => Some (p_set_rd (p_set_done s1 it OOk got1) RIdle)
              | RFail e => Some (p_set_dead (p_set_rd (p_set_done s1 it e got1) RDown) true)
              end
          | [] => None
          end
      | _, _ => None
      end
  | PRReadEof =>
      match p_rd s, p_conn s with
      | RHold it (PBodyIdent _) got, Some k =>
          match c_inb k with
          | [] => if c_srvclosed k || p_dead s then Some (p_set_rd (p_set_done s it OOk got) RIdle) else None
          | _ => None
          end
      | _, _ => None
      end
  | PRFail =>
      match p_rd s with
      | RHold it p got => Some (p_set_dead (p_set_rd (p_set_done s it OErr got) RDown) true)
      | _ => None
      end
  | PRExit =>
      match p_rd s with
      | RIdle => Some (p_set_dead (p_set_rd s RDown) true)
      | _ => None
      end
  | PDrain =>
      match p_wr s, p_rd s, p_conn s with
      | WDown, RDown, Some _ => Some (p_set_q (p_set_conn (p_drain s (p_chR s)) None) (p_chW s) [])
      | _, _, _ => None
      end
  | PSrvRead r =>
      match p_conn s with
      | Some k => if p_dead s || negb (delimited r) then None else
                  match srv_read k r with
                  | Some (k1, q) => Some (p_set_ans (p_set_conn s (Some k1)) (q_id q) r)
                  | None => None
                  end
      | None => None
      end
  | PSrvSend =>
      match p_conn s with
      | Some k => if p_dead s then None else
                  match srv_send k with Some k1 => Some (p_set_conn s (Some k1)) | None => None end
      | None => None
      end
  | PSrvClose =>
      match p_conn s with
      | Some k => Some (p_set_conn s (Some (srv_close k)))
      | None => None
      end
  end.

Fixpoint prun (s : pst) (tr : list plabel) : option pst :=
  match tr with
  | [] => Some s
  | l :: rest => match pstep s l with Some s1 => prun s1 rest | None => None end
  end.

Inductive preach : pst -> Prop :=
| preach_init : preach pinit
| preach_step : forall s l s1, preach s -> pstep s l = Some s1 -> preach s1.
