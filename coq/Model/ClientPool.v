(* Model of the HostClient connection pool of client.go as a labelled transition system.

   One label per lock region (c.connsLock / w.mu) of
     AcquireConn, queueForIdle, dialConnFor, ReleaseConn, CloseConn, decConnsCount,
     wantConn.{waiting,tryDeliver,cancel}, wantConnQueue.{popFront,clearFront,pushBack},
     connsCleaner / CloseIdleConnections.
   Any number of requester threads: every LAcquire is a new thread.  Connections are
   numbered in the order the dialer creates them (cid), wantConns in the order they are
   allocated (wid = index in [wants]).  Time is logical ([clock], LTick).

   Where two lock regions of one goroutine are separated only by thread-local code they
   are still two labels (LDialFailFor then LDec; LDialOkFor then LRelease; LTimeout then
   LRelease; LClose then LCloseFin), so every interleaving with other threads is a trace.
   CloseConn is modelled as it is since the fix "CloseConn frees the MaxConns slot only after the connection is
   closed": Close() first (LClose .. LCloseFin), decConnsCount at LCloseFin. *)
From FH Require Import Model.Base Gen.GenC18.
Open Scope Z_scope.

Record cfg := { maxc : Z;         (* HostClient.MaxConns *)
                waiton : bool;    (* MaxConnWaitTimeout > 0 *)
                fifo : bool }.    (* ConnPoolStrategy = FIFO (else LIFO) *)

(* maxConns := c.MaxConns; if maxConns <= 0 { maxConns = DefaultMaxConnsPerHost } *)
Definition eff_max (cf : cfg) : Z := if maxc cf <=? 0 then DefaultMaxConnsPerHost else maxc cf.

Inductive wres := RConn (c : nat) | RDialErr | RNoFree | RTimeout.

(* state of one wantConn together with the program counter of the AcquireConn call owning it *)
Inductive wstatus :=
| WDecided                 (* region 1 of AcquireConn found no idle conn and no free slot; queueForIdle not run yet *)
| WWaiting                 (* queued or popped-for-dial; conn = nil, err = nil, ready open *)
| WDelivered (c : nat)     (* tryDeliver(cc, nil) succeeded, owner has not returned yet *)
| WFailed                  (* tryDeliver(nil, dialErr) succeeded, owner has not returned yet *)
| WRet (r : wres).         (* AcquireConn returned r (conn or err is set: no later tryDeliver succeeds) *)

Record want := { wst : wstatus; wdl : Z (* deadline tick *); wovr : bool (* timeoutOverridden *) }.

Inductive dtask := DReq | DFor (w : nat).   (* dialHostHard in AcquireConn | in dialConnFor(w) *)

Record st := {
  cnt : Z;               (* c.connsCount *)
  idle : list nat;       (* c.conns, slice order *)
  waitq : list nat;      (* c.connsWait, queue order (stale entries included) *)
  wants : list want;     (* every wantConn allocated so far *)
  lent : list nat;       (* conns returned to a requester and not yet released/closed *)
  rel : list nat;        (* conns held by internal code that is about to call ReleaseConn *)
  scratch : list nat;    (* conns removed from c.conns by the cleaner / CloseIdleConnections, about to be CloseConn'd *)
  dials : list dtask;    (* dials in flight, in start order *)
  decs : nat;            (* dialConnFor goroutines between tryDeliver(nil, err) and decConnsCount *)
  closing : list nat;    (* CloseConn: inside cc.c.Close(); decConnsCount comes after it, the slot is still counted *)
  next : nat;            (* next connection id *)
  closelog : list nat;   (* every conn whose Close() has been called, in call order (history variable) *)
  clock : Z }.

Definition init : st :=
  {| cnt := 0; idle := []; waitq := []; wants := []; lent := []; rel := []; scratch := [];
     dials := []; decs := 0; closing := []; next := 0; closelog := []; clock := 0 |}.

Inductive label :=
| LAcquire (tmo : Z) (ovr : bool)  (* AcquireConn, first c.connsLock region (a new requester) *)
| LEnqueue (w : nat)               (* queueForIdle(w) *)
| LDialOk (k : nat)                (* k-th dial in flight succeeds; its goroutine runs up to and including its next lock region *)
| LDialFail (k : nat)              (* k-th dial in flight fails; ditto *)
| LDec                             (* decConnsCount at the end of a failed dialConnFor *)
| LTake (w : nat)                  (* select chose <-w.ready: return w.conn, w.err (+ deferred cancel when err != nil) *)
| LTimeout (w : nat)               (* select chose <-tc.C: return ErrNoFreeConns/ErrTimeout, deferred w.cancel *)
| LRelease (c : nat)               (* ReleaseConn(c) by whoever holds c *)
| LClose (c : nat)                 (* CloseConn(c) is called: cc.c.Close() starts *)
| LCloseFin (c : nat)              (* CloseConn(c): cc.c.Close() returned, then decConnsCount *)
| LCleanIdle (k : nat)             (* connsCleaner / CloseIdleConnections, the region under connsLock: a private copy (scratch) of the
                                      first k idle conns is taken and they are removed from c.conns; the CloseConn calls on the
                                      copy are separate LClose / LCloseFin steps, interleavable with every other label *)
| LTick.                           (* one unit of time passes *)

(* ---- list helpers ---- *)
Fixpoint remove_one (c : nat) (l : list nat) : list nat :=
  match l with
  | [] => []
  | x :: r => if Nat.eqb x c then r else x :: remove_one c r
  end.
Fixpoint memb (c : nat) (l : list nat) : bool :=
  match l with [] => false | x :: r => Nat.eqb x c || memb c r end.
Fixpoint upd {A} (l : list A) (i : nat) (x : A) : list A :=
  match l, i with
  | [], _ => []
  | _ :: r, O => x :: r
  | y :: r, S j => y :: upd r j x
  end.
Fixpoint remove_nth {A} (l : list A) (i : nat) : list A :=
  match l, i with
  | [], _ => []
  | _ :: r, O => r
  | y :: r, S j => y :: remove_nth r j
  end.

Definition dummy_want : want := {| wst := WRet RNoFree; wdl := 0; wovr := false |}.
Definition getw (ws : list want) (w : nat) : want := nth w ws dummy_want.
Definition set_wst (ws : list want) (w : nat) (s : wstatus) : list want :=
  upd ws w {| wst := s; wdl := wdl (getw ws w); wovr := wovr (getw ws w) |}.

(* wantConn.waiting(): ready not closed *)
Definition waitingb (ws : list want) (w : nat) : bool :=
  match wst (getw ws w) with WWaiting => true | _ => false end.

(* the loop `for q.len() > 0 { w := q.popFront(); if w.waiting() {...; break} }` of
   ReleaseConn and decConnsCount: the first waiting entry (if any) and what is left of the queue.
   (In ReleaseConn, waiting() followed by a failed tryDeliver continues the loop: same as not waiting.) *)
Fixpoint pop_waiting (ws : list want) (q : list nat) : option nat * list nat :=
  match q with
  | [] => (None, [])
  | w :: r => if waitingb ws w then (Some w, r) else pop_waiting ws r
  end.

(* wantConnQueue.clearFront *)
Fixpoint clear_front (ws : list want) (q : list nat) : list nat :=
  match q with
  | [] => []
  | w :: r => if waitingb ws w then q else clear_front ws r
  end.

(* ---- field setters ---- *)
Definition with_cnt (s : st) (v : Z) : st :=
  {| cnt := v; idle := idle s; waitq := waitq s; wants := wants s; lent := lent s; rel := rel s; scratch := scratch s;
     dials := dials s; decs := decs s; closing := closing s; next := next s; closelog := closelog s; clock := clock s |}.
Definition with_idle (s : st) (v : list nat) : st :=
  {| cnt := cnt s; idle := v; waitq := waitq s; wants := wants s; lent := lent s; rel := rel s; scratch := scratch s;
     dials := dials s; decs := decs s; closing := closing s; next := next s; closelog := closelog s; clock := clock s |}.
Definition with_waitq (s : st) (v : list nat) : st :=
  {| cnt := cnt s; idle := idle s; waitq := v; wants := wants s; lent := lent s; rel := rel s; scratch := scratch s;
     dials := dials s; decs := decs s; closing := closing s; next := next s; closelog := closelog s; clock := clock s |}.
Definition with_wants (s : st) (v : list want) : st :=
  {| cnt := cnt s; idle := idle s; waitq := waitq s; wants := v; lent := lent s; rel := rel s; scratch := scratch s;
     dials := dials s; decs := decs s; closing := closing s; next := next s; closelog := closelog s; clock := clock s |}.
Definition with_lent (s : st) (v : list nat) : st :=
  {| cnt := cnt s; idle := idle s; waitq := waitq s; wants := wants s; lent := v; rel := rel s; scratch := scratch s;
     dials := dials s; decs := decs s; closing := closing s; next := next s; closelog := closelog s; clock := clock s |}.
Definition with_rel (s : st) (v : list nat) : st :=
  {| cnt := cnt s; idle := idle s; waitq := waitq s; wants := wants s; lent := lent s; rel := v; scratch := scratch s;
     dials := dials s; decs := decs s; closing := closing s; next := next s; closelog := closelog s; clock := clock s |}.
Definition with_scratch (s : st) (v : list nat) : st :=
  {| cnt := cnt s; idle := idle s; waitq := waitq s; wants := wants s; lent := lent s; rel := rel s; scratch := v;
     dials := dials s; decs := decs s; closing := closing s; next := next s; closelog := closelog s; clock := clock s |}.
Definition with_dials (s : st) (v : list dtask) : st :=
  {| cnt := cnt s; idle := idle s; waitq := waitq s; wants := wants s; lent := lent s; rel := rel s; scratch := scratch s;
     dials := v; decs := decs s; closing := closing s; next := next s; closelog := closelog s; clock := clock s |}.
Definition with_decs (s : st) (v : nat) : st :=
  {| cnt := cnt s; idle := idle s; waitq := waitq s; wants := wants s; lent := lent s; rel := rel s; scratch := scratch s;
     dials := dials s; decs := v; closing := closing s; next := next s; closelog := closelog s; clock := clock s |}.
Definition with_closing (s : st) (v : list nat) : st :=
  {| cnt := cnt s; idle := idle s; waitq := waitq s; wants := wants s; lent := lent s; rel := rel s; scratch := scratch s;
     dials := dials s; decs := decs s; closing := v; next := next s; closelog := closelog s; clock := clock s |}.
Definition with_next (s : st) (v : nat) : st :=
  {| cnt := cnt s; idle := idle s; waitq := waitq s; wants := wants s; lent := lent s; rel := rel s; scratch := scratch s;
     dials := dials s; decs := decs s; closing := closing s; next := v; closelog := closelog s; clock := clock s |}.
Definition with_closelog (s : st) (v : list nat) : st :=
  {| cnt := cnt s; idle := idle s; waitq := waitq s; wants := wants s; lent := lent s; rel := rel s; scratch := scratch s;
     dials := dials s; decs := decs s; closing := closing s; next := next s; closelog := v; clock := clock s |}.
Definition with_clock (s : st) (v : Z) : st :=
  {| cnt := cnt s; idle := idle s; waitq := waitq s; wants := wants s; lent := lent s; rel := rel s; scratch := scratch s;
     dials := dials s; decs := decs s; closing := closing s; next := next s; closelog := closelog s; clock := v |}.

(* ---- the lock regions ---- *)

(* decConnsCount *)
Definition dec_conns_count (cf : cfg) (s : st) : st :=
  if negb (waiton cf) then with_cnt s (cnt s - 1)
  else match pop_waiting (wants s) (waitq s) with
       | (Some w, q') => with_dials (with_waitq s q') (dials s ++ [DFor w])     (* go c.dialConnFor(w): the slot is transferred *)
       | (None, q') => with_cnt (with_waitq s q') (cnt s - 1)
       end.

(* ReleaseConn(c); the caller gave up c already *)
Definition release_conn (cf : cfg) (s : st) (c : nat) : st :=
  if negb (waiton cf) then with_idle s (idle s ++ [c])
  else match pop_waiting (wants s) (waitq s) with
       | (Some w, q') => with_wants (with_waitq s q') (set_wst (wants s) w (WDelivered c))
       | (None, q') => with_idle (with_waitq s q') (idle s ++ [c])
       end.

(* first lock region of AcquireConn *)
Definition acquire (cf : cfg) (s : st) (tmo : Z) (ovr : bool) : st :=
  match idle s with
  | [] =>
      if cnt s <? eff_max cf then with_dials (with_cnt s (cnt s + 1)) (dials s ++ [DReq])   (* createConn *)
      else if waiton cf then with_wants s (wants s ++ [{| wst := WDecided; wdl := clock s + tmo; wovr := ovr |}])
      else s                                                                                (* ErrNoFreeConns *)
  | c0 :: r0 =>
      if fifo cf then with_lent (with_idle s r0) (lent s ++ [c0])
      else with_lent (with_idle s (removelast (idle s))) (lent s ++ [last (idle s) 0%nat])
  end.

(* what the thread doing LAcquire got (thread-local result, for the correspondence) *)
Inductive acq_out := AGot (c : nat) | ADial | ANoFree | AWait (w : nat).
Definition acquire_out (cf : cfg) (s : st) : acq_out :=
  match idle s with
  | [] => if cnt s <? eff_max cf then ADial else if waiton cf then AWait (length (wants s)) else ANoFree
  | c0 :: _ => if fifo cf then AGot c0 else AGot (last (idle s) 0%nat)
  end.

Definition timeout_res (w : want) : wres := if wovr w then RTimeout else RNoFree.

Definition pending (w : want) : bool :=
  match wst w with WRet _ => false | _ => true end.

Definition step (cf : cfg) (s : st) (l : label) : option st :=
  match l with
  | LAcquire tmo ovr => if tmo <=? 0 then None else Some (acquire cf s tmo ovr)
  | LEnqueue w =>
      match wst (getw (wants s) w) with
      | WDecided =>
          (* c.connsWait.clearFront(); c.connsWait.pushBack(w) *)
          Some (with_wants (with_waitq s (clear_front (wants s) (waitq s) ++ [w])) (set_wst (wants s) w WWaiting))
      | _ => None
      end
  | LDialOk k =>
      match nth_error (dials s) k with
      | None => None
      | Some d =>
          let c := next s in
          let s1 := with_next (with_dials s (remove_nth (dials s) k)) (S c) in
          match d with
          | DReq => Some (with_lent s1 (lent s1 ++ [c]))                                   (* AcquireConn returns cc *)
          | DFor w =>
              if waitingb (wants s) w                                                      (* w.tryDeliver(cc, nil) *)
              then Some (with_wants s1 (set_wst (wants s1) w (WDelivered c)))
              else Some (with_rel s1 (rel s1 ++ [c]))                                      (* not delivered: will ReleaseConn *)
          end
      end
  | LDialFail k =>
      match nth_error (dials s) k with
      | None => None
      | Some d =>
          let s1 := with_dials s (remove_nth (dials s) k) in
          match d with
          | DReq => Some (dec_conns_count cf s1)                                           (* c.decConnsCount(); return nil, err *)
          | DFor w =>
              let s2 := if waitingb (wants s) w then with_wants s1 (set_wst (wants s1) w WFailed) else s1 in
              Some (with_decs s2 (S (decs s2)))                                            (* w.tryDeliver(nil, err); then decConnsCount *)
          end
      end
  | LDec =>
      match decs s with
      | O => None
      | S n => Some (dec_conns_count cf (with_decs s n))
      end
  | LTake w =>
      match wst (getw (wants s) w) with
      | WDelivered c => Some (with_lent (with_wants s (set_wst (wants s) w (WRet (RConn c)))) (lent s ++ [c]))
      | WFailed => Some (with_wants s (set_wst (wants s) w (WRet RDialErr)))
      | _ => None
      end
  | LTimeout w =>
      let x := getw (wants s) w in
      if clock s <? wdl x then None
      else match wst x with
           | WWaiting => Some (with_wants s (set_wst (wants s) w (WRet (timeout_res x))))      (* cancel closes ready *)
           | WDelivered c =>                                                                   (* cancel finds the conn: ReleaseConn(conn) next *)
               Some (with_rel (with_wants s (set_wst (wants s) w (WRet (timeout_res x)))) (rel s ++ [c]))
           | WFailed => Some (with_wants s (set_wst (wants s) w (WRet (timeout_res x))))
           | _ => None
           end
  | LRelease c =>
      if memb c (lent s) then Some (release_conn cf (with_lent s (remove_one c (lent s))) c)
      else if memb c (rel s) then Some (release_conn cf (with_rel s (remove_one c (rel s))) c)
      else None
  | LClose c =>
      if memb c (lent s) then
        let s1 := with_lent s (remove_one c (lent s)) in Some (with_closelog (with_closing s1 (closing s1 ++ [c])) (closelog s ++ [c]))
      else if memb c (scratch s) then
        let s1 := with_scratch s (remove_one c (scratch s)) in Some (with_closelog (with_closing s1 (closing s1 ++ [c])) (closelog s ++ [c]))
      else None
  | LCloseFin c =>
      if memb c (closing s) then Some (dec_conns_count cf (with_closing s (remove_one c (closing s)))) else None
  | LCleanIdle k =>
      if (k <=? length (idle s))%nat
      then Some (with_scratch (with_idle s (skipn k (idle s))) (scratch s ++ firstn k (idle s)))
      else None
  | LTick =>
      (* time does not pass a deadline while its AcquireConn call has not returned *)
      if forallb (fun w => negb (pending w) || (clock s <? wdl w)) (wants s)
      then Some (with_clock s (clock s + 1)) else None
  end.

Fixpoint run (cf : cfg) (s : st) (ls : list label) : option st :=
  match ls with
  | [] => Some s
  | l :: r => match step cf s l with Some s' => run cf s' r | None => None end
  end.

(* ---- derived quantities used by the spec ---- *)
Definition delivered_of (w : want) : list nat := match wst w with WDelivered c => [c] | _ => [] end.
Definition delivered (ws : list want) : list nat := flat_map delivered_of ws.

(* connections that exist and are not being closed *)
Definition held (s : st) : list nat := idle s ++ lent s ++ rel s ++ scratch s ++ delivered (wants s).
(* connections open (Close not finished) or being dialled *)
Definition open_or_dialling (s : st) : Z :=
  Z.of_nat (length (held s) + length (closing s) + length (dials s)).
