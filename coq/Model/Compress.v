(* Model/Compress.v — executable model of fasthttp's response compression as it is in /repo (C22).
     server.go    CompressHandler / CompressHandlerLevel / CompressHandlerBrotliLevel
     header.go    RequestHeader.HasAcceptEncodingBytes, ResponseHeader.isCompressibleContentType / ContentType / addVaryBytes
     http.go      Response.gzipBody / deflateBody / brotliBody / zstdBody, compress*BodyStream, flushWriter.Write
     compress.go, brotli.go, zstd.go   Append*BytesLevel, Write*Level, stacklessWrite*, normalize*CompressLevel
     stackless/func.go NewFunc (bounded queue), stackless/writer.go writer.do
   The codecs themselves (klauspost/compress, andybalholm/brotli) are the Section variables enc/dec. *)
From FH Require Import Model.Base Gen.GenC22 Spec.CompressSpec.
Open Scope N_scope.

Definition tok (k : coding) : bytes :=
  match k with Gzip => strGzip | Deflate => strDeflate | Br => strBr | Zstd => strZstd end.

(* ---- bytes.HasPrefix / bytes.Index / bytes.Contains ---- *)
Fixpoint has_prefix (p s : bytes) : bool :=
  match p, s with
  | [], _ => true
  | a :: p', b :: s' => (a =? b) && has_prefix p' s'
  | _ :: _, [] => false
  end.
Fixpoint index_from (i : nat) (s sub : bytes) : option nat :=
  match s with
  | [] => match sub with [] => Some i | _ => None end
  | _ :: r => if has_prefix sub s then Some i else index_from (S i) r sub
  end.
Definition index_of (s sub : bytes) : option nat := index_from 0 s sub.
Definition contains (s sub : bytes) : bool := match index_of s sub with Some _ => true | None => false end.

(* RequestHeader.HasAcceptEncodingBytes on the peeked (first) Accept-Encoding value *)
Definition has_accept_encoding (ae t : bytes) : bool :=
  match index_of ae t with
  | None => false
  | Some n =>
      let b := skipn (n + length t) ae in
      if (match b with c :: _ => negb (c =? COMMA) | [] => false end) then false
      else if (n =? 0)%nat then true
      else nth (n - 1) ae 0 =? SP
  end.

Definition peek (lines : list bytes) : bytes := match lines with v :: _ => v | [] => [] end.

(* the switch in CompressHandlerLevel (kind 0) / CompressHandlerBrotliLevel (kind 1) *)
Inductive hkind := HLevel | HBrotli.
Definition order (kd : hkind) : list coding :=
  match kd with HLevel => [Gzip; Deflate; Zstd] | HBrotli => [Br; Gzip; Deflate; Zstd] end.
Definition choose (kd : hkind) (ae_lines : list bytes) : option coding :=
  find (fun k => has_accept_encoding (peek ae_lines) (tok k)) (order kd).

(* ---- response header pieces ---- *)
(* ContentType(): the default when none is set, unless noDefaultContentType (Server.NoDefaultContentType /
   Header.SetNoDefaultContentType) *)
Definition content_type (nodef : bool) (ct : bytes) : bytes :=
  match ct with [] => if nodef then [] else defaultContentType | _ => ct end.
Definition compressible (nodef : bool) (ct : bytes) : bool :=
  let c := content_type nodef ct in
  has_prefix strTextSlash c || has_prefix strApplicationSlash c || has_prefix strImageSVG c
  || has_prefix strImageIcon c || has_prefix strFontSlash c || has_prefix strMultipartSlash c.

(* hasHeaderValue(s, value): headerValueScanner cuts at commas (a trailing empty element is not visited),
   stripSpace removes SP / HTAB at both ends (c40b715), caseInsensitiveCompare ignores bit 0x20 *)
Fixpoint strip_left_sp (s : bytes) : bytes :=
  match s with
  | c :: r => if (c =? SP) || (c =? HT) then strip_left_sp r else s
  | [] => []
  end.
Definition strip_space (s : bytes) : bytes := rev (strip_left_sp (rev (strip_left_sp s))).
Definition or20 (c : N) : N := N.lor c 32.
Definition ci_eq (a b : bytes) : bool := beq (map or20 a) (map or20 b).
Definition hv_elems (b : bytes) : list bytes :=
  match b with
  | [] => []
  | _ => let es := split_comma b in
         match rev es with
         | [] :: r => rev r
         | _ => es
         end
  end.
Definition has_header_value (s value : bytes) : bool :=
  existsb (fun e => ci_eq (strip_space e) value) (hv_elems s).

(* addVaryBytes(value) on the Vary lines of the response (peek = first line, Set = replace first line);
   since f11ef83 the existing value is searched per list member *)
Definition add_vary (lines : list bytes) (value : bytes) : list bytes :=
  match lines with
  | [] => [value]
  | v :: rest =>
      match v with
      | [] => value :: rest
      | _ => if has_header_value v value then lines else (v ++ COMMA :: value) :: rest
      end
  end.

(* ---- levels ---- *)
Definition normalizeCompressLevel (l : Z) : Z :=
  ((if (l <? -2) || (l >? 9) then CompressDefaultCompression else l) + 2)%Z.
Definition normalizeBrotliCompressLevel (l : Z) : Z :=
  (if (l <? 0) || (l >? 11) then CompressBrotliDefaultCompression else l)%Z.
(* zstd.go: CompressZstdSpeedNotSet / CompressZstdDefault / CompressZstdBestCompression come from Gen/GenC22.v (the
   translator evaluates the iota block); the harness also compares them with the exported Go constants (CConst case) *)
Definition normalizeZstdCompressLevel (l : Z) : Z :=
  (if (l <=? CompressZstdSpeedNotSet) || (l >? CompressZstdBestCompression) then CompressZstdDefault else l)%Z.
Definition pool_index (k : coding) (l : Z) : Z :=
  match k with
  | Gzip | Deflate => normalizeCompressLevel l
  | Br => normalizeBrotliCompressLevel l
  | Zstd => normalizeZstdCompressLevel l
  end.
Definition pool_map_len : Z := 12.   (* newCompressWriterPoolMap *)

Section Codec.
  Variable enc : coding -> Z -> bytes -> bytes.
  Variable dec : coding -> bytes -> bytes.

  (* ---- the stackless function queue (stackless.NewFunc): inflight <= cap entries are queued;
     a call either gets a slot (a worker runs f) or is refused ---- *)
  Definition queue_accepts (inflight cap : Z) : bool := (inflight <? cap)%Z.

  (* stacklessWrite<Coding>(ctx) with ctx.w an in-memory writer holding dst:
     queued -> a worker runs nonblockingWrite; refused -> nonblockingWrite runs inline (fix 645c61f) *)
  Definition nonblocking_write (k : coding) (lvl : Z) (dst p : bytes) : bytes := dst ++ enc k lvl p.
  Definition stackless_write (k : coding) (lvl : Z) (inflight cap : Z) (dst p : bytes) : bytes :=
    if queue_accepts inflight cap then nonblocking_write k lvl dst p else nonblocking_write k lvl dst p.

  (* Append<Coding>BytesLevel / Write<Coding>Level to *byteSliceWriter, *bytes.Buffer, *ByteBuffer *)
  Definition append_bytes_level (k : coding) (dst src : bytes) (lvl : Z) (inflight cap : Z) : bytes :=
    stackless_write k lvl inflight cap dst src.

  (* ---- the stackless.Writer path: every operation (Write, Flush, Close) of a pooled stackless writer is one
     call of the shared stackless function; `full` says whether the queue refuses that call.  Since 0c40a4c a
     refused operation runs inline on the caller's stack (writer.do), so no operation is lost or reported. ---- *)
  Inductive sres := SOk (w : wire) | SErr.

  (* writer.do(op) for an operation whose effect on the coder is `run`: queued or inline, the same effect *)
  Definition writer_do {A} (full : bool) (run : A) : A := if full then run else run.

  (* The stackless writer hands the coder an in-memory sink (xw) and, when an operation has returned, forwards what
     the sink holds and resets it (writer.do).  That is sound only for coders that have written their output when the
     operation returns: gzip, zlib and brotli do; the zstd Encoder is created with WithEncoderConcurrency(1) (b444fe3)
     so that it does too (with the default concurrency it wrote blocks from its own goroutines: the repaired
     zstd-stackless-async-write defect). *)
  Definition coder_output (k : coding) (lvl : Z) (consumed : bytes) (closed : bool) : wire :=
    WCoded k (enc k lvl consumed) closed.

  (* Write<Coding>Level(w, p, level) for any other io.Writer: acquire (fresh writer), Write, release (Close) *)
  Definition write_generic (k : coding) (lvl : Z) (p : bytes) (full_write full_close : bool) : sres :=
    let written := writer_do full_write p in            (* the coder has consumed p *)
    let closed := writer_do full_close true in           (* the coder has written its final block and trailer *)
    SOk (coder_output k lvl written closed).

  (* compress<Coding>BodyStream: for each chunk read from the body stream: Write, Flush (flushWriter.Write);
     then release (Close).  sched: queue refusals for the successive operations, missing entries = not refused *)
  Definition nth_full (sched : list bool) (i : nat) : bool := nth i sched false.
  Fixpoint stream_consumed (sched : list bool) (i : nat) (chunks : list bytes) : bytes :=
    match chunks with
    | [] => []
    | c :: r => writer_do (nth_full sched i) c ++ writer_do (nth_full sched (S i)) [] ++ stream_consumed sched (S (S i)) r
    end.
  Definition stream_compress (k : coding) (lvl : Z) (chunks : list bytes) (sched : list bool) : sres :=
    SOk (coder_output k lvl (stream_consumed sched 0 chunks) (writer_do (nth_full sched (2 * length chunks)) true)).

  (* ---- Response.<coding>Body(level) ---- *)
  Record resp := {
    r_ce : bytes;              (* Content-Encoding *)
    r_ct : bytes;              (* Content-Type as set by the handler ([] = not set) *)
    r_nodefct : bool;          (* Header.noDefaultContentType *)
    r_vary : list bytes;       (* Vary lines *)
    r_streamed : bool;         (* bodyStream != nil *)
    r_chunks : list bytes      (* the body: one element when buffered; the reads of the body stream otherwise *)
  }.
  Definition r_body (r : resp) : bytes := concat (r_chunks r).

  Record cresp := { c_ce : bytes; c_vary : list bytes; c_body : sres }.

  Definition unchanged (r : resp) : cresp :=
    {| c_ce := r_ce r; c_vary := r_vary r; c_body := SOk (WPlain (r_body r)) |}.

  Definition compress_body (k : coding) (lvl : Z) (inflight cap : Z) (sched : list bool) (r : resp) : cresp :=
    match r_ce r with
    | _ :: _ => unchanged r                                (* already has a Content-Encoding *)
    | [] =>
      if negb (compressible (r_nodefct r) (r_ct r)) then unchanged r
      else if r_streamed r then
        {| c_ce := tok k; c_vary := add_vary (r_vary r) strAcceptEncoding;
           c_body := stream_compress k lvl (r_chunks r) sched |}
      else if (Z.of_nat (length (r_body r)) <? minCompressLen)%Z then unchanged r
      else
        {| c_ce := tok k; c_vary := add_vary (r_vary r) strAcceptEncoding;
           c_body := SOk (WCoded k (append_bytes_level k [] (r_body r) lvl inflight cap) true) |}
    end.

  (* the level handed to the chosen coding *)
  Definition level_for (kd : hkind) (k : coding) (brotli_level other_level : Z) : Z :=
    match kd, k with HBrotli, Br => brotli_level | _, _ => other_level end.

  Definition compress_handler (kd : hkind) (brotli_level other_level : Z) (ae_lines : list bytes)
             (inflight cap : Z) (sched : list bool) (r : resp) : option coding * cresp :=
    match choose kd ae_lines with
    | None => (None, unchanged r)
    | Some k => (Some k, compress_body k (level_for kd k brotli_level other_level) inflight cap sched r)
    end.
  (* CompressHandler*(CompressHandler*(h)): the outer wrapper sees what the inner one left *)
  Definition wire_bytes (s : sres) (orig : bytes) : bytes :=
    match s with SOk (WCoded _ p _) => p | SOk (WPlain b) => b | SErr => orig end.
  Definition compress_handler_twice (kd : hkind) (brotli_level other_level : Z) (ae_lines : list bytes)
             (inflight cap : Z) (sched : list bool) (r : resp) : cresp :=
    let c1 := snd (compress_handler kd brotli_level other_level ae_lines inflight cap sched r) in
    let r2 := {| r_ce := c_ce c1; r_ct := r_ct r; r_nodefct := r_nodefct r; r_vary := c_vary c1;
                 r_streamed := r_streamed r; r_chunks := [wire_bytes (c_body c1) (r_body r)] |} in
    let c2 := snd (compress_handler kd brotli_level other_level ae_lines inflight cap sched r2) in
    match c_body c2 with
    | SOk (WPlain _) => {| c_ce := c_ce c2; c_vary := c_vary c2; c_body := c_body c1 |}   (* outer left it alone *)
    | _ => c2                                                                                (* outer coded the inner output *)
    end.
End Codec.
