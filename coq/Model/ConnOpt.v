(* ConnOpt.v — the `Connection` header option code of header.go / client.go that decides connection
   persistence (owner: C10).  One Gallina function per Go function, same names:

     caseInsensitiveCompare (cookie.go), stripSpace, headerValueScanner.next (as split_comma),
     hasHeaderValue, the `Connection` branch + epilogue of RequestHeader.parseHeaders (req_conn_flag) and of
     ResponseHeader.parseHeaders (resp_conn_flag), header.SetConnectionClose / ResetConnectionClose /
     ResponseHeader.setSpecialHeader(Connection) / setNonSpecial (the rhdr operations), the Connection
     lines ResponseHeader.AppendBytes writes (rhdr_written), transport.RoundTrip's closeConn (client_close_conn),
     pipelineConnClient.reader's closeConn (pipeline_conn_ids).

   No proofs here (Proof/ConnOptProof.v). *)
From FH Require Import Model.Base Gen.GenC10.
Open Scope N_scope.

(* ---- caseInsensitiveCompare: len(a) == len(b) and a[i]|0x20 == b[i]|0x20 for all i ---- *)
Fixpoint caseInsensitiveCompare (a b : bytes) : bool :=
  match a, b with
  | [], [] => true
  | x :: a', y :: b' => (N.lor x 32 =? N.lor y 32) && caseInsensitiveCompare a' b'
  | _, _ => false
  end.

(* ---- stripSpace: drops leading and trailing ' ' and '\t' ---- *)
Fixpoint strip_lead (b : bytes) : bytes :=
  match b with
  | c :: r => if (c =? 32) || (c =? 9) then strip_lead r else b
  | [] => []
  end.
Fixpoint strip_trail (b : bytes) : bytes :=
  match b with
  | [] => []
  | c :: r => match strip_trail r with
              | [] => if (c =? 32) || (c =? 9) then [] else [c]
              | r' => c :: r'
              end
  end.
Definition stripSpace (b : bytes) : bytes := strip_trail (strip_lead b).

(* ---- headerValueScanner.next iterated: the values it yields, in order (before stripSpace).
   bytes.Cut at ','; the scan stops when the rest is empty, so a trailing comma yields no
   empty last value but ",," does yield empty values. cur = current value, reversed. ---- *)
Fixpoint split_comma_from (cur : bytes) (b : bytes) : list bytes :=
  match b with
  | [] => match cur with [] => [] | _ => [rev cur] end
  | c :: r => if c =? 44 then rev cur :: split_comma_from [] r else split_comma_from (c :: cur) r
  end.
Definition split_comma (b : bytes) : list bytes := split_comma_from [] b.

(* ---- hasHeaderValue(s, value) ---- *)
Definition hasHeaderValue (s value : bytes) : bool :=
  existsb (fun v => caseInsensitiveCompare (stripSpace v) value) (split_comma s).

(* ---- RequestHeader.parseHeaders: what happens to h.connectionClose ----
   vals = the values of the Connection field lines in the order they appear;
   framing_close = closeAfterRequest || (contentLengthSeen && transferEncodingSeen).
   The loop: close option present -> flag := true (line not stored); otherwise the flag is left alone and the
   line is appended to h.h.  Epilogue: framing_close forces true; an HTTP/1.0 request that is not
   closing yet closes unless the FIRST stored Connection line has a keep-alive option. *)
Fixpoint conn_loop (vals : list bytes) (flag : bool) (stored : list bytes) : bool * list bytes :=
  match vals with
  | [] => (flag, stored)
  | v :: r => if hasHeaderValue v strClose then conn_loop r true stored
              else conn_loop r flag (stored ++ [v])
  end.
Definition peek_first (stored : list bytes) : bytes := match stored with v :: _ => v | [] => [] end.

Definition req_conn_flag (noHTTP11 framing_close : bool) (vals : list bytes) : bool :=
  let '(flag, stored) := conn_loop vals false [] in
  let flag := if framing_close then true else flag in
  if noHTTP11 && negb flag then negb (hasHeaderValue (peek_first stored) strKeepAlive) else flag.

(* ---- ResponseHeader.parseHeaders (client side) ----
   identity_close = (contentLength == -2 && !ConnectionUpgrade() && !mustSkipContentLength()) *)
Definition resp_conn_flag (noHTTP11 identity_close : bool) (vals : list bytes) : bool :=
  let '(flag, stored) := conn_loop vals false [] in
  let flag := if identity_close then true else flag in
  if noHTTP11 && negb flag then negb (hasHeaderValue (peek_first stored) strKeepAlive) else flag.

(* ---- transport.RoundTrip: closeConn := resetConnection || req.ConnectionClose() || resp.ConnectionClose() ---- *)
Definition client_close_conn (resetConnection req_close resp_close : bool) : bool :=
  resetConnection || req_close || resp_close.

(* ---- pipelineConnClient.reader / worker (PipelineClient): after a response has been read,
   `closeConn := w.resp.ConnectionClose()`; the caller is signalled and, when closeConn, the reader returns: the
   worker closes the connection and the next request starts a worker with a fresh connection.
   flags = ConnectionClose() of the successive responses; result = the connection (numbered from id) each
   of the sequential requests is written on. ---- *)
Fixpoint pipeline_conn_ids (id : Z) (flags : list bool) : list Z :=
  match flags with
  | [] => []
  | f :: r => id :: pipeline_conn_ids (if f then (id + 1)%Z else id) r
  end.

(* ---- server side: the Connection part of a ResponseHeader under the handler's operations ----
   rh_close = header.connectionClose; rh_conn = the (at most one) Connection entry of h.h:
   Set/Add of the key "Connection" both go through setSpecialHeader, which keeps a single entry. *)
Record rhdr := { rh_close : bool; rh_conn : option bytes }.
Definition rhdr_init : rhdr := {| rh_close := false; rh_conn := None |}.

(* header.SetConnectionClose *)
Definition rhdr_set_close (h : rhdr) : rhdr := {| rh_close := true; rh_conn := rh_conn h |}.
(* header.ResetConnectionClose: only when the flag is set: clear it and delete every Connection entry *)
Definition rhdr_reset_close (h : rhdr) : rhdr :=
  if rh_close h then {| rh_close := false; rh_conn := None |} else h.
(* ResponseHeader.Del("Connection") -> del: connectionClose = false and every Connection entry of h.h removed *)
Definition rhdr_del (h : rhdr) : rhdr := {| rh_close := false; rh_conn := None |}.
(* header.setNonSpecial(strConnection, v): setArgBytes replaces the first entry or appends *)
Definition rhdr_set_nonspecial (h : rhdr) (v : bytes) : rhdr := {| rh_close := rh_close h; rh_conn := Some v |}.
(* ResponseHeader.Set / Add / SetBytesKV ... ("Connection", v) -> setSpecialHeader:
   hasHeaderValue(v, strClose) ? (SetConnectionClose; delete every Connection entry of h.h)
                               : (ResetConnectionClose; setNonSpecial) *)
Definition rhdr_set_conn (h : rhdr) (v : bytes) : rhdr :=
  if hasHeaderValue v strClose then {| rh_close := true; rh_conn := None |}
  else rhdr_set_nonspecial (rhdr_reset_close h) v.

(* the values of the Connection lines AppendBytes writes, in order: the h.h entry, then "close" *)
Definition rhdr_written (h : rhdr) : list bytes :=
  (match rh_conn h with Some v => [v] | None => [] end) ++ (if rh_close h then [strClose] else []).
