(* Model of cookie.go (response cookies: setters, AppendBytes, ParseBytes, the two scanners) and of the
   request-cookie jar (RequestHeader.SetCookie on h.cookies, appendRequestCookieBytes, parseRequestCookies).
   String constants come from Gen/GenC06.v.

   Representation choices (all value-level, no aliasing):
   * []argsKV is a list of (key, value) pairs; spare capacity (allocArg re-using old slots) is not observable
     here because every slot that is kept has both fields overwritten before it is read.
   * time.Time is the Unix time in whole seconds (Z); the zero Time is zeroTime = 0001-01-01 00:00:00 UTC.
     AppendHTTPDate is Spec.HttpDate.spec_format_http_date (the C31 formalisation of Time.AppendFormat(RFC1123)+GMT).
   * normalizePath is a parameter of SetPath (it is modelled by another property).
   * the time.Parse fallbacks of parseCookieExpires are not modelled: they are only reached when the fast
     RFC 1123 parser rejects the string; the model then answers PUnmodelledExpires. *)
From FH Require Import Model.Base Gen.GenC06 Model.Ints Model.ByteClassModel Spec.Calendar Spec.HttpDate Model.DateIP.
Open Scope N_scope.

(* ---- small byte helpers ---- *)
Definition kvs := list (bytes * bytes).

(* removeSemicolons: every ';' becomes ' ' *)
Definition removeSemicolons (s : bytes) : bytes := map (fun c => if c =? 59 then 32 else c) s.
Definition initHeaderValueBytes (v : bytes) : bytes := removeNewLines v.

(* caseInsensitiveCompare: equal lengths and a[i]|0x20 == b[i]|0x20 *)
Fixpoint caseInsensitiveCompare (a b : bytes) : bool :=
  match a, b with
  | [], [] => true
  | x :: a', y :: b' => (N.lor x 32 =? N.lor y 32) && caseInsensitiveCompare a' b'
  | _, _ => false
  end.

(* leading / trailing spaces *)
Fixpoint dropSpaces (s : bytes) : bytes :=
  match s with
  | c :: r => if c =? 32 then dropSpaces r else s
  | [] => []
  end.
Definition trimSpaces (s : bytes) : bytes := rev (dropSpaces (rev (dropSpaces s))).

(* the `len(src) > 1 && src[0] == '"' && src[len-1] == '"'` test and cut *)
Definition unquote (s : bytes) : bytes :=
  match s with
  | c :: r => if c =? 34 then
                match rev r with
                | d :: m => if d =? 34 then rev m else s
                | [] => s
                end
              else s
  | [] => s
  end.

(* trimCookieArgNoCopy and decodeCookieArg return the same byte string (the latter copies; its fast path
   is the identity exactly when trimming and unquoting would not change anything) *)
Definition trimCookieArg (src : bytes) (skipQuotes : bool) : bytes :=
  let t := trimSpaces src in if skipQuotes then unquote t else t.
Definition decodeCookieArg (src : bytes) (skipQuotes : bool) : bytes := trimCookieArg src skipQuotes.

Definition validCookieValue (v : bytes) : bool :=
  forallb (fun c => negb ((c =? 34) || (c =? 59) || (c =? 92))) v.
Definition validCookiePathValue (v : bytes) : bool :=
  forallb (fun b => if (b =? 13) || (b =? 10) then true else negb ((b <? 32) || (127 <=? b) || (b =? 59))) v.

(* split at the first occurrence of d: (before, Some after) or (all, None) *)
Fixpoint split_at (d : N) (b : bytes) : bytes * option bytes :=
  match b with
  | [] => ([], None)
  | c :: r => if c =? d then ([], Some r)
              else let '(a, t) := split_at d r in (c :: a, t)
  end.

(* One step of cookieScanner.nextRaw / next.  The Go loop walks b: the first '=' seen while isKey ends
   the key; the first ';' ends the pair; after the ';' one optional space is skipped.
   Result: None when b is empty, else (key, value, remaining b). *)
Definition scan_pair (b : bytes) : option (bytes * bytes * bytes) :=
  match b with
  | [] => None
  | _ =>
      let '(seg, after) := split_at 59 b in
      let rest := match after with
                  | Some (c :: r) => if c =? 32 then r else c :: r
                  | Some [] => []
                  | None => []
                  end in
      let '(x, y) := split_at 61 seg in
      match y with
      | Some v => Some (trimCookieArg x false, trimCookieArg v true, rest)
      | None => Some ([], trimCookieArg x true, rest)      (* isKey still true: key = key[:0] *)
      end
  end.
Definition nextRaw := scan_pair.
Definition next := scan_pair.

(* ---- the Cookie object ---- *)
Inductive sameSite := SSDisabled | SSDefault | SSLax | SSStrict | SSNone.
Definition sameSite_eqb (a b : sameSite) : bool :=
  match a, b with
  | SSDisabled, SSDisabled | SSDefault, SSDefault | SSLax, SSLax | SSStrict, SSStrict | SSNone, SSNone => true
  | _, _ => false
  end.

Definition zeroTime : Z := (-62135596800)%Z.
Definition IsZero (t : Z) : bool := (t =? zeroTime)%Z.

Record cookie := mkCookie {
  ck_key : bytes; ck_value : bytes; ck_domain : bytes; ck_path : bytes;
  ck_expire : Z; ck_maxAge : Z;
  ck_sameSite : sameSite; ck_httpOnly : bool; ck_secure : bool; ck_partitioned : bool }.

Definition emptyCookie : cookie := mkCookie [] [] [] [] zeroTime 0 SSDisabled false false false.
Definition Reset (c : cookie) : cookie := emptyCookie.

Definition with_key c x := mkCookie x (ck_value c) (ck_domain c) (ck_path c) (ck_expire c) (ck_maxAge c) (ck_sameSite c) (ck_httpOnly c) (ck_secure c) (ck_partitioned c).
Definition with_value c x := mkCookie (ck_key c) x (ck_domain c) (ck_path c) (ck_expire c) (ck_maxAge c) (ck_sameSite c) (ck_httpOnly c) (ck_secure c) (ck_partitioned c).
Definition with_domain c x := mkCookie (ck_key c) (ck_value c) x (ck_path c) (ck_expire c) (ck_maxAge c) (ck_sameSite c) (ck_httpOnly c) (ck_secure c) (ck_partitioned c).
Definition with_path c x := mkCookie (ck_key c) (ck_value c) (ck_domain c) x (ck_expire c) (ck_maxAge c) (ck_sameSite c) (ck_httpOnly c) (ck_secure c) (ck_partitioned c).
Definition with_expire c x := mkCookie (ck_key c) (ck_value c) (ck_domain c) (ck_path c) x (ck_maxAge c) (ck_sameSite c) (ck_httpOnly c) (ck_secure c) (ck_partitioned c).
Definition with_maxAge c x := mkCookie (ck_key c) (ck_value c) (ck_domain c) (ck_path c) (ck_expire c) x (ck_sameSite c) (ck_httpOnly c) (ck_secure c) (ck_partitioned c).
Definition with_sameSite c x := mkCookie (ck_key c) (ck_value c) (ck_domain c) (ck_path c) (ck_expire c) (ck_maxAge c) x (ck_httpOnly c) (ck_secure c) (ck_partitioned c).
Definition with_httpOnly c x := mkCookie (ck_key c) (ck_value c) (ck_domain c) (ck_path c) (ck_expire c) (ck_maxAge c) (ck_sameSite c) x (ck_secure c) (ck_partitioned c).
Definition with_secure c x := mkCookie (ck_key c) (ck_value c) (ck_domain c) (ck_path c) (ck_expire c) (ck_maxAge c) (ck_sameSite c) (ck_httpOnly c) x (ck_partitioned c).
Definition with_partitioned c x := mkCookie (ck_key c) (ck_value c) (ck_domain c) (ck_path c) (ck_expire c) (ck_maxAge c) (ck_sameSite c) (ck_httpOnly c) (ck_secure c) x.

Section Setters.
  Variable normalizePath : bytes -> bytes.

  Definition SetKey (c : cookie) (key : bytes) : cookie := with_key c (removeSemicolons (initHeaderValueBytes key)).
  Definition SetValue (c : cookie) (v : bytes) : cookie := with_value c (removeSemicolons (initHeaderValueBytes v)).
  Definition SetDomain (c : cookie) (d : bytes) : cookie := with_domain c (removeSemicolons (initHeaderValueBytes d)).
  Definition SetPath (c : cookie) (p : bytes) : cookie :=
    with_path c (removeSemicolons (removeNewLines (normalizePath p))).
  Definition SetMaxAge (c : cookie) (n : Z) : cookie := with_maxAge c n.
  Definition SetExpire (c : cookie) (t : Z) : cookie := with_expire c t.
  Definition SetHTTPOnly (c : cookie) (b : bool) : cookie := with_httpOnly c b.
  Definition SetSecure (c : cookie) (b : bool) : cookie := with_secure c b.
  Definition SetSameSite (c : cookie) (m : sameSite) : cookie :=
    let c := with_sameSite c m in
    match m with SSNone => SetSecure c true | _ => c end.
  Definition SetPartitioned (c : cookie) (p : bool) : cookie :=
    let c := with_partitioned c p in
    if p then SetPath (SetSecure c true) [47] else c.

  Inductive cop :=
  | OKey (b : bytes) | OValue (b : bytes) | ODomain (b : bytes) | OPath (b : bytes)
  | OMaxAge (n : Z) | OExpire (t : Z) | OHTTPOnly (b : bool) | OSecure (b : bool)
  | OSameSite (m : sameSite) | OPartitioned (b : bool) | OReset
  | OCopyFrom (src : cookie).   (* c.CopyTo(src): Reset, then every field of src *)
  Definition cstep (c : cookie) (o : cop) : cookie :=
    match o with
    | OKey b => SetKey c b | OValue b => SetValue c b | ODomain b => SetDomain c b | OPath b => SetPath c b
    | OMaxAge n => SetMaxAge c n | OExpire t => SetExpire c t | OHTTPOnly b => SetHTTPOnly c b
    | OSecure b => SetSecure c b | OSameSite m => SetSameSite c m | OPartitioned b => SetPartitioned c b
    | OReset => Reset c
    | OCopyFrom src => src
    end.
  Definition crun (ops : list cop) : cookie := fold_left cstep ops emptyCookie.
End Setters.

(* ---- Cookie.AppendBytes ---- *)
Definition semiSpace : bytes := [59; 32].
Definition appendCookiePart (dst key value : bytes) : bytes := dst ++ semiSpace ++ key ++ [61] ++ value.
Definition AppendHTTPDate (t : Z) : bytes := spec_format_http_date t.

Definition AppendBytes (dst : bytes) (c : cookie) : bytes :=
  let dst := match ck_key c with [] => dst | k => dst ++ k ++ [61] end in
  let dst := dst ++ ck_value c in
  let dst :=
    if negb (ck_maxAge c =? 0)%Z then
      dst ++ semiSpace ++ strCookieMaxAge ++ [61] ++
        (if (ck_maxAge c <? 0)%Z then dec_digits 0 else dec_digits (ck_maxAge c))
    else if negb (IsZero (ck_expire c)) then
      dst ++ semiSpace ++ strCookieExpires ++ [61] ++ AppendHTTPDate (ck_expire c)
    else dst in
  let dst := match ck_domain c with [] => dst | d => appendCookiePart dst strCookieDomain d end in
  let dst := match ck_path c with [] => dst | p => appendCookiePart dst strCookiePath p end in
  let dst := if ck_httpOnly c then dst ++ semiSpace ++ strCookieHTTPOnly else dst in
  let dst := if ck_secure c then dst ++ semiSpace ++ strCookieSecure else dst in
  let dst := match ck_sameSite c with
             | SSDisabled => dst
             | SSDefault => dst ++ semiSpace ++ strCookieSameSite
             | SSLax => dst ++ semiSpace ++ strCookieSameSite ++ [61] ++ strCookieSameSiteLax
             | SSStrict => dst ++ semiSpace ++ strCookieSameSite ++ [61] ++ strCookieSameSiteStrict
             | SSNone => dst ++ semiSpace ++ strCookieSameSite ++ [61] ++ strCookieSameSiteNone
             end in
  if ck_partitioned c then dst ++ semiSpace ++ strCookiePartitioned else dst.
Definition Cookie_ (c : cookie) : bytes := AppendBytes [] c.

(* ---- Cookie.ParseBytes ---- *)
Inductive presult :=
| PCookie (c : cookie)
| PErrNoCookies | PErrInvalidValue | PErrMaxAge | PUnmodelledExpires
| POutOfFuel.

Definition lower1 (s : bytes) : N := match s with c :: _ => N.lor c 32 | [] => 0 end.

(* the body of the `for s.nextRaw(&k, &v)` loop: Some c' or an error *)
Definition apply_attr (c : cookie) (k v : bytes) : presult :=
  match k with
  | _ :: _ =>
      let f := lower1 k in
      if f =? 109 (* m *) then
        if caseInsensitiveCompare strCookieMaxAge k then
          match ParseUint 64 v with POk n => PCookie (with_maxAge c n) | PErr _ => PErrMaxAge end
        else PCookie c
      else if f =? 101 (* e *) then
        if caseInsensitiveCompare strCookieExpires k then
          match parseRFC1123DateGMT v with Some t => PCookie (with_expire c t) | None => PUnmodelledExpires end
        else PCookie c
      else if f =? 100 (* d *) then
        if caseInsensitiveCompare strCookieDomain k then
          if validCookieValue v then PCookie (with_domain c (initHeaderValueBytes v)) else PErrInvalidValue
        else PCookie c
      else if f =? 112 (* p *) then
        if caseInsensitiveCompare strCookiePath k then
          if validCookiePathValue v then PCookie (with_path c (initHeaderValueBytes v)) else PErrInvalidValue
        else PCookie c
      else if f =? 115 (* s *) then
        if caseInsensitiveCompare strCookieSameSite k then
          match v with
          | [] => PCookie c
          | _ =>
              let g := lower1 v in
              if g =? 108 then (if caseInsensitiveCompare strCookieSameSiteLax v then PCookie (with_sameSite c SSLax) else PCookie c)
              else if g =? 115 then (if caseInsensitiveCompare strCookieSameSiteStrict v then PCookie (with_sameSite c SSStrict) else PCookie c)
              else if g =? 110 then (if caseInsensitiveCompare strCookieSameSiteNone v then PCookie (with_sameSite c SSNone) else PCookie c)
              else PCookie c
          end
        else PCookie c
      else PCookie c
  | [] =>
      match v with
      | [] => PCookie c
      | _ =>
          let g := lower1 v in
          if g =? 104 (* h *) then
            (if caseInsensitiveCompare strCookieHTTPOnly v then PCookie (with_httpOnly c true) else PCookie c)
          else if g =? 115 (* s *) then
            (if caseInsensitiveCompare strCookieSecure v then PCookie (with_secure c true)
             else if caseInsensitiveCompare strCookieSameSite v then PCookie (with_sameSite c SSDefault)
             else PCookie c)
          else if g =? 112 (* p *) then
            (if caseInsensitiveCompare strCookiePartitioned v then PCookie (with_partitioned c true) else PCookie c)
          else PCookie c
      end
  end.

Fixpoint parse_attrs (fuel : nat) (b : bytes) (c : cookie) : presult :=
  match fuel with
  | O => match b with [] => PCookie c | _ => POutOfFuel end
  | S f =>
      match nextRaw b with
      | None => PCookie c
      | Some (k, v, rest) =>
          match apply_attr c k v with
          | PCookie c' => parse_attrs f rest c'
          | e => e
          end
      end
  end.

Definition ParseBytes (src : bytes) : presult :=
  match nextRaw src with
  | None => PErrNoCookies
  | Some (k, v, rest) =>
      if negb (validCookieValue v) then PErrInvalidValue
      else
        let c := with_value (with_key emptyCookie (initHeaderValueBytes k)) (initHeaderValueBytes v) in
        parse_attrs (length rest) rest c
  end.

(* ---- request cookies ---- *)
(* setArg / appendArg on a []argsKV seen as a list of pairs *)
Fixpoint setArg (h : kvs) (key value : bytes) : kvs :=
  match h with
  | [] => [(key, value)]                                   (* appendArg *)
  | (k, v) :: r => if beq key k then (k, value) :: r else (k, v) :: setArg r key value
  end.
Definition appendArg (h : kvs) (key value : bytes) : kvs := h ++ [(key, value)].

(* RequestHeader.SetCookie restricted to the cookie jar (collectCookies is in HeaderWrite.v) *)
Definition jarSetCookie (cookies : kvs) (key value : bytes) : kvs :=
  let bufK := removeSemicolons (initHeaderValueBytes key) in
  let bufV := removeSemicolons (initHeaderValueBytes value) in
  setArg cookies bufK bufV.

Fixpoint appendRequestCookieBytes (dst : bytes) (cookies : kvs) : bytes :=
  match cookies with
  | [] => dst
  | (k, v) :: r =>
      let dst := match k with [] => dst | _ => dst ++ k ++ [61] end in
      let dst := dst ++ v in
      match r with
      | [] => dst
      | _ => appendRequestCookieBytes (dst ++ semiSpace) r
      end
  end.

Fixpoint prc_loop (fuel : nat) (b : bytes) (cookies : kvs) : option kvs :=
  match fuel with
  | O => match b with [] => Some cookies | _ => None end
  | S f =>
      match next b with
      | None => Some cookies
      | Some (k, v, rest) =>
          let keep := (match k, v with [], [] => false | _, _ => true end) && validCookieValue v in
          prc_loop f rest (if keep then cookies ++ [(k, v)] else cookies)
      end
  end.
(* None = out of fuel (cannot happen: every step consumes at least one byte) *)
Definition parseRequestCookies (cookies : kvs) (src : bytes) : option kvs := prc_loop (length src) src cookies.

(* getCookieKey (response Set-Cookie special header): the part before the first '=' or the whole string *)
Definition getCookieKey (src : bytes) : bytes :=
  let '(x, _) := split_at 61 src in decodeCookieArg x false.

(* normalizePath as a finite table of the real function's answers (used by the case files) *)
Fixpoint np_of_table (t : list (bytes * bytes)) (p : bytes) : bytes :=
  match t with
  | [] => p
  | (a, b) :: r => if beq a p then b else np_of_table r p
  end.

(* ---- cookie jars of the two header types (header.go) ---- *)
(* delAllArgsStable on a []argsKV seen as a list of pairs *)
Fixpoint delAllKV (h : kvs) (key : bytes) : kvs :=
  match h with
  | [] => []
  | (k, v) :: r => if beq key k then delAllKV r key else (k, v) :: delAllKV r key
  end.
Fixpoint peekKV (h : kvs) (key : bytes) : option bytes :=
  match h with
  | [] => None
  | (k, v) :: r => if beq k key then Some v else peekKV r key
  end.

(* RequestHeader on a header whose Cookie lines are already collected: SetCookie / DelCookie / DelAllCookies /
   Set("Cookie", text).  JRaw carries the pairs whose text "k=v; k2=v2" is given to Set *)
Definition raw_cookie_text (pairs : kvs) : bytes := appendRequestCookieBytes [] pairs.
Inductive jop := JSet (k v : bytes) | JDel (k : bytes) | JDelAll | JRaw (pairs : kvs).
Definition jstep (j : kvs) (o : jop) : kvs :=
  match o with
  | JSet k v => jarSetCookie j k v
  | JDel k => delAllKV j k
  | JDelAll => []
  | JRaw pairs => match parseRequestCookies j (initHeaderValueBytes (raw_cookie_text pairs)) with Some c => c | None => j end
  end.
Definition jrun (ops : list jop) : kvs := fold_left jstep ops [].
(* RequestHeader.Cookie(key) *)
Definition jarCookie (j : kvs) (key : bytes) : option bytes := peekKV j key.

(* ResponseHeader: SetCookie(cookie) / DelCookie / DelClientCookie / DelAllCookies *)
Definition CookieExpireDelete : Z := 1257894000%Z.     (* time.Date(2009, November, 10, 23, 0, 0, 0, UTC) *)
Definition respSetCookie (j : kvs) (c : cookie) : kvs :=
  setArg j (initHeaderValueBytes (ck_key c)) (initHeaderValueBytes (Cookie_ c)).
Inductive rjop := RJSet (c : cookie) | RJDel (k : bytes) | RJDelClient (k : bytes) | RJDelAll.
Definition delClientCookie (k : bytes) : cookie := with_expire (SetKey emptyCookie k) CookieExpireDelete.
Definition rjstep (j : kvs) (o : rjop) : kvs :=
  match o with
  | RJSet c => respSetCookie j c
  | RJDel k => delAllKV j k
  | RJDelClient k => respSetCookie (delAllKV j k) (delClientCookie k)
  | RJDelAll => []
  end.
Definition rjrun (ops : list rjop) : kvs := fold_left rjstep ops [].
