(* CtxReset.v — the state a RequestCtx carries from one request to the next (C11).

   Part A.  A RequestCtx is a valuation of its (flattened) struct fields; 0 stands for the Go zero
   value (nil, false, 0, "", a slice of length 0, a body buffer without bytes).  Every Reset
   function of server.go / http.go / header.go / uri.go / args.go / userdata.go is written as the
   sequence of assignments the Go function performs, in the same order, so that "forgot to reset
   field f" is a one-line change here.  `all_fields` is the enumerated field list; the harness
   enumerates the real structs by reflection and compares (a new field breaks the tie), and it
   dirties every field of a real object, calls the real Reset and compares which fields became zero.

   Part B.  The per-connection locals of Server.serveConnCounted that are declared outside the
   loop (connRequestNum, maxRequestBodySize, writeTimeout, previousWriteTimeout, connectionClose,
   continueReadingRequest) and the connection's read/write deadlines, as a transition function
   over abstract request descriptions.

   Part C.  The ctx pool and the handler's view: parsing writes the request into the ctx the
   previous iteration left behind.

   No proofs here (Proof/CtxResetProof.v). *)
From Coq Require Import String.
From FH Require Import Model.Base Gen.GenC11.
Open Scope string_scope.
Open Scope Z_scope.

(* ==================================================================================== *)
(* Part A: fields and resets                                                            *)
(* ==================================================================================== *)

Definition state := string -> Z.
Definition zero : state := fun _ => 0.
Definition upd (f : string) (v : Z) (m : state) : state := fun g => if String.eqb g f then v else m g.
Definition clr (f : string) (m : state) : state := upd f 0 m.
Fixpoint clr_all (fs : list string) (m : state) : state :=
  match fs with [] => m | f :: r => clr_all r (clr f m) end.

(* field names are paths from RequestCtx, as reflection prints them *)
Definition response_fields : list string := [
  "Response.bodyStream"; "Response.raddr"; "Response.laddr"; "Response.w.r"; "Response.body"; "Response.bodyRaw";
  "Response.Header.header.h"; "Response.Header.header.cookies"; "Response.Header.header.bufK"; "Response.Header.header.bufV";
  "Response.Header.header.contentLengthBytes"; "Response.Header.header.contentType"; "Response.Header.header.protocol";
  "Response.Header.header.mulHeader"; "Response.Header.header.trailer"; "Response.Header.header.contentLength";
  "Response.Header.header.disableNormalizing"; "Response.Header.header.secureErrorLogMessage"; "Response.Header.header.noHTTP11";
  "Response.Header.header.connectionClose"; "Response.Header.header.noDefaultContentType";
  "Response.Header.statusMessage"; "Response.Header.contentEncoding"; "Response.Header.server"; "Response.Header.statusCode";
  "Response.Header.noDefaultDate";
  "Response.ImmediateHeaderFlush"; "Response.StreamBody"; "Response.SkipBody"; "Response.keepBodyBuffer"; "Response.secureErrorLogMessage" ].

Definition request_fields : list string := [
  "Request.bodyStream"; "Request.w.r"; "Request.body"; "Request.multipartForm"; "Request.multipartFormBoundary";
  "Request.postArgs.args"; "Request.postArgs.buf"; "Request.userValues"; "Request.bodyRaw";
  "Request.uri.queryArgs.args"; "Request.uri.queryArgs.buf"; "Request.uri.pathOriginal"; "Request.uri.scheme"; "Request.uri.path";
  "Request.uri.queryString"; "Request.uri.hash"; "Request.uri.host"; "Request.uri.fullURI"; "Request.uri.requestURI";
  "Request.uri.username"; "Request.uri.password"; "Request.uri.parsedQueryArgs"; "Request.uri.DisablePathNormalizing";
  "Request.Header.header.h"; "Request.Header.header.cookies"; "Request.Header.header.bufK"; "Request.Header.header.bufV";
  "Request.Header.header.contentLengthBytes"; "Request.Header.header.contentType"; "Request.Header.header.protocol";
  "Request.Header.header.mulHeader"; "Request.Header.header.trailer"; "Request.Header.header.contentLength";
  "Request.Header.header.disableNormalizing"; "Request.Header.header.secureErrorLogMessage"; "Request.Header.header.noHTTP11";
  "Request.Header.header.connectionClose"; "Request.Header.header.noDefaultContentType";
  "Request.Header.method"; "Request.Header.requestURI"; "Request.Header.host"; "Request.Header.userAgent"; "Request.Header.rawHeaders";
  "Request.Header.disableSpecialHeader"; "Request.Header.cookiesCollected";
  "Request.timeout"; "Request.secureErrorLogMessage"; "Request.parsedURI"; "Request.parsedPostArgs"; "Request.uriParseErr";
  "Request.keepBodyBuffer"; "Request.bodyStreamUnread"; "Request.isTLS"; "Request.UseHostHeader"; "Request.DisableRedirectPathNormalizing" ].

Definition ctx_own_fields : list string := [
  "connTime"; "time"; "logger.ctx"; "logger.logger"; "remoteAddr"; "c"; "s"; "timeoutResponse"; "timeoutCh"; "timeoutTimer";
  "hijackHandler"; "formValueFunc"; "fbr.c"; "fbr.ch"; "fbr.byteRead"; "connID"; "connRequestNum"; "hijackNoResponse" ].

Definition all_fields : list string := (response_fields ++ ctx_own_fields ++ request_fields)%list.

(* ---- args.go / userdata.go / uri.go ---- *)
Definition Args_Reset (p : string) (m : state) : state := clr (p ++ ".args") m.          (* a.args = a.args[:0] *)
Definition userData_Reset (p : string) (m : state) : state := clr p m.                   (* values closed, then truncated to length 0 *)

Definition URI_Reset (p : string) (m : state) : state :=
  let m := clr (p ++ ".pathOriginal") m in
  let m := clr (p ++ ".scheme") m in
  let m := clr (p ++ ".path") m in
  let m := clr (p ++ ".queryString") m in
  let m := clr (p ++ ".hash") m in
  let m := clr (p ++ ".username") m in
  let m := clr (p ++ ".password") m in
  let m := clr (p ++ ".host") m in
  let m := Args_Reset (p ++ ".queryArgs") m in
  let m := clr (p ++ ".parsedQueryArgs") m in
  clr (p ++ ".DisablePathNormalizing") m.
  (* fullURI and requestURI are recomputed on every call *)

(* ---- header.go ---- *)
Definition RequestHeader_resetSkipNormalize (p : string) (m : state) : state :=
  let m := clr (p ++ ".header.noHTTP11") m in
  let m := clr (p ++ ".header.connectionClose") m in
  let m := clr (p ++ ".header.contentLength") m in
  let m := clr (p ++ ".header.contentLengthBytes") m in
  let m := clr (p ++ ".method") m in
  let m := clr (p ++ ".header.protocol") m in
  let m := clr (p ++ ".requestURI") m in
  let m := clr (p ++ ".host") m in
  let m := clr (p ++ ".header.contentType") m in
  let m := clr (p ++ ".userAgent") m in
  let m := clr (p ++ ".header.trailer") m in
  let m := clr (p ++ ".header.mulHeader") m in
  let m := clr (p ++ ".header.h") m in
  let m := clr (p ++ ".header.cookies") m in
  let m := clr (p ++ ".cookiesCollected") m in
  clr (p ++ ".rawHeaders") m.

Definition RequestHeader_Reset (p : string) (m : state) : state :=
  let m := clr (p ++ ".disableSpecialHeader") m in
  let m := clr (p ++ ".header.disableNormalizing") m in
  let m := clr (p ++ ".header.noDefaultContentType") m in      (* SetNoDefaultContentType(false) *)
  RequestHeader_resetSkipNormalize p m.

Definition ResponseHeader_resetSkipNormalize (p : string) (m : state) : state :=
  let m := clr (p ++ ".header.noHTTP11") m in
  let m := clr (p ++ ".header.connectionClose") m in
  let m := clr (p ++ ".statusCode") m in
  let m := clr (p ++ ".statusMessage") m in
  let m := clr (p ++ ".header.protocol") m in
  let m := clr (p ++ ".header.contentLength") m in
  let m := clr (p ++ ".header.contentLengthBytes") m in
  let m := clr (p ++ ".header.contentType") m in
  let m := clr (p ++ ".contentEncoding") m in
  let m := clr (p ++ ".server") m in
  let m := clr (p ++ ".header.h") m in
  let m := clr (p ++ ".header.cookies") m in
  let m := clr (p ++ ".header.trailer") m in
  clr (p ++ ".header.mulHeader") m.

Definition ResponseHeader_Reset (p : string) (m : state) : state :=
  let m := clr (p ++ ".header.disableNormalizing") m in
  let m := clr (p ++ ".header.noDefaultContentType") m in
  let m := clr (p ++ ".noDefaultDate") m in
  ResponseHeader_resetSkipNormalize p m.

(* ---- http.go ---- *)
(* Request.ResetBody: bodyRaw = nil; RemoveMultipartFormFiles; closeBodyStream; body reset or returned to the pool *)
Definition Request_ResetBody (p : string) (m : state) : state :=
  let m := clr (p ++ ".bodyRaw") m in
  let m := clr (p ++ ".multipartForm") m in
  let m := clr (p ++ ".multipartFormBoundary") m in
  let m := clr (p ++ ".bodyStream") m in
  clr (p ++ ".body") m.

Definition Request_resetSkipHeader (p : string) (m : state) : state :=
  let m := Request_ResetBody p m in
  let m := URI_Reset (p ++ ".uri") m in
  let m := clr (p ++ ".parsedURI") m in
  let m := clr (p ++ ".uriParseErr") m in
  let m := Args_Reset (p ++ ".postArgs") m in
  let m := clr (p ++ ".parsedPostArgs") m in
  clr (p ++ ".isTLS") m.

Definition Request_Reset (p : string) (m : state) : state :=
  let m := userData_Reset (p ++ ".userValues") m in
  (* ReleaseBody only with a pool size limit >= 0 (default -1): no effect on what is observable *)
  let m := RequestHeader_Reset (p ++ ".Header") m in
  let m := Request_resetSkipHeader p m in
  let m := clr (p ++ ".timeout") m in
  let m := clr (p ++ ".UseHostHeader") m in
  clr (p ++ ".DisableRedirectPathNormalizing") m.

Definition Response_ResetBody (p : string) (m : state) : state :=
  let m := clr (p ++ ".bodyRaw") m in
  let m := clr (p ++ ".bodyStream") m in
  clr (p ++ ".body") m.

Definition Response_Reset (p : string) (m : state) : state :=
  let m := Response_ResetBody p m in                  (* resetSkipHeader *)
  let m := ResponseHeader_Reset (p ++ ".Header") m in
  let m := clr (p ++ ".SkipBody") m in
  let m := clr (p ++ ".raddr") m in
  let m := clr (p ++ ".laddr") m in
  let m := clr (p ++ ".ImmediateHeaderFlush") m in
  clr (p ++ ".StreamBody") m.

(* ---- server.go ---- *)
Definition firstByteReader_reset (p : string) (m : state) : state :=
  clr (p ++ ".byteRead") (clr (p ++ ".ch") (clr (p ++ ".c") m)).

(* RequestCtx.reset (called by releaseCtx) *)
Definition RequestCtx_reset (m : state) : state :=
  let m := Request_Reset "Request" m in
  let m := Response_Reset "Response" m in
  let m := firstByteReader_reset "fbr" m in
  let m := clr "connID" m in
  let m := clr "connRequestNum" m in
  let m := clr "connTime" m in
  let m := clr "remoteAddr" m in
  let m := clr "time" m in
  let m := clr "c" m in
  (* ctx.s is kept; timeoutResponse is reset in place, timeoutTimer stopped: both stay allocated *)
  let m := clr "hijackHandler" m in
  clr "hijackNoResponse" m.

(* what the serve loop does to the ctx between the handler of one request and the parse of the next:
   hijackHandler/hijackNoResponse are taken over, the request stream is released, then
   ctx.Request.Reset(); ctx.Response.Reset() *)
Definition loop_end_reset (m : state) : state :=
  let m := clr "hijackHandler" m in
  let m := clr "hijackNoResponse" m in
  let m := clr "Request.bodyStream" m in
  let m := Request_Reset "Request" m in
  Response_Reset "Response" m.

(* ---- streaming.go: the pooled requestStream object ---- *)
(* requestStreamPool is shared by all requests of all connections; what one user leaves in an object
   is what the next user's stream starts with *)
Definition rs_fields : list string := [
  "requestStream.header"; "requestStream.prefetchedBytes"; "requestStream.reader"; "requestStream.totalBytesRead";
  "requestStream.chunkLeft"; "requestStream.eof"; "requestStream.err"; "requestStream.contentLength" ].

Definition releaseRequestStream_m (m : state) : state :=
  let m := clr "requestStream.prefetchedBytes" m in
  let m := clr "requestStream.totalBytesRead" m in
  let m := clr "requestStream.chunkLeft" m in
  let m := clr "requestStream.eof" m in
  let m := clr "requestStream.err" m in
  let m := clr "requestStream.contentLength" m in
  let m := clr "requestStream.reader" m in
  clr "requestStream.header" m.

(* acquireRequestStream assigns four fields (values of the new request) and trusts the others *)
Definition rs_assigned : list string := [
  "requestStream.prefetchedBytes"; "requestStream.reader"; "requestStream.header"; "requestStream.contentLength" ].
Definition acquireRequestStream_m (v : string -> Z) (m : state) : state :=
  let m := upd "requestStream.prefetchedBytes" (v "requestStream.prefetchedBytes") m in
  let m := upd "requestStream.reader" (v "requestStream.reader") m in
  let m := upd "requestStream.header" (v "requestStream.header") m in
  upd "requestStream.contentLength" (v "requestStream.contentLength") m.

(* which reset the harness exercised on a dirtied real object *)
Inductive rkind := KCtxReset | KRequestReset | KResponseReset | KRequestResetSkipHeader
                 | KRequestHeaderReset | KResponseHeaderReset | KURIReset | KArgsReset | KRsRelease.

(* prefix of the object's fields in `all_fields` naming and the model of the function *)
Definition rk_prefix (k : rkind) : string :=
  match k with
  | KCtxReset => ""
  | KRequestReset | KRequestResetSkipHeader => "Request"
  | KResponseReset => "Response"
  | KRequestHeaderReset => "Request.Header"
  | KResponseHeaderReset => "Response.Header"
  | KURIReset => "Request.uri"
  | KArgsReset => "Request.postArgs"
  | KRsRelease => "requestStream"
  end.

Definition rk_apply (k : rkind) (m : state) : state :=
  match k with
  | KCtxReset => RequestCtx_reset m
  | KRequestReset => Request_Reset "Request" m
  | KResponseReset => Response_Reset "Response" m
  | KRequestResetSkipHeader => Request_resetSkipHeader "Request" m
  | KRequestHeaderReset => RequestHeader_Reset "Request.Header" m
  | KResponseHeaderReset => ResponseHeader_Reset "Response.Header" m
  | KURIReset => URI_Reset "Request.uri" m
  | KArgsReset => Args_Reset "Request.postArgs" m
  | KRsRelease => releaseRequestStream_m m
  end.

Definition dirty : state := fun _ => 1.

(* fields of the object of kind k *)
Definition has_prefix (p f : string) : bool :=
  match p with
  | "" => true
  | _ => String.prefix (p ++ ".") f
  end.
Definition rk_fields (k : rkind) : list string :=
  match k with KRsRelease => rs_fields | _ => filter (has_prefix (rk_prefix k)) all_fields end.

(* model: is f zero after the reset of kind k applied to an all-dirty object *)
Definition zero_after (k : rkind) (f : string) : bool := rk_apply k dirty f =? 0.

(* ==================================================================================== *)
(* Part B: per-connection locals of serveConnCounted                                    *)
(* ==================================================================================== *)

Record scfg := mkScfg {
  sc_readTimeout : Z;          (* s.ReadTimeout (seconds; 0 = none) *)
  sc_idleTimeout : Z;          (* s.IdleTimeout *)
  sc_writeTimeout : Z;         (* s.WriteTimeout *)
  sc_maxBody : Z;              (* s.MaxRequestBodySize (<= 0: default) *)
  sc_hasHeaderReceived : bool;
  sc_hasExpectH : bool;
  sc_hasContinueH : bool;
  sc_noKeepalive : bool;
  sc_maxReqPerConn : Z;
  sc_stream : bool }.          (* StreamRequestBody: the body size limit is left to the handler *)

Definition defaultMaxBody : Z := DefaultMaxRequestBodySize.

Inductive hact := HNone | HConnClose | HTimeout | HHijack.

(* one request as the loop sees it *)
Record lreq := mkLreq {
  q_head_ok : bool;            (* the head parses *)
  q_rt : Z; q_wt : Z; q_max : Z;   (* RequestConfig returned by HeaderReceived for this request *)
  q_body : Z;                  (* Content-Length *)
  q_stream : bool;             (* with StreamRequestBody the body is handed to the handler as a requestStream (Content-Length or chunked, not a pre-parsed multipart form) *)
  q_close : bool;              (* Connection: close *)
  q_expect : bool;
  q_expect_status : Z;
  q_continue_ok : bool;
  q_act : hact }.

(* deadline calls on the connection: duration in seconds, 0 = cleared *)
Inductive dcall := DRead (d : Z) | DWrite (d : Z).

Record lstate := mkLstate {
  l_num : Z;                   (* connRequestNum *)
  l_max : Z;                   (* maxRequestBodySize *)
  l_wt : Z;                    (* writeTimeout *)
  l_prevwt : Z;                (* previousWriteTimeout *)
  l_close : bool;              (* connectionClose *)
  l_continue : bool;           (* continueReadingRequest *)
  l_rdl : Z;                   (* read deadline armed on the connection (seconds, 0 = none) *)
  l_wdl : Z;
  l_reqrdl : bool }.           (* requestReadDeadline: HeaderReceived armed a read deadline for the previous request only *)

Definition idleTimeout (c : scfg) : Z := if sc_idleTimeout c =? 0 then sc_readTimeout c else sc_idleTimeout c.

Definition linit (c : scfg) : lstate :=
  mkLstate 0 (if sc_maxBody c <=? 0 then defaultMaxBody else sc_maxBody c) (sc_writeTimeout c) 0 false false 0 0 false.

(* what the loop decided for one request *)
Record decision := mkDec {
  d_dispatched : bool;         (* s.Handler called *)
  d_status : Z;                (* status of the response the server wrote (0 = none) *)
  d_closed : bool;             (* the loop ends after this request *)
  d_max : Z;                   (* maxRequestBodySize the body was read under *)
  d_wt : Z;                    (* write deadline the response was written under (0 = none) *)
  d_rdl_head : Z;              (* read deadline armed while the head was read *)
  d_rdl_body : Z;              (* read deadline armed while the body was read *)
  d_calls : list dcall;        (* SetReadDeadline / SetWriteDeadline calls of the iteration, in order *)
  d_hijack : bool }.           (* the connection is handed to the hijack handler (after c.SetDeadline(zero)) *)

Definition set_read (d : Z) (x : lstate * list dcall) : lstate * list dcall :=
  let '(st, cs) := x in
  (mkLstate (l_num st) (l_max st) (l_wt st) (l_prevwt st) (l_close st) (l_continue st) d (l_wdl st) (l_reqrdl st), (cs ++ [DRead d])%list).
Definition set_write (d : Z) (x : lstate * list dcall) : lstate * list dcall :=
  let '(st, cs) := x in
  (mkLstate (l_num st) (l_max st) (l_wt st) (l_prevwt st) (l_close st) (l_continue st) (l_rdl st) d (l_reqrdl st), (cs ++ [DWrite d])%list).

Definition with_rdl (st : lstate) (d : Z) : lstate :=
  mkLstate (l_num st) (l_max st) (l_wt st) (l_prevwt st) (l_close st) (l_continue st) d (l_wdl st) (l_reqrdl st).

(* top of the loop: the read deadline for the first byte, then, once it arrived, for the rest of the head *)
Definition clear_reqrdl (x : lstate * list dcall) : lstate * list dcall :=
  let '(st, cs) := x in
  (mkLstate (l_num st) (l_max st) (l_wt st) (l_prevwt st) (l_close st) (l_continue st) (l_rdl st) (l_wdl st) false, cs).

Definition arm_first_byte (c : scfg) (x : lstate * list dcall) : lstate * list dcall :=
  let num := l_num (fst x) in
  let x := if num =? 1 then (if sc_readTimeout c >? 0 then set_read (sc_readTimeout c) x else x)
           else (if idleTimeout c >? 0 then set_read (idleTimeout c) x
                 else if l_reqrdl (fst x) then set_read 0 x      (* the previous request's own deadline must not apply to this one *)
                 else x) in
  let x := clear_reqrdl x in                                     (* requestReadDeadline = false *)
  if sc_readTimeout c >? 0 then set_read (sc_readTimeout c) x
  else if (sc_idleTimeout c >? 0) && (num >? 1) then set_read 0 x else x.

(* s.HeaderReceived: per-request read deadline, body size limit and write timeout *)
Definition header_received (c : scfg) (q : lreq) (x : lstate * list dcall) : lstate * list dcall :=
  if sc_hasHeaderReceived c then
    let x := if q_rt q >? 0 then set_read (q_rt q) x else x in
    let '(s1, cs) := x in
    let max := if q_max q >? 0 then q_max q else if sc_maxBody c >? 0 then sc_maxBody c else defaultMaxBody in
    let wt := if q_wt q >? 0 then q_wt q else sc_writeTimeout c in
    (mkLstate (l_num s1) max wt (l_prevwt s1) (l_close s1) (l_continue s1) (l_rdl s1) (l_wdl s1) (l_reqrdl s1 || (q_rt q >? 0)), cs)
  else x.

Definition lverdict (c : scfg) (q : lreq) : option Z :=
  if q_expect q then
    if sc_hasExpectH c then (if q_expect_status q =? 100 then None else Some (q_expect_status q))
    else if sc_hasContinueH c then (if q_continue_ok q then None else Some 417)
    else None
  else None.

(* the write deadline before the response is written *)
Definition arm_write (y : lstate * list dcall) : lstate * list dcall :=
  let s4 := fst y in
  if l_wt s4 >? 0 then
    let '(s, cs) := set_write (l_wt s4) y in
    (mkLstate (l_num s) (l_max s) (l_wt s) (l_wt s4) (l_close s) (l_continue s) (l_rdl s) (l_wdl s) (l_reqrdl s), cs)
  else if l_prevwt s4 >? 0 then
    let '(s, cs) := set_write 0 y in
    (mkLstate (l_num s) (l_max s) (l_wt s) 0 (l_close s) (l_continue s) (l_rdl s) (l_wdl s) (l_reqrdl s), cs)
  else y.

Definition with_close (st : lstate) (cl cont : bool) : lstate :=
  mkLstate (l_num st) (l_max st) (l_wt st) (l_prevwt st) cl cont (l_rdl st) (l_wdl st) (l_reqrdl st).

(* one loop iteration: returns the decision and the state for the next iteration *)
Definition lstep (c : scfg) (st0 : lstate) (q : lreq) : decision * lstate :=
  (* connRequestNum++; continueReadingRequest = true *)
  let st := mkLstate (l_num st0 + 1) (l_max st0) (l_wt st0) (l_prevwt st0) (l_close st0) true (l_rdl st0) (l_wdl st0) (l_reqrdl st0) in
  let x := arm_first_byte c (st, []) in
  let rdl_head := l_rdl (fst x) in
  if negb (q_head_ok q) then
    (mkDec false 400 true (l_max (fst x)) 0 rdl_head rdl_head (snd x) false, fst x)
  else
  let '(s2, cs2) := header_received c q x in
  let rdl_body := l_rdl s2 in
  let too_large := negb (sc_stream c) && (q_body q >? l_max s2) in
  (* body (non-Expect) *)
  if negb (q_expect q) && too_large then
    (mkDec false 400 true (l_max s2) 0 rdl_head rdl_body cs2 false, s2)
  else
  (* Expect: 100-continue *)
  let verdict := lverdict c q in
  let s3 := match verdict with
            | Some _ => with_close s2 true false          (* continueReadingRequest = false; connectionClose = true *)
            | None => s2 end in
  if (match verdict with None => q_expect q && too_large | Some _ => false end) then
    (mkDec false 400 true (l_max s3) 0 rdl_head rdl_body cs2 false, s3)
  else
  let close1 := l_close s3 || sc_noKeepalive c || q_close q in
  let dispatched := l_continue s3 in
  let status := match verdict with
                | Some s => s
                | None => match q_act q with HTimeout => 408 | _ => 200 end end in
  let s4 := with_close s3 close1 (l_continue s3) in
  let '(s5, cs5) := arm_write (s4, cs2) in
  let close2 := l_close s5
                || ((sc_maxReqPerConn c >? 0) && (l_num s5 >=? sc_maxReqPerConn c))
                || (dispatched && match q_act q with HConnClose => true | _ => false end)
                (* the timed-out handler still owns the request stream: the connection is not reused *)
                || (dispatched && sc_stream c && q_stream q && match q_act q with HTimeout => true | _ => false end) in
  let hij := dispatched && match q_act q with HHijack => true | _ => false end in
  let s6 := with_close s5 close2 (l_continue s5) in
  (mkDec dispatched status (close2 || hij) (l_max s5) (l_wdl s5) rdl_head rdl_body cs5 (hij && negb close2), s6).

(* a connection: requests are served until the loop ends; when the input ends first the loop makes
   one more turn that only arms the deadline for the first byte (returned as the second component) *)
Definition ltail (c : scfg) (st : lstate) : list dcall :=
  if l_num st + 1 =? 1 then (if sc_readTimeout c >? 0 then [DRead (sc_readTimeout c)] else [])
  else (if idleTimeout c >? 0 then [DRead (idleTimeout c)] else if l_reqrdl st then [DRead 0] else []).

Fixpoint lrun (c : scfg) (st : lstate) (qs : list lreq) : list decision * list dcall :=
  match qs with
  | [] => ([], ltail c st)
  | q :: rest =>
      let '(d, st') := lstep c st q in
      if d_closed d then ([d], [])
      else let '(ds, t) := lrun c st' rest in (d :: ds, t)
  end.

(* ==================================================================================== *)
(* Part C: the ctx pool and what the handler sees                                       *)
(* ==================================================================================== *)

(* Parsing request number i into a ctx.  Slice-valued fields are APPENDED to (h = append(h, ...)),
   scalar fields are assigned; `rv i f` is the value request i contributes to field f (0: none). *)
Definition appended_fields : list string := [
  "Request.Header.header.h"; "Request.Header.header.cookies"; "Request.Header.header.trailer"; "Request.Header.header.mulHeader";
  "Request.Header.rawHeaders"; "Request.postArgs.args"; "Request.uri.queryArgs.args" ].
Definition assigned_fields : list string := [
  "Request.Header.method"; "Request.Header.requestURI"; "Request.Header.host"; "Request.Header.userAgent";
  "Request.Header.header.contentType"; "Request.Header.header.protocol"; "Request.Header.header.contentLength";
  "Request.Header.header.contentLengthBytes"; "Request.Header.header.noHTTP11"; "Request.Header.header.connectionClose";
  "Request.uri.pathOriginal"; "Request.uri.scheme"; "Request.uri.path"; "Request.uri.queryString"; "Request.uri.hash";
  "Request.uri.host"; "Request.uri.username"; "Request.uri.password"; "Request.parsedURI";
  "Request.body"; "Request.bodyStream"; "Request.multipartForm"; "Request.multipartFormBoundary" ].

Fixpoint app_all (rv : string -> Z) (fs : list string) (m : state) : state :=
  match fs with [] => m | f :: r => app_all rv r (upd f (m f + rv f) m) end.
Fixpoint set_all (rv : string -> Z) (fs : list string) (m : state) : state :=
  match fs with [] => m | f :: r => set_all rv r (if rv f =? 0 then m else upd f (rv f) m) end.

(* what the loop itself writes before the handler runs (from the server configuration and the connection) *)
Definition loop_fields : list string := [
  "Request.isTLS"; "Response.Header.header.noDefaultContentType"; "Response.Header.noDefaultDate";
  "Request.Header.header.secureErrorLogMessage"; "Response.Header.header.secureErrorLogMessage";
  "Request.secureErrorLogMessage"; "Response.secureErrorLogMessage";
  "Request.Header.header.disableNormalizing"; "Response.Header.header.disableNormalizing";
  "Response.Header.server"; "connID"; "connRequestNum"; "time" ].

Definition parse_into (cfgv : string -> Z) (rv : string -> Z) (m : state) : state :=
  let m := set_all cfgv loop_fields m in
  let m := set_all rv assigned_fields m in
  app_all rv appended_fields m.

(* fields the handler can observe through the public API (the spec's list is in Spec/CtxResetSpec.v) *)

(* the handler overwrites the ctx arbitrarily *)
Definition scribble := state -> state.

(* a server: the ctx pool; all ctx of a pool share the configuration fields *)
Definition pool := list state.

(* releaseCtx: reset, then put *)
Definition release (p : pool) (m : state) : pool := RequestCtx_reset m :: p.
(* acquireCtx: some pooled ctx (index chosen by the environment), or a new one *)
Definition acquire (p : pool) (k : nat) (fresh : state) : state * pool :=
  match nth_error p k with
  | Some m => (m, (firstn k p ++ skipn (S k) p)%list)
  | None => (fresh, p)
  end.

(* one connection: requests parsed one after the other into the same ctx, with the loop-end reset in
   between; a timeout replaces the ctx by an acquired one.  Returns what each handler saw. *)
Inductive hstep := HS (rv : string -> Z) (sc : scribble) (timeout : option nat).

Fixpoint conn_run (cfgv : string -> Z) (fresh : state) (p : pool) (m : state) (hs : list hstep) : list state * state * pool :=
  match hs with
  | [] => ([], m, p)
  | HS rv sc tmo :: rest =>
      let seen := parse_into cfgv rv m in
      let after := sc seen in
      (* a timed-out ctx is never released: a replacement is acquired *)
      let '(m1, p1) := match tmo with
                       | Some k => acquire p k fresh
                       | None => (after, p)
                       end in
      let m2 := loop_end_reset m1 in
      let '(seens, mf, pf) := conn_run cfgv fresh p1 m2 rest in
      (seen :: seens, mf, pf)
  end.

(* several connections one after the other on the same server: acquire, serve, release *)
Fixpoint server_run (cfgv : string -> Z) (fresh : state) (p : pool) (conns : list (nat * list hstep)) : list (list state) :=
  match conns with
  | [] => []
  | (k, hs) :: rest =>
      let '(m, p1) := acquire p k fresh in
      let '(seens, mf, p2) := conn_run cfgv fresh p1 m hs in
      seens :: server_run cfgv fresh (release p2 mf) rest
  end.
