(* Model of the date and IPv4 codecs of bytesconv.go.  time.Date / Time.Year/Month/Day / Unix are the
   standard library: they are represented by Spec.Calendar (days_from_civil normalises overflowing days
   exactly like time.Date).  Case-label constants come from Gen/GenC31.v. *)
From FH Require Import Model.Base Gen.GenC31 Gen.GenC30 Model.Ints Spec.Calendar.
Open Scope Z_scope.

Definition or20 (c : N) : Z := Z.of_N (N.lor c 32).
(* uint32(a)<<16 | uint32(b)<<8 | uint32(c) on bytes: the three fields do not overlap *)
Definition key3 (a b c : N) : Z := 65536 * or20 a + 256 * or20 b + or20 c.
Definition isWeekday3 (a b c : N) : bool := existsb (Z.eqb (key3 a b c)) weekdayKeys.
Fixpoint index_of (k : Z) (l : list Z) (i : Z) : option Z :=
  match l with [] => None | x :: r => if k =? x then Some i else index_of k r (i + 1) end.
Definition parseMonth3 (a b c : N) : option Z := index_of (key3 a b c) monthKeys 1.
Definition isdig (c : N) : bool := negb ((c <? 48)%N || (57 <? c)%N).
Definition parse2Digits (a b : N) : option Z :=
  if isdig a && isdig b then Some ((Z.of_N a - 48) * 10 + (Z.of_N b - 48)) else None.
Definition parse4Digits (a b c d : N) : option Z :=
  match parse2Digits a b with
  | None => None
  | Some v1 => match parse2Digits c d with None => None | Some v2 => Some (v1 * 100 + v2) end
  end.

Definition at_ (b : bytes) (i : nat) : N := nth i b 0%N.

(* returns the Unix time in seconds *)
Definition parseRFC1123DateGMT (b : bytes) : option Z :=
  if negb (length b =? 29)%nat then None else
  if negb (isWeekday3 (at_ b 0) (at_ b 1) (at_ b 2)) then None else
  if negb ((at_ b 3 =? 44) && (at_ b 4 =? 32) && (at_ b 7 =? 32) && (at_ b 11 =? 32) &&
           (at_ b 16 =? 32) && (at_ b 19 =? 58) && (at_ b 22 =? 58) && (at_ b 25 =? 32))%N then None else
  if negb ((at_ b 26 =? 71) && (at_ b 27 =? 77) && (at_ b 28 =? 84))%N then None else
  match parse2Digits (at_ b 5) (at_ b 6) with None => None | Some day =>
  if (day <? 1) || (day >? 31) then None else
  match parseMonth3 (at_ b 8) (at_ b 9) (at_ b 10) with None => None | Some month =>
  match parse4Digits (at_ b 12) (at_ b 13) (at_ b 14) (at_ b 15) with None => None | Some year =>
  match parse2Digits (at_ b 17) (at_ b 18) with None => None | Some hour =>
  if hour >? 23 then None else
  match parse2Digits (at_ b 20) (at_ b 21) with None => None | Some minute =>
  if minute >? 59 then None else
  match parse2Digits (at_ b 23) (at_ b 24) with None => None | Some second =>
  if second >? 59 then None else
  (* t := time.Date(...); reject if normalisation changed year, month or day *)
  let n := days_from_civil year month day in
  match civil_from_days n with
  | (y', m', d') =>
      if negb ((y' =? year) && (m' =? month) && (d' =? day)) then None
      else Some ((n - epoch_days) * 86400 + hour * 3600 + minute * 60 + second)
  end end end end end end end.

(* ---- IPv4 ---- *)
Inductive octres := OctOk (v : Z) | OctErr.
Fixpoint octet_loop (b : bytes) (octet : Z) : octres :=
  match b with
  | [] => OctOk octet
  | c :: r =>
      let k := bsub48 c in
      if k >? 9 then OctErr
      else if (octet >? 25) || ((octet =? 25) && (k >? 5)) then OctErr
      else octet_loop r (octet * 10 + k)
  end.
Definition parseIPv4Octet (b : bytes) : octres := match b with [] => OctErr | _ => octet_loop b 0 end.

(* bytes.IndexByte *)
Fixpoint index_byte (b : bytes) (c : N) : option nat :=
  match b with [] => None | x :: r => if (x =? c)%N then Some O else option_map S (index_byte r c) end.

Fixpoint ipv4_fields (k : nat) (b : bytes) : option (list Z) :=
  match k with
  | O => match parseIPv4Octet b with OctOk v => Some [v] | OctErr => None end
  | S k' =>
      match index_byte b 46 with
      | None => None
      | Some n =>
          match parseIPv4Octet (firstn n b) with
          | OctErr => None
          | OctOk v => match ipv4_fields k' (skipn (S n) b) with Some l => Some (v :: l) | None => None end
          end
      end
  end.
Definition ParseIPv4 (s : bytes) : option (list Z) := match s with [] => None | _ => ipv4_fields 3 s end.

Definition AppendIPv4 (ip : list Z) : bytes :=
  match ip with
  | [a; b; c; d] => dec_digits a ++ [46%N] ++ dec_digits b ++ [46%N] ++ dec_digits c ++ [46%N] ++ dec_digits d
  | _ => s2b "non-v4 ip passed to AppendIPv4"
  end.
