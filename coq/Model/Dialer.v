(* Model of tcpdialer.go (property C41): TCPDialer.dial / tryDial for ONE host entry with `nad` resolved
   addresses, any number of concurrent Dial calls (threads), as a labelled transition system.

     dial     = Start t timeout          deadline := time.Now().Add(timeout)
              ; (ResolveFail t | ResolveDeadline t |                      the Resolver fails / hangs until the deadline
                 Draw t)                  getTCPAddrs: idx := atomic.AddUint32(&e.addrsIdx, 1)   (uint32: wraps)
              ; for i := range n { tryDial(addrs[(idx%n+i)%n]) }          (uint32 arithmetic)
     tryDial  = Check t                  time.Until(deadline) <= 0  -> ErrDialTimeout(addr)
              ; (AcqFast t | AcqFull t ; (AcqSlow t | SemTimeout t))      the concurrencyCh semaphore racing a timer
              ; (ConnOk t | ConnRefused t | ConnDeadline t)               net.Dialer.DialContext under a context that expires
                                                                          at the dial's deadline: outcome oracle
     Tick d   = logical time advances

   The semaphore is released (`defer func() { <-concurrencyCh }()`) in the step that ends the connect.
   `cap` = TCPDialer.Concurrency (0 = no semaphore), fixed at the first dial.  `inprog` lists the threads that
   are inside DialContext (it is determined by the pcs; kept as a list so that "number of dials in
   progress" is a computable quantity).  Resolution (Resolver, DNS cache refresh) happens before Draw and is
   not part of the transition system: the harness supplies the address list through a fake Resolver.
   No proofs in this file. *)
From FH Require Import Model.Base Gen.GenC41.
Open Scope N_scope.

Definition W32 : N := 4294967296.

Record dcfg := mkCfg { cap : N; nad : N }.

Inductive xres :=
| XOk (a : N)          (* connected to address number a *)
| XTimeout (a : N)     (* ErrDialTimeout wrapped with upstream a *)
| XErr (a : N)         (* the last address failed with another error (wrapped with upstream a) *)
| XResolveErr.         (* getTCPAddrs failed: the Resolver's error (or its context error at the deadline), not wrapped *)

Inductive tpc :=
| TNew
| TDraw (dl : N)
| TLoop (dl i0 k : N) (tried : list N)      (* about to call tryDial for the k-th time; i0 = index drawn *)
| TSem (dl i0 k : N) (tried : list N)       (* before `select { case concurrencyCh <- struct{}{}: default: }` *)
| TSemWait (dl i0 k : N) (tried : list N)   (* in `select { case concurrencyCh <- struct{}{}: case <-tc.C: }` *)
| TConn (dl cdl i0 k : N) (tried : list N)  (* holds the semaphore, inside DialContext whose context expires at cdl *)
| TDone (r : xres) (dl i0 : N) (tried : list N) (at_ : N).   (* returned r at logical time at_ *)

Record dstate := mkDS {
  sem : N;              (* len(concurrencyCh) *)
  aidx : N;             (* e.addrsIdx *)
  clock : N;
  tp : N -> tpc;
  inprog : list N
}.

Definition dsinit : dstate := mkDS 0 0 0 (fun _ => TNew) [].

Inductive dlabel :=
| LStart (t to : N) | LDraw (t : N) | LResolveFail (t : N) | LResolveDeadline (t : N) | LCheck (t : N)
| LAcqFast (t : N) | LAcqFull (t : N) | LAcqSlow (t : N) | LSemTimeout (t : N)
| LConnOk (t : N) | LConnRefused (t : N) | LConnDeadline (t : N)
| LTick (d : N).

Definition upd {A} (f : N -> A) (k : N) (v : A) : N -> A := fun x => if x =? k then v else f x.

(* addrs[(idx%n + i) % n] in the k-th iteration; the sum is a uint32 *)
Definition addr_of (c : dcfg) (i0 k : N) : N := ((i0 mod nad c + k) mod W32) mod (nad c).

(* ctx, cancelCtx := context.WithDeadline(context.Background(), deadline): the connect of an attempt is cut at the
   dial's deadline dl — NOT at now + time.Until(deadline) as computed at the top of tryDial, before the attempt may have
   waited for the semaphore (`now` is the time the connect starts; it is deliberately unused). *)
Definition conn_ctx_deadline (dl now : N) : N := dl.

Definition set_tp (s : dstate) (t : N) (p : tpc) : dstate := mkDS (sem s) (aidx s) (clock s) (upd (tp s) t p) (inprog s).
Definition has_slot (c : dcfg) (s : dstate) : bool := (cap c =? 0) || (sem s <? cap c).
Definition acquire (c : dcfg) (s : dstate) (t : N) (p : tpc) : dstate :=
  mkDS (if cap c =? 0 then sem s else sem s + 1) (aidx s) (clock s) (upd (tp s) t p) (t :: inprog s).
Fixpoint remove_t (t : N) (l : list N) : list N :=
  match l with [] => [] | x :: r => if x =? t then remove_t t r else x :: remove_t t r end.
Definition release (c : dcfg) (s : dstate) (t : N) (p : tpc) : dstate :=
  mkDS (if cap c =? 0 then sem s else sem s - 1) (aidx s) (clock s) (upd (tp s) t p) (remove_t t (inprog s)).

Definition dstep (c : dcfg) (s : dstate) (l : dlabel) : option dstate :=
  match l with
  | LStart t to => match tp s t with TNew => Some (set_tp s t (TDraw (clock s + to))) | _ => None end
  | LDraw t => match tp s t with
               | TDraw dl => let i := (aidx s + 1) mod W32 in
                             Some (mkDS (sem s) i (clock s) (upd (tp s) t (TLoop dl i 0 [])) (inprog s))
               | _ => None end
  (* resolveTCPAddrs: the Resolver returns an error at once / only when its context (deadline = the dial's) expires.
     No cache entry is created and the rotation counter is untouched. *)
  | LResolveFail t => match tp s t with
                      | TDraw dl => Some (set_tp s t (TDone XResolveErr dl 0 [] (clock s)))
                      | _ => None end
  | LResolveDeadline t => match tp s t with
                          | TDraw dl => if dl <=? clock s then Some (set_tp s t (TDone XResolveErr dl 0 [] (clock s))) else None
                          | _ => None end
  | LCheck t => match tp s t with
                | TLoop dl i0 k tr =>
                    if dl <=? clock s then Some (set_tp s t (TDone (XTimeout (addr_of c i0 k)) dl i0 tr (clock s)))
                    else Some (set_tp s t (TSem dl i0 k tr))
                | _ => None end
  | LAcqFast t => match tp s t with
                  | TSem dl i0 k tr => if has_slot c s then Some (acquire c s t (TConn dl (conn_ctx_deadline dl (clock s)) i0 k tr)) else None
                  | _ => None end
  | LAcqFull t => match tp s t with
                  | TSem dl i0 k tr => if has_slot c s then None else Some (set_tp s t (TSemWait dl i0 k tr))
                  | _ => None end
  | LAcqSlow t => match tp s t with
                  | TSemWait dl i0 k tr => if has_slot c s then Some (acquire c s t (TConn dl (conn_ctx_deadline dl (clock s)) i0 k tr)) else None
                  | _ => None end
  | LSemTimeout t => match tp s t with
                     | TSemWait dl i0 k tr =>
                         if dl <=? clock s then Some (set_tp s t (TDone (XTimeout (addr_of c i0 k)) dl i0 tr (clock s))) else None
                     | _ => None end
  | LConnOk t => match tp s t with
                 | TConn dl _ i0 k tr => let a := addr_of c i0 k in
                                       Some (release c s t (TDone (XOk a) dl i0 (tr ++ [a]) (clock s)))
                 | _ => None end
  | LConnRefused t => match tp s t with
                      | TConn dl _ i0 k tr =>
                          let a := addr_of c i0 k in
                          if k + 1 <? nad c then Some (release c s t (TLoop dl i0 (k + 1) (tr ++ [a])))
                          else Some (release c s t (TDone (XErr a) dl i0 (tr ++ [a]) (clock s)))
                      | _ => None end
  | LConnDeadline t => match tp s t with
                       | TConn dl cdl i0 k tr =>
                           let a := addr_of c i0 k in
                           if cdl <=? clock s then Some (release c s t (TDone (XTimeout a) dl i0 (tr ++ [a]) (clock s))) else None
                       | _ => None end
  | LTick d => Some (mkDS (sem s) (aidx s) (clock s + d) (tp s) (inprog s))
  end.

Fixpoint drun (c : dcfg) (s : dstate) (tr : list dlabel) : option dstate :=
  match tr with
  | [] => Some s
  | l :: tr' => match dstep c s l with Some s' => drun c s' tr' | None => None end
  end.
Definition dreach (c : dcfg) (tr : list dlabel) (s : dstate) : Prop := drun c dsinit tr = Some s.

(* the rotation a dial that tries k addresses goes through, starting from the index i0 it drew *)
Definition rot (c : dcfg) (i0 k : N) : list N := map (fun j => addr_of c i0 (N.of_nat j)) (seq 0 (N.to_nat k)).

(* ======================================================================================
   Event-driven run of the transition system against an outcome oracle (used by the replay):
   `oracle a` says what a connect to address a does: accept, refuse, or hang (never completes:
   the deadline ends it: ctx.Err() == DeadlineExceeded, or a net.Error timeout at/after the deadline when
   the socket timer beat the context timer — both are ErrDialTimeout, step ConnDeadline).  Threads take their enabled steps in list order; when every thread is
   waiting (for the semaphore or for a hanging connect) time jumps to the earliest deadline. *)
Inductive outcome := OAccept | ORefuse | OHang.
Inductive rmode := RGood | RFail | RHangs.   (* what the Resolver does when it is consulted (no cache entry) *)

Definition step_thread (c : dcfg) (s : dstate) (oracle : N -> outcome) (rm : rmode) (t : N) : option dstate :=
  match tp s t with
  | TDraw _ => match rm with RGood => dstep c s (LDraw t) | RFail => dstep c s (LResolveFail t) | RHangs => dstep c s (LResolveDeadline t) end
  | TLoop _ _ _ _ => dstep c s (LCheck t)
  | TSem _ _ _ _ => match dstep c s (LAcqFast t) with Some s1 => Some s1 | None => dstep c s (LAcqFull t) end
  | TSemWait _ _ _ _ => match dstep c s (LAcqSlow t) with Some s1 => Some s1 | None => dstep c s (LSemTimeout t) end
  | TConn _ _ i0 k _ =>
      match oracle (addr_of c i0 k) with
      | OAccept => dstep c s (LConnOk t)
      | ORefuse => dstep c s (LConnRefused t)
      | OHang => dstep c s (LConnDeadline t)
      end
  | _ => None
  end.
Fixpoint first_step (c : dcfg) (s : dstate) (oracle : N -> outcome) (rm : rmode) (ts : list N) : option dstate :=
  match ts with
  | [] => None
  | t :: r => match step_thread c s oracle rm t with Some s1 => Some s1 | None => first_step c s oracle rm r end
  end.
Definition waiting_dl (s : dstate) (t : N) : option N :=
  match tp s t with TDraw dl | TSemWait dl _ _ _ | TConn _ dl _ _ _ => Some dl | _ => None end.
Fixpoint min_dl (s : dstate) (ts : list N) : option N :=
  match ts with
  | [] => None
  | t :: r => match waiting_dl s t, min_dl s r with
              | Some a, Some b => Some (N.min a b)
              | Some a, None => Some a
              | None, m => m
              end
  end.
Fixpoint sim (c : dcfg) (fuel : nat) (s : dstate) (oracle : N -> outcome) (rm : rmode) (ts : list N) : dstate :=
  match fuel with
  | O => s
  | S f =>
      match first_step c s oracle rm ts with
      | Some s1 => sim c f s1 oracle rm ts
      | None =>
          match min_dl s ts with
          | Some d => if clock s <? d
                      then match dstep c s (LTick (d - clock s)) with Some s1 => sim c f s1 oracle rm ts | None => s end
                      else s
          | None => s
          end
      end
  end.
(* same, but never lets time pass beyond `until` (the next Dial call of the scenario starts then) *)
Fixpoint sim_until (c : dcfg) (fuel : nat) (s : dstate) (oracle : N -> outcome) (rm : rmode) (ts : list N) (until : N) : dstate :=
  match fuel with
  | O => s
  | S f =>
      match first_step c s oracle rm ts with
      | Some s1 => sim_until c f s1 oracle rm ts until
      | None =>
          match min_dl s ts with
          | Some d => if (clock s <? d) && (d <=? until)
                      then match dstep c s (LTick (d - clock s)) with Some s1 => sim_until c f s1 oracle rm ts until | None => s end
                      else s
          | None => s
          end
      end
  end.
