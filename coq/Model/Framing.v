(* Framing.v — C01: how the server cuts a connection's byte stream into requests.

   OWN PARTS (nobody else models them):
     code_decision                 the CL / TE bookkeeping of RequestHeader.parseHeaders as a function of
                                   (HTTP/1.1?, Transfer-Encoding values, Content-Length values) in field order
     is_cl_key / is_te_key         which scanned keys parseHeaders treats as Content-Length / Transfer-Encoding
     steps, Scanned, HeadFields    the `for s.next()` loop of parseHeaders as a fold over the scanned fields
                                   (Proof/FramingProof.v ties them to ReqHead.req_headers_loop)
     parse_trailer                 header.go parseTrailer (over Lines.v's scanner): per field the key trim, isBadTrailer,
                                   value check, canonicalisation and the append to the request's header list
     read_req_message              the body read plus the serve loop's MayContinue() re-evaluation after the body
     read_trailer                  header.ReadTrailer / tryReadTrailer over the reader window
     multipart_boundary            RequestHeader.MultipartFormBoundary
     serve_frames                  Server.serveConnCounted restricted to request framing: head, parseURI, GetOnly,
                                   Expect: 100-continue (no Expect/Continue handler), body, dispatch, close decision

   IMPORTED BUILDING BLOCKS: Model/Lines.v + Model/ReqHead.v (req_head_parse: RequestHeader.parse + validate),
   Model/Body.v (reqReadBody, readBodyChunked, readBody), Model/Uri.v (URI.parse, for parseURI),
   Model/Multipart.v (read_form: mime/multipart ReadForm as readMultipartForm drives it).
   Model/Serve.v (serve loop of C10/C14/C17) is NOT used: it abstracts the request reader into a `framer`
   parameter and does not thread request bodies / GetOnly / multipart, which are what C01 is about; the loop
   below keeps the same control flow for the part both model (head -> body -> handler -> close decision).

   THE READER.  br is a bufio.Reader of size bsize over the connection.  RequestHeader.Read parses
   "everything buffered" and, on ErrNeedMore, peeks for more until the buffer is full; bufio slides unread
   data to the front, so at most the next bsize unread bytes of the stream are ever visible to the head
   parser: w = firstn bsize remaining.  The parse result of a growing prefix of w changes from NeedMore to a
   decision once and then stays (C09: a request head is decided by its own bytes — since f7a0f16 also when
   its blank line is a bare LF: rejected), so the result of the read loop is the result on w — independent of
   how the bytes arrive (the harness checks this under three read chunkings).  parseTrailer still searches
   everything buffered for CRLFCRLF: read_trailer applies it to the window as well.  The body readers consume bytes
   from the stream irrespective of buffering (Model/Body.v convention: the remaining input, then io.EOF).
   The peer always ends the stream with EOF (half-close): no read timeouts.

   No proofs here (Proof/FramingProof.v). *)
From FH Require Import Model.Base Gen.GenC01 Gen.GenC09 Model.ByteClassModel Model.Lines Model.ReqHead Model.Body.
From FH Require Model.Uri Model.Multipart.
Open Scope nat_scope.

(* ================= the framing decision ================= *)
Inductive cdec :=
| CReject                                  (* parseHeaders returns an error: 400 + close *)
| CAccept (cl : Z) (close : bool).         (* h.contentLength (-2 none, -1 chunked, n), connectionClose forced *)

(* tes / cls: the values of the Transfer-Encoding / Content-Length fields in the order they appear
   (their relative order does not matter: Proof.FramingProof.steps_decision) *)
Definition code_decision (noHTTP11 : bool) (tes cls : list bytes) : cdec :=
  match cls with
  | _ :: _ :: _ => CReject                                              (* ErrDuplicateContentLength *)
  | _ =>
      let clv : option (option Z) :=                                    (* None = unparsable *)
        match cls with
        | [v] => match parseContentLength v with Some n => Some (Some n) | None => None end
        | _ => Some None
        end in
      match clv with
      | None => CReject                                                 (* cannot parse content-length *)
      | Some clo =>
          let cl0 := match clo with Some n => n | None => (-2)%Z end in
          match tes with
          | [] => CAccept cl0 false
          | [t] =>
              if noHTTP11 then CReject                                  (* Transfer-Encoding on HTTP/1.0 *)
              else if cic t strChunked then CAccept (-1)%Z (match clo with Some _ => true | None => false end)
              else if cic t strIdentity then CAccept cl0 true           (* tolerated, closeAfterRequest *)
              else CReject                                              (* unsupported transfer-encoding *)
          | _ => CReject                                                    (* too many transfer-encoding headers (or TE on HTTP/1.0) *)
          end
      end
  end.

(* a scanned field: key, value, keyHasSpace *)
Definition kv3 := (bytes * bytes * bool)%type.

Definition key_norm (cfg : hcfg) (k : bytes) (inner : bool) : bytes :=
  normalizeHeaderKeyValidated k (disable_norm cfg || inner).
Definition is_cl_key (cfg : hcfg) (k : bytes) (inner : bool) : bool :=
  let key := key_norm cfg k inner in N.eqb (first_lower key) (ch "c") && cic key strContentLength.
Definition is_te_key (cfg : hcfg) (k : bytes) (inner : bool) : bool :=
  let key := key_norm cfg k inner in N.eqb (first_lower key) (ch "t") && cic key strTransferEncoding.

Definition cl_vals (cfg : hcfg) (l : list kv3) : list bytes :=
  map (fun x => snd (fst x)) (filter (fun x => is_cl_key cfg (fst (fst x)) (snd x)) l).
Definition te_vals (cfg : hcfg) (l : list kv3) : list bytes :=
  map (fun x => snd (fst x)) (filter (fun x => is_te_key cfg (fst (fst x)) (snd x)) l).

(* the body of parseHeaders' loop folded over a list of scanned fields *)
Fixpoint steps (cfg : hcfg) (noHTTP11 : bool) (st : rqst) (l : list kv3) : R (step_res rqst) :=
  match l with
  | [] => Ok (StOk st)
  | (k, v, inner) :: r =>
      do sr <- req_header_step cfg noHTTP11 st k v inner;
      match sr with
      | StErr e => Ok (StErr e)
      | StOk st' => steps cfg noHTTP11 st' r
      end
  end.

(* the fields headerScanner.next yields from position r of the (truncated) block b until it stops *)
Inductive Scanned (b : bytes) : nat -> list kv3 -> option scan_err -> nat -> Prop :=
| ScStop r e r1 : scan_next b r = Ok (NStop e r1) -> Scanned b r [] e r1
| ScKV r k v inner r1 l e r2 :
    scan_next b r = Ok (NKV k v inner r1) -> Scanned b r1 l e r2 -> Scanned b r ((k, v, inner) :: l) e r2.

(* w = the buffered bytes; the head in them has request line `line` and the scanner yields the fields l,
   stopping without error (an empty header block yields none) *)
Definition HeadFields (w : bytes) (line : req_line) (l : list kv3) : Prop :=
  exists rest raw rawEnd,
    req_parseFirstLine w = Ok (FLOk line) /\
    slice w (rl_len line) (length w) = Ok rest /\
    readRawHeaders rest = Ok (Some (raw, rawEnd)) /\
    ((scan_init rest rawEnd = Ok IEmpty /\ l = []) \/
     (exists b r, scan_init rest rawEnd = Ok (IReady b) /\ Scanned b 0 l None r)).

(* ================= trailers ================= *)
(* parseTrailer(src, dest = h.h, disableNormalizing): the consumed length and the fields it APPENDS to the request's
   header list (trimmed, canonicalised key; value) / ErrNeedMore / error *)
Inductive ptr_res := PTOk (n : nat) (tf : kvs) | PTNeedMore | PTErr.

Fixpoint trailer_loop (fuel : nat) (dn : bool) (b : bytes) (r : nat) (acc : kvs) : R ptr_res :=
  match fuel with
  | O => OutOfFuel
  | S f =>
      do nx <- scan_next b r;
      match nx with
      | NStop None r1 => Ok (PTOk r1 acc)
      | NStop (Some _) _ => Ok PTErr
      | NKV k v inner r1 =>
          match trimTrailingSpace k with                          (* "Content-Length :" -> "Content-Length:" *)
          | [] => trailer_loop f dn b r1 acc                      (* len(s.key) == 0: continue *)
          | key =>
              do bad <- isBadTrailer key;                         (* forbidden trailer key, checked AFTER the trim *)
              if bad then Ok PTErr
              else if negb (validValue v) then Ok PTErr
              else trailer_loop f dn b r1 (appendArg acc (normalizeHeaderKeyValidated key (dn || inner)) v)
          end
      end
  end.

Definition parse_trailer (dn : bool) (src : bytes) : R ptr_res :=
  do ir <- scan_init src 0;
  match ir with
  | IEmpty => Ok (PTOk 2 [])
  | INeedMore => Ok PTNeedMore
  | IStartSpace => Ok PTErr
  | IBadBlockEnd => Ok PTErr                    (* unreachable: blockEnd = 0 *)
  | IReady b => trailer_loop (S (length b)) dn b 0 []
  end.

Inductive eclass := EBad | ESmallBuf.       (* defaultErrorHandler: 400 / 431 *)

Inductive tr_res := TrDone (rest : bytes) (tf : kvs) | TrFail (e : eclass) | TrBug.

(* header.ReadTrailer over the reader window; io.EOF is turned into ErrBrokenChunk by ContinueReadBody *)
Definition read_trailer (dn : bool) (bsize : nat) (r : bytes) : tr_res :=
  match r with
  | [] => TrFail EBad
  | _ =>
      let w := firstn bsize r in
      match parse_trailer dn w with
      | Ok (PTOk n tf) => TrDone (skipn n r) tf
      | Ok PTErr => TrFail EBad
      | Ok PTNeedMore =>
          if (bsize <=? length r) && negb (isOnlyCRLF w) then TrFail ESmallBuf else TrFail EBad
      | _ => TrBug
      end
  end.

(* ================= RequestHeader.MultipartFormBoundary ================= *)
Fixpoint sp_run (b : bytes) : nat := match b with c :: r => if N.eqb c SP then S (sp_run r) else 0 | [] => 0 end.

Definition strip_quotes (b : bytes) : bytes :=
  match b with
  | c :: r => if N.eqb c DQ
              then match rev r with
                   | d :: m => if N.eqb d DQ then rev m else b
                   | [] => b                                          (* len(b) > 1 fails *)
                   end
              else b
  | [] => b
  end.

Fixpoint mfb_loop (fuel : nat) (b : bytes) (n : nat) : bytes :=
  match fuel with
  | O => []
  | S f =>
      match b with
      | [] => []
      | _ =>
          let n1 := S n in
          let n2 := n1 + sp_run (skipn n1 b) in
          let b1 := skipn n2 b in
          if has_prefix strBoundary b1 then
            match skipn (length strBoundary) b1 with
            | c :: b3 =>
                if N.eqb c EQS then
                  strip_quotes (match index_byte b3 SEMI with Some i => firstn i b3 | None => b3 end)
                else []
            | [] => []
            end
          else match index_byte b1 SEMI with
               | None => []
               | Some i => mfb_loop f b1 i
               end
      end
  end.

Definition multipart_boundary (ct : bytes) : bytes :=
  if has_prefix strMultipartFormData ct then
    let b := skipn (length strMultipartFormData) ct in
    match b with
    | c :: _ => if N.eqb c SEMI then mfb_loop (S (length b)) b 0 else []
    | [] => []
    end
  else [].

(* the literals of the modelled functions, regenerated from the source (translator funclits): a changed
   constant breaks this tie and with it the build of the model *)
Example framing_lits_tie :
  mfbLits_ints = [0; 0; Z.of_N SEMI; 0; Z.of_N SP; Z.of_N SEMI; 0; 0; 0; Z.of_N EQS; 1; Z.of_N SEMI; 0; 1; 0;
                  Z.of_N DQ; 1; Z.of_N DQ; 1; 1]%Z                      (* MultipartFormBoundary: ';' ' ' ';' '=' ';' '"' '"' *)
  /\ mfbLits_strs = [strMultipartFormData; strMultipartFormData; strBoundary; strBoundary]
  /\ hd 0%Z scanNextLits_ints = 2%Z                                     (* headerScanner.next: s.r = 2 on an empty block (PTOk 2) *)
  /\ hd [] scanNextLits_strs = strCRLF
  /\ continueReadBodyLits_ints = [0; 0; 0; 0; 0; 2; 0; 1]%Z             (* ContinueReadBody: contentLength > 0, == -2, == -1 *)
  /\ tryReadTrailerLits_ints = [0; 1]%Z.                                (* tryReadTrailer: len(b) == 0, n == 1 *)
Proof. repeat split; reflexivity. Qed.

(* ================= the serve loop, framing part ================= *)
Record fcfg := {
  c_reduce : bool;             (* ReduceMemoryUsage: no effect on framing (kept so that the harness can vary it) *)
  c_nonorm : bool;             (* DisableHeaderNamesNormalizing *)
  c_getonly : bool;            (* GetOnly *)
  c_noprep : bool;             (* DisablePreParseMultipartForm *)
  c_bsize : nat;               (* ReadBufferSize (> 0) *)
  c_maxbody : Z                (* MaxRequestBodySize (> 0) *)
}.

Definition hcfg_of (c : fcfg) : hcfg := {| disable_norm := c_nonorm c; disable_special := false; secure_err := false |}.

Record dispatched := {
  dp_win : bytes;              (* what the head parser saw: the next bsize unread bytes (not an observable) *)
  dp_off : nat;                (* stream offset at which the request's head was read *)
  dp_hlen : nat;               (* bytes consumed by the head *)
  dp_len : nat;                (* bytes consumed by head and body *)
  dp_method : bytes;           (* ctx.Method() *)
  dp_uri : bytes;              (* ctx.RequestURI() *)
  dp_body : option bytes;      (* ctx.Request.Body(); None: the body was pre-parsed into a multipart form *)
  dp_close : bool              (* Header.ConnectionClose() when the handler runs *)
}.

Record response := { rs_status : Z; rs_close : bool }.

Inductive outcome :=
| OEof           (* the reader reported io.EOF where a request would start: silent close (pending responses were flushed) *)
| OEofBody       (* readHexInt reported a bare io.EOF where a chunk size was expected: silent close; the responses still
                    sitting in the bufio.Writer (written while more input was buffered) are released unflushed, i.e. lost *)
| OClosed        (* closed after a handler response carrying Connection: close *)
| OErr           (* error response written, closed *)
| OBug           (* a model Panic / OutOfFuel / Go panic: never on a harness case *)
| OFuel.

Definition status_of (e : eclass) : Z :=
  match e with EBad => StatusBadRequest | ESmallBuf => StatusRequestHeaderFieldsTooLarge end.
Definition err_out (e : eclass) : list dispatched * list response * outcome :=
  ([], [{| rs_status := status_of e; rs_close := true |}], OErr).

Definition is_get_or_head (m : bytes) : bool := beq m strMethodGet || beq m strMethodHead.

(* ContinueReadBody after the head: the body, the unread rest, the trailer fields merged into the header list *)
Inductive rb_res := RbOk (body : option bytes) (rest : bytes) (tf : kvs) | RbFail (e : eclass) | RbEof | RbBug.

Definition read_req_body (c : fcfg) (hd : req_head) (rest : bytes) : rb_res :=
  let cl := content_length hd in
  if (cl >? 0)%Z && (c_maxbody c >? 0)%Z && (cl >? c_maxbody c)%Z then RbFail EBad                 (* ErrBodyTooLarge *)
  else
    let boundary := if (cl >? 0)%Z && negb (c_noprep c) then multipart_boundary (ctype hd) else [] in
    match boundary with
    | _ :: _ =>
        match peekArgBytes (fields hd) strContentEncoding with
        | [] =>
            (* readMultipartForm over io.LimitReader(r, cl), then the rest of the cl bytes is discarded *)
            if (Z.of_nat (length rest) <? cl)%Z then RbFail EBad                                   (* unexpected EOF *)
            else match Multipart.read_form boundary cl rest with
                 | Some _ => RbOk None (skipn (Z.to_nat cl) rest) []
                 | None => RbFail EBad
                 end
        | _ =>
            match reqReadBody trailer_reject cl (c_maxbody c) rest with
            | BOk body r _ => RbOk (Some body) r []
            | BErr _ _ _ => RbFail EBad
            | _ => RbBug
            end
        end
    | [] =>
        if (cl =? -1)%Z then
          match readBodyChunked (c_maxbody c) [] rest with
          | BOk body r _ =>
              match read_trailer (c_nonorm c) (c_bsize c) r with
              | TrDone r' tf => RbOk (Some body) r' tf
              | TrFail e => RbFail e
              | TrBug => RbBug
              end
          | BErr EEOF _ _ => RbEof                                 (* readHexInt's bare io.EOF: `err == io.EOF` in the loop *)
          | BErr _ _ _ => RbFail EBad
          | _ => RbBug
          end
        else
          match reqReadBody trailer_reject cl (c_maxbody c) rest with
          | BOk body r _ => RbOk (Some body) r []
          | BErr _ _ _ => RbFail EBad
          | _ => RbBug
          end
    end.

(* What serveConnCounted does between the head and the handler.  readLimitBody reads the body unless
   MayContinue() (expect = the head carries "Expect: 100-continue"; then the loop writes "100 Continue" and calls
   ContinueReadBody).  The loop evaluates MayContinue() AFTER the body was read: parseTrailer has appended the
   trailer fields to the header list by then, so a trailer field that Peek("Expect") finds would make the loop
   write "100 Continue" and call ContinueReadBody a SECOND time (again = true): with contentLength still -1
   (a non-empty chunked body; an empty one has set it to 0) that reads the bytes after the message as another
   chunked body, which replaces the first.  isBadTrailer forbids "Expect" (Proof.FramingProof.no_expect_injection:
   again is never true), which is exactly what keeps the loop from re-framing the connection. *)
Inductive rm_res :=
| RmOk (body : option bytes) (rest : bytes) (again : bool)
| RmFail (e : eclass) (again : bool)
| RmEof (again : bool)
| RmBug.

Definition body_is_empty (body : option bytes) : bool := match body with Some [] => true | _ => false end.

Definition read_req_message (c : fcfg) (hd : req_head) (expect : bool) (b : bytes) : rm_res :=
  match read_req_body c hd b with
  | RbOk body rest tf =>
      let again := negb expect && beq (peekArgBytes (fields hd ++ tf) strExpect) str100Continue in
      if again then
        if (content_length hd =? -1)%Z && negb (body_is_empty body) then
          match read_req_body c hd rest with                     (* ContinueReadBody with ContentLength() = -1 *)
          | RbOk body2 rest2 _ => RmOk body2 rest2 true
          | RbFail e => RmFail e true
          | RbEof => RmEof true
          | RbBug => RmBug
          end
        else RmOk body rest true                                 (* ContentLength() = 0 by now: nothing more is read *)
      else RmOk body rest false
  | RbFail e => RmFail e false
  | RbEof => RmEof false
  | RbBug => RmBug
  end.

Definition cons_d (d : dispatched) (x : list dispatched * list response * outcome) :=
  let '(ds, rs, o) := x in (d :: ds, rs, o).
Definition cons_r (r : response) (x : list dispatched * list response * outcome) :=
  let '(ds, rs, o) := x in (ds, r :: rs, o).
Definition continue_resp : response := {| rs_status := StatusContinue; rs_close := false |}.

(* rem = the unread stream, off = its offset *)
Fixpoint serve (fuel : nat) (c : fcfg) (rem : bytes) (off : nat) : list dispatched * list response * outcome :=
  match fuel with
  | O => ([], [], OFuel)
  | S f =>
      match rem with
      | [] => ([], [], OEof)
      | _ =>
          let w := firstn (c_bsize c) rem in
          match req_head_parse (hcfg_of c) w with
          | HNeedMore =>
              if isOnlyCRLF w then ([], [], OEof)
              else if c_bsize c <=? length rem then err_out ESmallBuf else err_out EBad
          | HErr _ => err_out EBad
          | HPanic | HOutOfFuel => ([], [], OBug)
          | HOk (hd, n) =>
              match Uri.parse (host hd) (target hd) with
              | Uri.UErr _ => err_out EBad                                                      (* parseURI *)
              | Uri.UOk _ =>
                  if c_getonly c && negb (is_get_or_head (meth hd)) then err_out EBad           (* ErrGetOnly *)
                  else
                    let expect := beq (peekArgBytes (fields hd) strExpect) str100Continue in
                    let pre (again : bool) (x : list dispatched * list response * outcome) :=
                      if expect || again then cons_r continue_resp x else x in
                    match read_req_message c hd expect (skipn n rem) with
                    | RmFail e again => pre again (err_out e)
                    | RmEof again => pre again ([], [], OEofBody)
                    | RmBug => ([], [], OBug)
                    | RmOk body rest again =>
                        let len := length rem - length rest in
                        let d := {| dp_win := w; dp_off := off; dp_hlen := n; dp_len := len; dp_method := meth hd;
                                    dp_uri := target hd; dp_body := body; dp_close := conn_close hd |} in
                        let r := {| rs_status := StatusOK; rs_close := conn_close hd |} in
                        pre again (cons_d d (cons_r r
                          (if conn_close hd then ([], [], OClosed)
                           else if (0 <? len) && (len <=? length rem) then serve f c rest (off + len)
                           else ([], [], OBug))))
                    end
              end
          end
      end
  end.

Definition serve_frames (c : fcfg) (stream : bytes) : list dispatched * list response * outcome :=
  serve (S (length stream)) c stream 0.
