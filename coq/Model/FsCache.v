(* Model of the file-handle life cycle in fs.go (property C25): fsFile reference counting
   (readersCount), the in-memory cache manager (cache maps, pendingFiles, closed), big-file reader
   handles (ff.bigFiles) and fsFile.Release, as a labelled transition system.  Labels are the code's
   locked regions and the calls made outside the lock:

     request      = Get k h (cache hit)  |  Open sz ; (OpenFail f | OpenAbort f | SetF k f h)   (handleRequest, openFSFile/newFSFile)
                    then NewReader h (big files only: pops ff.bigFiles or opens a new handle) ; Read h * ; Dec h
                    or Dec h at once (If-Modified-Since hit, NewReader error, HEAD)
     cleaner      = CleanTick exp ; Release f *        (cleanCache under the lock, Release outside)
     close        = CloseBegin (sync.Once) ; CloseCollect (locked) ; Release f *       (CleanStop closed / AddCleanup)
     Set on a key already cached queues Release of the duplicate file (SetFileToCache)

   Time is abstracted: which cache entries are expired is an argument of CleanTick (any subset).
   noopCacheManager (FS.SkipCache) behaves exactly like the closed in-memory manager (Get misses,
   Set only counts, Dec releases at zero): it is this LTS started from `init_noop`.
   The four cache maps are one association list keyed by (kind, path) encoded as a number.

   Ghost fields (never read by `step` to decide anything): leaked, floating, dclosed, bowner, badreads.
   No proofs in this file. *)
From Coq Require Import List ZArith Bool Arith.
From FH Require Import Gen.GenC25.
Import ListNotations.

Definition fid := nat.   (* an fsFile, i.e. its main handle ff.f, numbered by Open order *)
Definition bid := nat.   (* a per-reader handle opened by bigFileReader *)
Definition hid := nat.   (* a request / response body holding one count on a file *)
Definition key := nat.

Record holder := mkH { h_id : hid; h_f : fid; h_b : option bid }.

Record cfg := mkCfg { osfs : bool }.   (* FS.FS == nil: small files are read through ff.f itself *)

Record st := mkSt {
  cache : list (key * fid);
  pending : list fid;              (* cm.pendingFiles *)
  closeStarted : bool;             (* cleanStopOnce fired *)
  closed : bool;                   (* cm.closed *)
  closer : bool;                   (* a thread is between the Once and the locked region of close() *)
  rc : fid -> nat;                 (* ff.readersCount *)
  released : fid -> nat;           (* number of ff.Release() calls, each closes ff.f *)
  fsize : fid -> Z;
  local : list fid;                (* opened by a request, not yet given to the cache manager *)
  leaked : list fid;               (* ghost: dropped on an error path without Close *)
  floating : list fid;             (* ghost: files known only to their holders (Set after close / SkipCache) *)
  relq : list fid;                 (* filesToRelease: collected under the lock, Release not yet called *)
  holders : list holder;
  pool : fid -> list bid;          (* ff.bigFiles *)
  bclosed : bid -> nat;            (* number of Close calls on a reader handle *)
  dclosed : bid -> nat;            (* ghost: closed directly by bigFileReader.Close (seek failed) *)
  bowner : bid -> fid;             (* ghost *)
  nextf : fid; nextb : bid;
  badreads : nat                   (* ghost: reads from a closed handle *)
}.

Inductive label :=
| Open (sz : Z)
| OpenFail (f : fid)
| OpenAbort (f : fid)
| Get (k : key) (h : hid)
| SetF (k : key) (f : fid) (h : hid)
| NewReader (h : hid)
| Read (h : hid)
| Dec (h : hid) (seekfail : bool)
| CleanTick (exp : list key)
| CloseBegin
| CloseCollect
| Release (f : fid).

Definition upd {A} (f : nat -> A) (k : nat) (v : A) : nat -> A := fun x => if Nat.eqb x k then v else f x.

Fixpoint cnt (x : nat) (l : list nat) : nat :=
  match l with [] => O | y :: r => (if Nat.eqb y x then 1 else 0) + cnt x r end.
Definition memb (x : nat) (l : list nat) : bool := existsb (Nat.eqb x) l.

(* remove the first occurrence *)
Fixpoint remove1 (x : nat) (l : list nat) : list nat :=
  match l with [] => [] | y :: r => if Nat.eqb y x then r else y :: remove1 x r end.

Fixpoint lookup (k : key) (c : list (key * fid)) : option fid :=
  match c with [] => None | (k', f) :: r => if Nat.eqb k' k then Some f else lookup k r end.
Fixpoint delkey (k : key) (c : list (key * fid)) : list (key * fid) :=
  match c with [] => [] | (k', f) :: r => if Nat.eqb k' k then r else (k', f) :: delkey k r end.

Fixpoint find_holder (h : hid) (l : list holder) : option holder :=
  match l with [] => None | x :: r => if Nat.eqb (h_id x) h then Some x else find_holder h r end.
Fixpoint del_holder (h : hid) (l : list holder) : list holder :=
  match l with [] => [] | x :: r => if Nat.eqb (h_id x) h then r else x :: del_holder h r end.

Definition init : st :=
  mkSt [] [] false false false (fun _ => O) (fun _ => O) (fun _ => 0%Z) [] [] [] [] [] (fun _ => []) (fun _ => O) (fun _ => O)
       (fun _ => O) O O O.
Definition init_noop : st :=
  mkSt [] [] true true false (fun _ => O) (fun _ => O) (fun _ => 0%Z) [] [] [] [] [] (fun _ => []) (fun _ => O) (fun _ => O)
       (fun _ => O) O O O.

(* An fsFile without a handle (ff.f == nil: generated directory index, file compressed into memory over an fs.FS)
   is an `Open` with a negative size: it is cached, counted and released like any other, but Release closes nothing
   and its readers are fsSmallFileReaders over ff.dirIndex. *)
Definition is_virtual (s : st) (f : fid) : bool := (fsize s f <? 0)%Z.

(* fsFile.isBig *)
Definition is_big (cf : cfg) (s : st) (f : fid) : bool :=
  if is_virtual s f then false else
  if osfs cf then (fsize s f >? maxSmallFileSize)%Z else true.

(* addFileToReleaseNolock *)
Definition add_rel (rcf : fid -> nat) (acc : list fid * list fid) (f : fid) : list fid * list fid :=
  let (pend, rel) := acc in
  if Nat.ltb 0 (rcf f) then (pend ++ [f], rel) else (pend, rel ++ [f]).

(* the pendingFiles scan at the start of cleanCache *)
Fixpoint scan_pending (rcf : fid -> nat) (p : list fid) (rel : list fid) : list fid * list fid :=
  match p with
  | [] => ([], rel)
  | f :: r => if Nat.ltb 0 (rcf f)
              then let (p', rel') := scan_pending rcf r rel in (f :: p', rel')
              else scan_pending rcf r (rel ++ [f])
  end.

(* cleanCacheNolock over the expired keys *)
Fixpoint evict (rcf : fid -> nat) (exp : list key) (c : list (key * fid)) (acc : list fid * list fid)
  : list (key * fid) * (list fid * list fid) :=
  match exp with
  | [] => (c, acc)
  | k :: r => match lookup k c with
              | Some f => evict rcf r (delkey k c) (add_rel rcf acc f)
              | None => evict rcf r c acc
              end
  end.

Definition bump_all (bc : bid -> nat) (bs : list bid) : bid -> nat :=
  fold_left (fun g b => upd g b (S (g b))) bs bc.

Definition step (cf : cfg) (s : st) (l : label) : option st :=
  match l with
  | Open sz =>
      Some (mkSt (cache s) (pending s) (closeStarted s) (closed s) (closer s) (rc s) (released s) (upd (fsize s) (nextf s) sz)
                 (nextf s :: local s) (leaked s) (floating s) (relq s) (holders s) (pool s) (bclosed s) (dclosed s) (bowner s)
                 (S (nextf s)) (nextb s) (badreads s))
  | OpenFail f =>
      if memb f (local s) then
        Some (mkSt (cache s) (pending s) (closeStarted s) (closed s) (closer s) (rc s) (released s) (fsize s)
                   (remove1 f (local s)) (f :: leaked s) (floating s) (relq s) (holders s) (pool s) (bclosed s) (dclosed s)
                   (bowner s) (nextf s) (nextb s) (badreads s))
      else None
  | OpenAbort f =>        (* the error paths of openFSFile that do close the file they opened *)
      if memb f (local s) then
        Some (mkSt (cache s) (pending s) (closeStarted s) (closed s) (closer s) (rc s) (upd (released s) f (S (released s f)))
                   (fsize s) (remove1 f (local s)) (leaked s) (floating s) (relq s) (holders s) (pool s) (bclosed s) (dclosed s)
                   (bowner s) (nextf s) (nextb s) (badreads s))
      else None
  | Get k h =>
      if closed s then None else
      if memb h (map h_id (holders s)) then None else
      match lookup k (cache s) with
      | Some f =>
          Some (mkSt (cache s) (pending s) (closeStarted s) (closed s) (closer s) (upd (rc s) f (S (rc s f))) (released s) (fsize s)
                     (local s) (leaked s) (floating s) (relq s) (mkH h f None :: holders s) (pool s) (bclosed s) (dclosed s)
                     (bowner s) (nextf s) (nextb s) (badreads s))
      | None => None
      end
  | SetF k f h =>
      if negb (memb f (local s)) then None else
      if memb h (map h_id (holders s)) then None else
      if closed s then
        Some (mkSt (cache s) (pending s) (closeStarted s) (closed s) (closer s) (upd (rc s) f (S (rc s f))) (released s) (fsize s)
                   (remove1 f (local s)) (leaked s) (f :: floating s) (relq s) (mkH h f None :: holders s) (pool s) (bclosed s)
                   (dclosed s) (bowner s) (nextf s) (nextb s) (badreads s))
      else
        match lookup k (cache s) with
        | None =>
            Some (mkSt ((k, f) :: cache s) (pending s) (closeStarted s) (closed s) (closer s) (upd (rc s) f (S (rc s f)))
                       (released s) (fsize s) (remove1 f (local s)) (leaked s) (floating s) (relq s) (mkH h f None :: holders s)
                       (pool s) (bclosed s) (dclosed s) (bowner s) (nextf s) (nextb s) (badreads s))
        | Some f1 =>
            Some (mkSt (cache s) (pending s) (closeStarted s) (closed s) (closer s) (upd (rc s) f1 (S (rc s f1)))
                       (released s) (fsize s) (remove1 f (local s)) (leaked s) (floating s) (relq s ++ [f])
                       (mkH h f1 None :: holders s) (pool s) (bclosed s) (dclosed s) (bowner s) (nextf s) (nextb s) (badreads s))
        end
  | NewReader h =>
      match find_holder h (holders s) with
      | Some (mkH _ f None) =>
          if negb (is_big cf s f) then None else
          match rev (pool s f) with
          | b :: rest =>       (* reuse the most recently returned handle *)
              Some (mkSt (cache s) (pending s) (closeStarted s) (closed s) (closer s) (rc s) (released s) (fsize s) (local s)
                         (leaked s) (floating s) (relq s) (mkH h f (Some b) :: del_holder h (holders s))
                         (upd (pool s) f (rev rest)) (bclosed s) (dclosed s) (bowner s) (nextf s) (nextb s) (badreads s))
          | [] =>              (* filesystem.Open(ff.filename) *)
              Some (mkSt (cache s) (pending s) (closeStarted s) (closed s) (closer s) (rc s) (released s) (fsize s) (local s)
                         (leaked s) (floating s) (relq s) (mkH h f (Some (nextb s)) :: del_holder h (holders s))
                         (pool s) (bclosed s) (dclosed s) (upd (bowner s) (nextb s) f) (nextf s) (S (nextb s)) (badreads s))
          end
      | _ => None
      end
  | Read h =>
      match find_holder h (holders s) with
      | Some (mkH _ f ob) =>
          let bad := match ob with
                     | Some b => Nat.ltb 0 (bclosed s b)
                     | None => if is_big cf s f then false else Nat.ltb 0 (released s f)   (* small reader: ReadAt on ff.f *)
                     end in
          Some (mkSt (cache s) (pending s) (closeStarted s) (closed s) (closer s) (rc s) (released s) (fsize s) (local s)
                     (leaked s) (floating s) (relq s) (holders s) (pool s) (bclosed s) (dclosed s) (bowner s) (nextf s) (nextb s)
                     (if bad then S (badreads s) else badreads s))
      | None => None
      end
  | Dec h seekfail =>
      match find_holder h (holders s) with
      | Some (mkH _ f ob) =>
          match rc s f with
          | O => None                                   (* panic("bug: fsFile.readersCount < 0") *)
          | S n =>
              let pool' := match ob with
                           | Some b => if seekfail then pool s else upd (pool s) f (pool s f ++ [b])
                           | None => pool s end in
              let bclosed' := match ob with
                              | Some b => if seekfail then upd (bclosed s) b (S (bclosed s b)) else bclosed s
                              | None => bclosed s end in
              let dclosed' := match ob with
                              | Some b => if seekfail then upd (dclosed s) b (S (dclosed s b)) else dclosed s
                              | None => dclosed s end in
              let rel := closed s && Nat.eqb n 0 in
              Some (mkSt (cache s) (if rel then remove1 f (pending s) else pending s) (closeStarted s) (closed s) (closer s)
                         (upd (rc s) f n) (released s) (fsize s) (local s) (leaked s)
                         (if rel then remove1 f (floating s) else floating s)
                         (if rel then relq s ++ [f] else relq s)
                         (del_holder h (holders s)) pool' bclosed' dclosed' (bowner s) (nextf s) (nextb s) (badreads s))
          end
      | None => None
      end
  | CleanTick exp =>
      if closed s then Some s else
      let (p1, rel1) := scan_pending (rc s) (pending s) [] in
      match evict (rc s) exp (cache s) (p1, rel1) with
      | (c', (p2, rel2)) =>
          Some (mkSt c' p2 (closeStarted s) (closed s) (closer s) (rc s) (released s) (fsize s) (local s) (leaked s) (floating s)
                     (relq s ++ rel2) (holders s) (pool s) (bclosed s) (dclosed s) (bowner s) (nextf s) (nextb s) (badreads s))
      end
  | CloseBegin =>
      if closeStarted s then Some s else
      Some (mkSt (cache s) (pending s) true (closed s) true (rc s) (released s) (fsize s) (local s) (leaked s) (floating s)
                 (relq s) (holders s) (pool s) (bclosed s) (dclosed s) (bowner s) (nextf s) (nextb s) (badreads s))
  | CloseCollect =>
      if negb (closer s) then None else
      let (p1, rel1) := fold_left (add_rel (rc s)) (map snd (cache s)) (pending s, []) in
      let (p2, rel2) := fold_left (add_rel (rc s)) p1 ([], rel1) in
      Some (mkSt [] p2 (closeStarted s) true false (rc s) (released s) (fsize s) (local s) (leaked s) (floating s)
                 (relq s ++ rel2) (holders s) (pool s) (bclosed s) (dclosed s) (bowner s) (nextf s) (nextb s) (badreads s))
  | Release f =>
      if memb f (relq s) then
        Some (mkSt (cache s) (pending s) (closeStarted s) (closed s) (closer s) (rc s) (upd (released s) f (S (released s f)))
                   (fsize s) (local s) (leaked s) (floating s) (remove1 f (relq s)) (holders s) (pool s)
                   (if is_big cf s f then bump_all (bclosed s) (pool s f) else bclosed s)
                   (dclosed s) (bowner s) (nextf s) (nextb s) (badreads s))
      else None
  end.

Fixpoint run (cf : cfg) (s : st) (tr : list label) : option st :=
  match tr with
  | [] => Some s
  | l :: r => match step cf s l with Some s' => run cf s' r | None => None end
  end.

Inductive reach (cf : cfg) (s0 : st) : st -> Prop :=
| reach_init : reach cf s0 s0
| reach_step s l s' : reach cf s0 s -> step cf s l = Some s' -> reach cf s0 s'.

(* all requests finished, every response body closed, the manager closed and every collected file released *)
Definition settled (s : st) : bool :=
  closed s && negb (closer s) &&
  match holders s, local s, relq s with [], [], [] => true | _, _, _ => false end.
