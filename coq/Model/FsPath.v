(* FsPath.v — which file names an FS request handler hands to the filesystem (fs.go), non-Windows build.

   Modelled, as written: stripLeadingSlashes, hasDotDotPathSegment, NewVHostPathRewriter, NewPathSlashesStripper,
   NewPathPrefixStripper, the checks at the top of fsHandler.handleRequest (NUL byte, '..' after rewriting),
   pathToFilePath (osFS and fs.FS branches), filePathToCompressed, and the file names derived from filePath in
   openFSFile / compressAndOpenFSFile / compressFileNolock / openIndexFile / createDirIndex.

   Go strings and []byte = bytes.  The request enters as `reqPath` = the URI's pathOriginal (what URI.parse cut out
   of the request target; C26/C27) and `host` = ctx.Host().  Configuration values that come from the FS struct
   after initRequestHandler (root, compressRoot, index names, the suffix of the negotiated encoding) are parameters.
   hasWindowsReservedPathColon is constant false on this build (fs_unix.go). *)
From FH Require Import Model.Base Gen.GenC26 Gen.GenC23 Model.PathNorm.
Open Scope N_scope.

(* func (u *URI) Path() *)
Definition uriPath (path : bytes) : bytes := match path with [] => strSlash | _ => path end.

(* ctx.Path() for a request whose URI has pathOriginal = reqPath *)
Definition ctxPath (reqPath : bytes) : bytes := uriPath (normalizePath reqPath).

Inductive strip_res := SOk (p : bytes) | SPanic.     (* SPanic: panic("BUG: path must start with slash") *)

(* func stripLeadingSlashes(path []byte, stripSlashes int) []byte ;  k = max(stripSlashes, 0) *)
Fixpoint stripLeadingSlashes (path : bytes) (k : nat) : strip_res :=
  match k with
  | O => SOk path
  | S k' =>
      match path with
      | [] => SOk path                                         (* len(path) > 0 fails *)
      | c :: r =>
          if c =? SLASH then
            match indexByte r SLASH with                       (* n := IndexByte(path[1:], '/') *)
            | None => SOk []                                   (* path = path[:0]; break *)
            | Some n => stripLeadingSlashes (skipn n r) k'     (* path = path[n+1:] *)
            end
          else SPanic
      end
  end.

(* func hasDotDotPathSegment(path []byte) bool ;  seg = path[segmentStart:i] *)
Definition dotdot : bytes := [DOT; DOT].
Fixpoint hasDotDot_loop (path seg : bytes) : bool :=
  match path with
  | [] => beq seg dotdot                                       (* the return after the loop *)
  | c :: r =>
      if c =? SLASH then (if beq seg dotdot then true else hasDotDot_loop r [])
      else hasDotDot_loop r (seg ++ [c])
  end.
Definition hasDotDotPathSegment (path : bytes) : bool := hasDotDot_loop path [].

(* ---- path rewriters ---- *)
Inductive rewriter := RNone | RVHost (k : nat) | RSlashes (k : nat) | RPrefix (k : nat).
Inductive rw_res := RwOk (p : bytes) | RwPanic.

(* NewVHostPathRewriter(k) *)
Definition vhostRewrite (k : nat) (path0 host : bytes) : rw_res :=
  match stripLeadingSlashes path0 k with
  | SPanic => RwPanic
  | SOk path =>
      let host := match indexByte host SLASH with Some _ => [] | None => host end in
      let host := match host with [] => strInvalidHost | _ => host end in
      (* ctx.URI().SetPathBytes('/' + host + path); return ctx.Path() *)
      RwOk (uriPath (normalizePath ((SLASH :: host) ++ path)))
  end.

(* NewPathSlashesStripper(k) *)
Definition slashesRewrite (k : nat) (path0 : bytes) : rw_res :=
  match stripLeadingSlashes path0 k with SPanic => RwPanic | SOk p => RwOk p end.

(* NewPathPrefixStripper(k) *)
Definition prefixRewrite (k : nat) (path0 : bytes) : rw_res :=
  RwOk (if Nat.leb k (length path0) then skipn k path0 else path0).

Definition rewrite (rw : rewriter) (path0 host : bytes) : rw_res :=
  match rw with
  | RNone => RwOk path0
  | RVHost k => vhostRewrite k path0 host
  | RSlashes k => slashesRewrite k path0
  | RPrefix k => prefixRewrite k path0
  end.

(* ---- configuration after initRequestHandler ---- *)
Record fscfg := mkCfg {
  osfs : bool;                 (* h.filesystem is *osFS *)
  root : bytes;                (* h.root *)
  compressRoot : bytes;        (* h.compressRoot *)
  indexNames : list bytes;     (* h.indexNames *)
  rw : rewriter;               (* h.pathRewrite *)
}.

Definition dotS : bytes := [DOT].

(* func (h *fsHandler) pathToFilePath(path []byte, hasTrailingSlash bool) string ; filepath.FromSlash = id *)
Definition pathToFilePath (c : fscfg) (path : bytes) (hasTrailingSlash : bool) : bytes :=
  let path := if hasTrailingSlash then firstn (length path - 1) path else path in
  let hasLeadingSlash := match path with ch :: _ => ch =? SLASH | [] => false end in
  if negb (osfs c) then
    let root' := if beq (root c) dotS then [] else root c in
    if Nat.ltb (length path) 1 || (hasLeadingSlash && Nat.eqb (length path) 1) then
      (if beq (root c) dotS then dotS else root')
    else
      match root' with
      | [] => if hasLeadingSlash then tl path else path
      | _ => root' ++ [SLASH] ++ (if hasLeadingSlash then tl path else path)
      end
  else
    if hasLeadingSlash then root c ++ path
    else (root c ++ (if negb (beq (root c) []) && negb (beq path []) then [SLASH] else [])) ++ path.

(* func (h *fsHandler) filePathToCompressed(filePath string) string *)
Definition filePathToCompressed (c : fscfg) (filePath : bytes) : bytes :=
  if beq (root c) (compressRoot c) then filePath
  else if negb (hasPrefix filePath (root c)) then filePath
  else compressRoot c ++ skipn (length (root c)) filePath.

(* ---- the top of handleRequest ---- *)
Inductive outcome :=
| Panicked                                   (* a rewriter panicked *)
| Reject400                                  (* NUL byte: ctx.Error("Are you a hacker?", 400) *)
| Reject500                                  (* '..' segment after rewriting: 500 *)
| Serve (path filePath : bytes) (hasTrailingSlash : bool).

Definition isRNone (r : rewriter) : bool := match r with RNone => true | _ => false end.

Definition handle (c : fscfg) (reqPath host : bytes) : outcome :=
  match rewrite (rw c) (ctxPath reqPath) host with
  | RwPanic => Panicked
  | RwOk path =>
      let hasTrailingSlash := match rev path with ch :: _ => ch =? SLASH | [] => false end in
      match indexByte path 0 with
      | Some _ => Reject400
      | None =>
          if negb (isRNone (rw c)) && hasDotDotPathSegment path then Reject500
          else Serve path (pathToFilePath c path hasTrailingSlash) hasTrailingSlash
      end
  end.

(* ---- file names derived from filePath ----
   sfx = Some suffix when mustCompress (h.compressedFileSuffixes[fileEncoding]), None otherwise.
   Each name is tagged with the directory tree it belongs to by design. *)
Inductive tree := InRoot | InCompressRoot.

(* openFSFile(filePath, mustCompress, enc) and what it may call *)
Definition openFSFile_names (c : fscfg) (filePath : bytes) (sfx : option bytes) : list (tree * bytes) :=
  match sfx with
  | None => [(InRoot, filePath)]                                         (* h.filesystem.Open(filePath) *)
  | Some s =>
      [ (InRoot, filePath ++ s);                                         (* Open(filePath+suffix), os.Remove when stale *)
        (InRoot, filePath);                                              (* fs.Stat(filePathOriginal); compressAndOpenFSFile: Open(filePath) *)
        (InCompressRoot, filePathToCompressed c filePath ++ s) ]         (* os.Stat / CreateTemp(Dir, Base+".tmp-*") / Rename / Open *)
  end.

(* openIndexFile(ctx, dirPath, ...): indexFilePath, and ReadDir(dirPath or ".") in createDirIndex *)
Definition indexFilePath (dirPath name : bytes) : bytes :=
  match dirPath with [] => name | _ => dirPath ++ [SLASH] ++ name end.

Definition openIndexFile_names (c : fscfg) (dirPath : bytes) (sfx : option bytes) : list (tree * bytes) :=
  flat_map (fun name => openFSFile_names c (indexFilePath dirPath name) sfx) (indexNames c)
  ++ [(InRoot, match dirPath with [] => dotS | _ => dirPath end)].

(* len(bytes.Trim(path, "/")) > 0 : some byte of path is not '/' *)
Definition trimmedNonEmpty (path : bytes) : bool := existsb (fun ch => negb (ch =? SLASH)) path.

(* every name handleRequest may pass to the filesystem for this request (which of them it does pass
   depends on what exists on disk).
     mustCompressFile := mustCompress && len(bytes.Trim(path, "/")) > 0
     ff, err = h.openFSFile(filePath, mustCompressFile, fileEncoding)
     ... errDirIndexRequired && hasTrailingSlash: h.openIndexFile(ctx, filePath, mustCompress, fileEncoding) *)
Definition candidate_names (c : fscfg) (reqPath host : bytes) (sfx : option bytes) : list (tree * bytes) :=
  match handle c reqPath host with
  | Serve path filePath hasTrailingSlash =>
      let sfxFile := if trimmedNonEmpty path then sfx else None in
      openFSFile_names c filePath sfxFile ++
      (if hasTrailingSlash then openIndexFile_names c filePath sfx else [])
  | _ => []
  end.
