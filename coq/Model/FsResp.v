(* Model/FsResp.v — the decision fsHandler.handleRequest (fs.go) takes for a REGULAR FILE that exists, as a
   function of the file (size, modification time), the request (method, Range, If-Modified-Since,
   Accept-Encoding) and the handler configuration (AcceptByteRange, Compress with gzip only).
   Modelled: the Accept-Encoding test (RequestHeader.HasAcceptEncodingBytes), RequestCtx.IfModifiedSince on the
   date model (Model/DateIP.v; the time.Parse fallback of ParseHTTPDate is not modelled: a date the fast parser
   declines counts as unparsable), the byte-range branch (ParseByteRange, UpdateByteRange of both readers as the
   slice they deliver, SetContentRange, 206/416), HEAD handling, Last-Modified (AppendHTTPDate as the C31
   formatter), the choice of the content coding (br / zstd / gzip) and the modification time of the compressed
   variant (compressFileNolock stamps the cache file with os.Chtimes(tmp, time.Now(), fileInfo.ModTime());
   newCompressedFSFileCache takes fileInfo.ModTime() directly).  The codecs are a variable: `compressible` says whether
   openFSFile produced a compressed variant (isFileCompressible and the compressors are not modelled) and `zlen` is
   its length.
   Path handling, directory indexes, caching and file-handle accounting belong to C23 / C25.  No proofs here. *)
From FH Require Import Model.Base Gen.GenC30 Gen.GenC24 Model.Ints Model.DateIP Spec.HttpDate Model.ByteRange.
Open Scope Z_scope.

(* bytes.Index(s, sep): None = -1 *)
Fixpoint index_sub (s sep : bytes) : option nat :=
  if hasPrefix s sep then Some O
  else match s with
       | [] => None
       | _ :: r => option_map S (index_sub r sep)
       end.
(* func (h *RequestHeader) HasAcceptEncodingBytes(acceptEncoding []byte) bool, ae = peek(Accept-Encoding) *)
Definition hasAcceptEncoding (ae enc : bytes) : bool :=
  match index_sub ae enc with
  | None => false
  | Some n =>
      let b := skipn (n + length enc) ae in
      match b with
      | c :: _ => if negb (c =? 44)%N then false
                  else match n with O => true | S m => (nth m ae 0%N =? 32)%N end
      | [] => match n with O => true | S m => (nth m ae 0%N =? 32)%N end
      end
  end.

(* func (ctx *RequestCtx) IfModifiedSince(lastModified) bool; mtime = lastModified.Truncate(time.Second) in unix seconds *)
Definition IfModifiedSince (ims : bytes) (mtime : Z) : bool :=
  match ims with
  | [] => true
  | _ => match parseRFC1123DateGMT ims with
         | None => true                       (* ParseHTTPDate error *)
         | Some ifMod => ifMod <? mtime       (* ifMod.Before(lastModified) *)
         end
  end.

(* func (h *ResponseHeader) SetContentRange(startPos, endPos, contentLength int) *)
Definition contentRangeValue (s e n : Z) : bytes :=
  strBytes ++ [32%N] ++ dec_digits s ++ [45%N] ++ dec_digits e ++ [47%N] ++ dec_digits n.

(* the content coding handleRequest negotiates: the switch over compressBrotli / compressZstd / gzip; [] = none *)
Definition chooseCoding (brotli zstd : bool) (ae : bytes) : bytes :=
  if brotli && hasAcceptEncoding ae strBr then strBr
  else if zstd && hasAcceptEncoding ae strZstd then strZstd
  else if hasAcceptEncoding ae strGzip then strGzip
  else [].

(* os.Chtimes(name, atime, mtime) as the pair of times the file ends up with *)
Definition Chtimes (atime mtime : Z) : Z * Z := (atime, mtime).
(* the modification time newCompressedFSFile / newFSFile read from the stat of the compressed cache file that
   compressFileNolock produced at time `now` from a file modified at `origMtime`:
   os.Chtimes(tmpFilePath, time.Now(), fileInfo.ModTime()) *)
Definition compressedFileMtime (now origMtime : Z) : Z := snd (Chtimes now origMtime).

(* openFSFile when a compressed sibling already exists on disk (stat mtime sibMtime): it is re-created when its
   modification time differs from the original's by a second or more in EITHER direction
   (d := fileInfoOriginal.ModTime().Sub(fileInfo.ModTime()); d >= time.Second || d <= -time.Second); otherwise the
   sibling is served as it is, with ITS modification time as ff.lastModified.  Times are whole seconds here: the
   sub-second tolerance of the code is below the model's resolution. *)
Definition siblingStale (origMtime sibMtime : Z) : bool :=
  let d := origMtime - sibMtime in (d >=? 1) || (d <=? -1).
Definition compressedVariantMtime (now origMtime : Z) (sibling : option Z) : Z :=
  match sibling with
  | Some sm => if siblingStale origMtime sm then compressedFileMtime now origMtime else sm
  | None => compressedFileMtime now origMtime
  end.

Inductive fsbody :=
| BNone                         (* no body bytes on the wire *)
| BSlice (start len : Z)        (* the served variant's bytes [start, start+len) *)
| BError.                       (* the text of ctx.Error *)

Record fsout := FsOut {
  fo_status : Z;
  fo_contentRange : bytes;      (* Content-Range value, [] = absent *)
  fo_contentLength : Z;         (* Content-Length written; -1 = not determined by this model (error / 304) *)
  fo_body : fsbody;
  fo_coding : bytes;            (* Content-Encoding value (and Vary: Accept-Encoding), [] = identity *)
  fo_lastModified : bytes;      (* Last-Modified value, [] = absent *)
  fo_acceptRanges : bool        (* Accept-Ranges: bytes *)
}.

Definition fs_handle (size mtime now : Z) (acceptByteRange compress brotli zstd : bool) (isHead : bool) (range ims ae : bytes)
                     (compressible : bool) (zlen : Z) : fsout :=
  let byteRange := range in
  let coding := match byteRange with [] => if compress then chooseCoding brotli zstd ae else [] | _ => [] end in
  let mustCompress := match coding with [] => false | _ => true end in
  let compressed := mustCompress && compressible in                 (* ff.compressed *)
  let served := if compressed then coding else [] in
  let ffLen := if compressed then zlen else size in                  (* ff.contentLength *)
  let ffMtime := if compressed then compressedFileMtime now mtime else mtime in   (* ff.lastModified, to the second *)
  if negb (IfModifiedSince ims ffMtime) then FsOut StatusNotModified24 [] (-1) BNone [] [] false   (* ctx.NotModified() *)
  else
    let lm := spec_format_http_date ffMtime in
    let ranged := acceptByteRange && match byteRange with [] => false | _ => true end in
    if ranged then
      match ParseByteRange byteRange ffLen with
      | BRErr => FsOut StatusRequestedRangeNotSatisfiable [] (-1) (if isHead then BNone else BError) [] [] false
      | BROk s e =>
          let n := e - s + 1 in
          FsOut StatusPartialContent (contentRangeValue s e ffLen) n (if isHead then BNone else BSlice s n)
                served lm true
      end
    else
      FsOut StatusOK24 [] ffLen (if isHead then BNone else BSlice 0 ffLen) served lm acceptByteRange.
