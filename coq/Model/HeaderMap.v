(* Model/HeaderMap.v — the header API of header.go seen as a map: on top of the setter model of
   Model/HeaderWrite.v (records `resp` / `req`, RSet / RAdd / QSet / QAdd, setSpecialHeader, Rpeek / Qpeek,
   collectCookies) this file models the remaining functions the C29 property talks about:
     ResponseHeader / RequestHeader: del (Del, DelBytes), peekAll (PeekAll), All (VisitAll), PeekKeys, Len,
     CopyTo, and the special getters ContentType() / ContentEncoding() / Server() / Host() / UserAgent() /
     ContentLength() / ConnectionClose();  args.go: peekAllArgBytesToDst.
   Representation as in HeaderWrite.v: []argsKV = list of (key, value) in slice order; the scratch buffers bufK /
   bufV / mulHeader are not state.  RequestHeader.All() calls collectCookies(), so iterating a request header is a
   state change: QAll returns the new state together with the yielded pairs.  No proofs in this file. *)
From FH Require Import Model.Base Gen.GenC05 Gen.GenC06 Model.Ints Model.ByteClassModel Model.Cookie Model.HeaderWrite.
Open Scope N_scope.

(* func peekAllArgBytesToDst(dst [][]byte, h []argsKV, k []byte) [][]byte  (dst = mulHeader[:0]) *)
Fixpoint peekAllArgs (h : kvs) (k : bytes) : list bytes :=
  match h with
  | [] => []
  | (k', v) :: r => if beq k' k then v :: peekAllArgs r k else peekAllArgs r k
  end.

Definition opt1 (v : bytes) : list bytes := match v with [] => [] | _ => [v] end.
Definition optkv (k v : bytes) : kvs := match v with [] => [] | _ => [(k, v)] end.

(* ====================== ResponseHeader ====================== *)

(* func (h *ResponseHeader) del(key []byte) *)
Definition Rdel (r : resp) (key : bytes) : resp :=
  let x := rh r in
  let r1 :=
    if beq key strContentType then with_rh r (with_hct x [])
    else if beq key strContentEncoding then with_rce r []
    else if beq key strServer then with_rserver r []
    else if beq key strSetCookie then with_rh r (with_hcookies x [])
    else if beq key strContentLength then with_rh r (with_hclb (with_hcl x 0%Z) [])
    else if beq key strConnection then with_rh r (with_hclose x false)
    else if beq key strTrailer then with_rh r (with_htrailer x [])
    else r in
  with_rh r1 (with_hh (rh r1) (delAllArgsStable (hh (rh r1)) key)).
(* Del / DelBytes *)
Definition RDel (r : resp) (key : bytes) : resp := Rdel r (getHeaderKeyBytes key (hdisableNorm (rh r))).

(* func (h *ResponseHeader) peekAll(key []byte) [][]byte *)
Definition RpeekAll (r : resp) (key : bytes) : list bytes :=
  let x := rh r in
  if beq key strContentType then opt1 (RContentType r)
  else if beq key strContentEncoding then opt1 (rce r)
  else if beq key strServer then opt1 (rserver r)
  else if beq key strConnection then (if hclose x then [strClose] else peekAllArgs (hh x) key)
  else if beq key strContentLength then opt1 (hclb x)
  else if beq key strSetCookie then
    (match hcookies x with [] => [] | cs => [appendResponseCookieBytes [] cs] end)
  else if beq key strTrailer then
    (match htrailer x with [] => [] | tr => [appendTrailerBytes [] tr strCommaSpace] end)
  else peekAllArgs (hh x) key.
(* Peek / PeekBytes and PeekAll normalise the key first *)
Definition RPeek (r : resp) (key : bytes) : bytes := Rpeek r (getHeaderKeyBytes key (hdisableNorm (rh r))).
Definition RPeekAll (r : resp) (key : bytes) : list bytes := RpeekAll r (getHeaderKeyBytes key (hdisableNorm (rh r))).

(* func (h *ResponseHeader) All(): the yielded pairs in order *)
Definition RAll (r : resp) : kvs :=
  let x := rh r in
  optkv strContentLength (hclb x)
  ++ optkv strContentType (RContentType r)
  ++ optkv strContentEncoding (rce r)
  ++ optkv strServer (rserver r)
  ++ map (fun kv => (strSetCookie, snd kv)) (hcookies x)
  ++ (match htrailer x with [] => [] | tr => [(strTrailer, appendTrailerBytes [] tr strCommaSpace)] end)
  ++ hh x
  ++ (if hclose x then [(strConnection, strClose)] else []).
Definition RPeekKeys (r : resp) : list bytes := map fst (RAll r).
Definition RLen (r : resp) : Z := Z.of_nat (length (RAll r)).

(* func (h *ResponseHeader) CopyTo(dst): dst.Reset() then every modelled field is copied *)
Definition RCopyTo (r : resp) : resp := r.

(* special getters *)
Definition RContentEncoding (r : resp) : bytes := rce r.
Definition RServer (r : resp) : bytes := rserver r.
Definition RContentLength (r : resp) : Z := hcl (rh r).
Definition RConnectionClose (r : resp) : bool := hclose (rh r).

(* ====================== RequestHeader ====================== *)

(* func (h *RequestHeader) del(key []byte) *)
Definition Qdel (q : req) (key : bytes) : req :=
  let x := qh q in
  let q1 :=
    if beq key strHost then with_qhost q []
    else if beq key strContentType then with_qh q (with_hct x [])
    else if beq key strUserAgent then with_qua q []
    else if beq key strCookie then with_qh q (with_hcookies x [])
    else if beq key strContentLength then with_qh q (with_hclb (with_hcl x 0%Z) [])
    else if beq key strConnection then with_qh q (with_hclose x false)
    else if beq key strTrailer then with_qh q (with_htrailer x [])
    else q in
  with_qh q1 (with_hh (qh q1) (delAllArgsStable (hh (qh q1)) key)).
Definition QDel (q : req) (key : bytes) : req := Qdel q (getHeaderKeyBytes key (hdisableNorm (qh q))).

(* func (h *RequestHeader) peekAll(key []byte) [][]byte *)
Definition QpeekAll (q : req) (key : bytes) : list bytes :=
  let x := qh q in
  if beq key strHost then opt1 (QHost q)
  else if beq key strContentType then opt1 (QContentType q)
  else if beq key strUserAgent then opt1 (QUserAgent q)
  else if beq key strConnection then (if hclose x then [strClose] else peekAllArgs (hh x) key)
  else if beq key strContentLength then opt1 (hclb x)
  else if beq key strCookie then
    (if negb (qcookiesCollected q) then peekAllArgs (hh x) key
     else match hcookies x with [] => [] | cs => [appendRequestCookieBytes [] cs] end)
  else if beq key strTrailer then
    (match htrailer x with [] => [] | tr => [appendTrailerBytes [] tr strCommaSpace] end)
  else peekAllArgs (hh x) key.
Definition QPeek (q : req) (key : bytes) : bytes := Qpeek q (getHeaderKeyBytes key (hdisableNorm (qh q))).
Definition QPeekAll (q : req) (key : bytes) : list bytes := QpeekAll q (getHeaderKeyBytes key (hdisableNorm (qh q))).

(* func (h *RequestHeader) All(): the state after the iteration (cookies collected) and the yielded pairs *)
Definition QAll (q : req) : req * kvs :=
  let q' := collectCookies q in
  let x := qh q' in
  (q',
   optkv strHost (QHost q)
   ++ optkv strContentLength (hclb (qh q))
   ++ optkv strContentType (QContentType q)
   ++ optkv strUserAgent (QUserAgent q)
   ++ (match htrailer (qh q) with [] => [] | tr => [(strTrailer, appendTrailerBytes [] tr strCommaSpace)] end)
   ++ (match hcookies x with [] => [] | cs => [(strCookie, appendRequestCookieBytes [] cs)] end)
   ++ hh x
   ++ (if hclose x then [(strConnection, strClose)] else [])).
Definition QPeekKeys (q : req) : req * list bytes := let '(q', l) := QAll q in (q', map fst l).
Definition QLen (q : req) : req * Z := let '(q', l) := QAll q in (q', Z.of_nat (length l)).

(* func (h *RequestHeader) CopyTo(dst): dst.Reset() clears disableSpecialHeader, which copyTo does not copy *)
Definition QCopyTo (q : req) : req := with_qdisableSpecial q false.

Definition QContentLength (q : req) : Z := hcl (qh q).      (* with special headers enabled *)
Definition QConnectionClose (q : req) : bool := hclose (qh q).

(* ====================== operation sequences of the C29 property ====================== *)
Inductive hop := HSet (k v : bytes) | HAdd (k v : bytes) | HDel (k : bytes) | HCopy.

Definition rstep29 (r : resp) (o : hop) : resp :=
  match o with
  | HSet k v => RSet r k v
  | HAdd k v => RAdd r k v
  | HDel k => RDel r k
  | HCopy => RCopyTo r
  end.
Definition qstep29 (q : req) (o : hop) : req :=
  match o with
  | HSet k v => QSet q k v
  | HAdd k v => QAdd q k v
  | HDel k => QDel q k
  | HCopy => QCopyTo q
  end.

(* initial states: a zero header value after DisableNormalizing() / SetNoDefaultContentType(true) when asked *)
Definition rinit (nonorm nodefct : bool) : resp :=
  with_rh emptyResp (with_hnoDefCT (with_hdisableNorm emptyHdr nonorm) nodefct).
Definition qinit (nonorm nodefct : bool) : req :=
  with_qh emptyReq (with_hnoDefCT (with_hdisableNorm emptyHdr nonorm) nodefct).
