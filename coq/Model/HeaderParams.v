(* HeaderParams.v — model of header.go VisitHeaderParams (owner: C08), Go's bounds checks explicit (Model/Lines.v
   conventions: idx / slice return Panic, loops whose progress is not structural run on fuel).
   The callback is modelled as "always continue": the result is the list of (key, value) pairs f is called with,
   in order.  Quoted values are handed over raw (between the quotes), as the Go code does. *)
From FH Require Import Model.Base Gen.GenC32 Model.ByteClassModel Model.Lines.
Open Scope nat_scope.

Fixpoint take_while_len (f : N -> bool) (b : bytes) : nat :=
  match b with [] => 0 | c :: r => if f c then S (take_while_len f r) else 0 end.

(* the quoted-value loop `for ; n < len(b); n++ { if b[n] == DQUOTE && !escaping { found; break };
   escaping = b[n] == BACKSLASH && !escaping }` over b[m:]: offset of the closing quote *)
Fixpoint quote_end (b : bytes) (escaping : bool) : option nat :=
  match b with
  | [] => None
  | c :: r => if N.eqb c DQ && negb escaping then Some 0
              else option_map S (quote_end r (N.eqb c BSL && negb escaping))
  end.

Fixpoint vhp_loop (fuel : nat) (b : bytes) (acc : list (bytes * bytes)) : R (list (bytes * bytes)) :=
  match fuel with
  | O => OutOfFuel
  | S f =>
      match b with
      | [] => Ok acc                                                   (* for len(b) > 0 *)
      | _ =>
          match index_byte b SEMI with
          | None => Ok acc                                             (* idxSemi >= len(b) *)
          | Some i =>
              do b1 <- slice b (i + 1) (length b);
              let b2 := drop_while is_sp b1 in                         (* for len(b) > 0 && b[0] == ' ' *)
              match b2 with
              | [] => Ok acc
              | c0 :: _ =>
                  if negb (validHeaderFieldByte c0) then Ok acc
                  else
                    let n := take_while_len validHeaderFieldByte b2 in (* n++; for n < len(b) && valid(b[n]) *)
                    if length b2 - 1 <=? n then Ok acc                 (* n >= len(b)-1 *)
                    else
                      do c <- idx b2 n;                                (* || b[n] != '=' *)
                      if negb (N.eqb c EQS) then Ok acc
                      else
                        do param <- slice b2 0 n;
                        let n1 := n + 1 in
                        do c1 <- idx b2 n1;                            (* switch: b[n] after n++ *)
                        if validHeaderFieldByte c1 then
                          let n2 := n1 + take_while_len validHeaderFieldByte (skipn n1 b2) in
                          do v <- slice b2 n1 n2;
                          do rest <- slice b2 n2 (length b2);
                          vhp_loop f rest (acc ++ [(param, v)])
                        else if N.eqb c1 DQ then
                          let m := n1 + 1 in
                          match quote_end (skipn m b2) false with
                          | None => Ok acc                             (* !foundEndQuote *)
                          | Some k =>
                              do v <- slice b2 m (m + k);
                              do rest <- slice b2 (m + k + 1) (length b2);
                              vhp_loop f rest (acc ++ [(param, v)])
                          end
                        else Ok acc
              end
          end
      end
  end.

Definition VisitHeaderParams (b : bytes) : R (list (bytes * bytes)) := vhp_loop (S (length b)) b [].
