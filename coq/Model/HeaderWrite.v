(* Model of the header setters and of header serialisation in header.go / status.go / http.go:
   RequestHeader and ResponseHeader as records of byte strings, every Set*/Add* that can put caller bytes
   on the wire, setSpecialHeader, trailers, AppendBytes / TrailerHeader, formatStatusLine, and the header
   part of Request.Write / Response.Write; plus the CONNECT request of fasthttpproxy.httpProxyDial.
   String constants come from Gen/GenC05.v, the cookie functions from Model/Cookie.v.

   Representation: []argsKV = list of (key, value) pairs in slice order (spare capacity is not observable
   through the functions modelled here); Go int = Z; scratch buffers bufK/bufV are not state (each setter
   overwrites them before reading).  noHTTP11 / secureErrorLogMessage / mulHeader / rawHeaders do not influence
   the serialisation and are left out. *)
From FH Require Import Model.Base Gen.GenC05 Gen.GenC06 Model.Ints Model.ByteClassModel Model.Cookie.
Open Scope N_scope.

(* ---------- args helpers used on h.h ---------- *)
(* delAllArgsStable: entries with the key are removed, the others keep their order *)
Fixpoint delAllArgsStable (h : kvs) (key : bytes) : kvs :=
  match h with
  | [] => []
  | (k, v) :: r => if beq key k then delAllArgsStable r key else (k, v) :: delAllArgsStable r key
  end.

Fixpoint peekArgBytes (h : kvs) (k : bytes) : bytes :=
  match h with
  | [] => []
  | (k', v) :: r => if beq k' k then v else peekArgBytes r k
  end.

(* headerscanner.go trim: SP and HT on both sides *)
Fixpoint dropWS (s : bytes) : bytes :=
  match s with
  | c :: r => if (c =? 32) || (c =? 9) then dropWS r else s
  | [] => []
  end.
Definition trim (s : bytes) : bytes := rev (dropWS (rev (dropWS s))).

Definition parseContentLength (b : bytes) : option Z := pres_opt (ParseUint 64 b).

(* hasHeaderValue(s, value): headerValueScanner.next cuts s at ',' (a trailing empty element after a final comma is not
   visited), stripSpace removes outer spaces, caseInsensitiveCompare against value *)
Definition stripSpace (b : bytes) : bytes := trim b.  (* SP and HT on both sides (commit c40b715) *)
Fixpoint hhv_loop (fuel : nat) (b value : bytes) : bool :=
  match fuel with
  | O => false
  | S f =>
      match b with
      | [] => false
      | _ =>
          let '(before, after) := split_at 44 b in
          if caseInsensitiveCompare (stripSpace before) value then true
          else match after with Some r => hhv_loop f r value | None => false end
      end
  end.
Definition hasHeaderValue (s value : bytes) : bool := hhv_loop (length s) s value.

(* ---------- the embedded `header` struct ---------- *)
Record hdr := mkHdr {
  hh : kvs; hcookies : kvs; hclb : bytes (* contentLengthBytes *); hct : bytes (* contentType *);
  hproto : bytes; htrailer : list bytes; hcl : Z (* contentLength *);
  hdisableNorm : bool; hclose : bool; hnoDefCT : bool }.
Definition emptyHdr : hdr := mkHdr [] [] [] [] [] [] 0%Z false false false.

Definition with_hh x a := mkHdr a (hcookies x) (hclb x) (hct x) (hproto x) (htrailer x) (hcl x) (hdisableNorm x) (hclose x) (hnoDefCT x).
Definition with_hcookies x a := mkHdr (hh x) a (hclb x) (hct x) (hproto x) (htrailer x) (hcl x) (hdisableNorm x) (hclose x) (hnoDefCT x).
Definition with_hclb x a := mkHdr (hh x) (hcookies x) a (hct x) (hproto x) (htrailer x) (hcl x) (hdisableNorm x) (hclose x) (hnoDefCT x).
Definition with_hct x a := mkHdr (hh x) (hcookies x) (hclb x) a (hproto x) (htrailer x) (hcl x) (hdisableNorm x) (hclose x) (hnoDefCT x).
Definition with_hproto x a := mkHdr (hh x) (hcookies x) (hclb x) (hct x) a (htrailer x) (hcl x) (hdisableNorm x) (hclose x) (hnoDefCT x).
Definition with_htrailer x a := mkHdr (hh x) (hcookies x) (hclb x) (hct x) (hproto x) a (hcl x) (hdisableNorm x) (hclose x) (hnoDefCT x).
Definition with_hcl x a := mkHdr (hh x) (hcookies x) (hclb x) (hct x) (hproto x) (htrailer x) a (hdisableNorm x) (hclose x) (hnoDefCT x).
Definition with_hdisableNorm x a := mkHdr (hh x) (hcookies x) (hclb x) (hct x) (hproto x) (htrailer x) (hcl x) a (hclose x) (hnoDefCT x).
Definition with_hclose x a := mkHdr (hh x) (hcookies x) (hclb x) (hct x) (hproto x) (htrailer x) (hcl x) (hdisableNorm x) a (hnoDefCT x).
Definition with_hnoDefCT x a := mkHdr (hh x) (hcookies x) (hclb x) (hct x) (hproto x) (htrailer x) (hcl x) (hdisableNorm x) (hclose x) a.

Definition hSetConnectionClose (x : hdr) : hdr := with_hclose x true.
Definition hResetConnectionClose (x : hdr) : hdr :=
  if hclose x then with_hh (with_hclose x false) (delAllArgsStable (hh x) strConnection) else x.
Definition hSetContentTypeBytes (x : hdr) (ct : bytes) : hdr := with_hct x (initHeaderValueBytes ct).
Definition hsetNonSpecial (x : hdr) (key value : bytes) : hdr := with_hh x (setArg (hh x) key value).
Definition hProtocol (x : hdr) : bytes := match hproto x with [] => strHTTP11 | p => p end.

(* ---------- trailers ---------- *)
Definition isValidTrailerKey (key : bytes) : bool :=
  match key with [] => false | _ => forallb validHeaderFieldByte key end.

Definition ci := caseInsensitiveCompare.
Definition isBadTrailer (key : bytes) : bool :=
  match key with
  | [] => true
  | c0 :: _ =>
      let f := N.lor c0 32 in
      if f =? 97 (* a *) then ci key strAuthorization
      else if f =? 99 (* c *) then
        if (length strContentType <=? length key)%nat && ci (firstn 8 key) (firstn 8 strContentType) then
          ci (skipn 8 key) (skipn 8 strContentEncoding) || ci (skipn 8 key) (skipn 8 strContentLength) ||
          ci (skipn 8 key) (skipn 8 strContentType) || ci (skipn 8 key) (skipn 8 strContentRange)
        else ci key strConnection || ci key strCookie
      else if f =? 101 (* e *) then ci key strExpect
      else if f =? 104 (* h *) then ci key strHost
      else if f =? 107 (* k *) then ci key strKeepAlive
      else if f =? 108 (* l *) then ci key strLocation
      else if f =? 109 (* m *) then ci key strMaxForwards
      else if f =? 112 (* p *) then
        if (length strProxyConnection <=? length key)%nat && ci (firstn 6 key) (firstn 6 strProxyConnection) then
          ci (skipn 6 key) (skipn 6 strProxyConnection) || ci (skipn 6 key) (skipn 6 strProxyAuthenticate) ||
          ci (skipn 6 key) (skipn 6 strProxyAuthorization)
        else false
      else if f =? 114 (* r *) then ci key strRange
      else if f =? 115 (* s *) then ci key strSetCookie
      else if f =? 116 (* t *) then ci key strTE || ci key strTrailer || ci key strTransferEncoding
      else if f =? 119 (* w *) then ci key strWWWAuthenticate
      else if f =? 120 (* x *) then
        ((11 <=? length key)%nat && ci (firstn 11 key) (s2b "x-forwarded")) ||
        ((9 <=? length key)%nat && ci (firstn 9 key) (s2b "x-real-ip"))
      else false
  end.

(* AddTrailerBytes: the comma loop.  t is non-empty on entry of every iteration (loop test i+1 < len). *)
Fixpoint atb_loop (fuel : nat) (t : bytes) (tr : list bytes) (err : bool) (disable : bool) : list bytes * bool :=
  match fuel with
  | O => (tr, err)
  | S f =>
      let '(seg, after) := split_at 44 t in
      let key := trim seg in
      let '(tr', err') :=
        if negb (isValidTrailerKey key) || isBadTrailer key then (tr, true)
        else (tr ++ [normalizeHeaderKeyValidated key disable], err) in
      match after with
      | Some (c :: r) => atb_loop f (c :: r) tr' err' disable
      | _ => (tr', err')
      end
  end.
Definition hAddTrailerBytes (x : hdr) (trailer : bytes) : hdr * bool :=
  match trailer with
  | [] => (x, false)
  | _ => let '(tr, err) := atb_loop (length trailer) trailer (htrailer x) false (hdisableNorm x) in
         (with_htrailer x tr, err)
  end.
Definition hSetTrailerBytes (x : hdr) (trailer : bytes) : hdr * bool :=
  hAddTrailerBytes (with_htrailer x []) trailer.

Fixpoint appendTrailerBytes (dst : bytes) (trailer : list bytes) (sep : bytes) : bytes :=
  match trailer with
  | [] => dst
  | [t] => dst ++ t
  | t :: r => appendTrailerBytes (dst ++ t ++ sep) r sep
  end.

Definition appendHeaderLine (dst key value : bytes) : bytes := dst ++ key ++ strColonSpace ++ value ++ strCRLF.

Definition in_trailer (tr : list bytes) (k : bytes) : bool := existsb (fun t => beq k t) tr.

(* key normalisation used by every keyed setter *)
Definition getHeaderKeyBytes (key : bytes) (disable : bool) : bytes := normalizeHeaderKey key disable.

(* ====================== ResponseHeader ====================== *)
Record resp := mkResp {
  rh : hdr; rstatusMsg : bytes; rce : bytes (* contentEncoding *); rserver : bytes; rstatus : Z; rnoDefDate : bool }.
Definition emptyResp : resp := mkResp emptyHdr [] [] [] 0%Z false.
Definition with_rh r a := mkResp a (rstatusMsg r) (rce r) (rserver r) (rstatus r) (rnoDefDate r).
Definition with_rstatusMsg r a := mkResp (rh r) a (rce r) (rserver r) (rstatus r) (rnoDefDate r).
Definition with_rce r a := mkResp (rh r) (rstatusMsg r) a (rserver r) (rstatus r) (rnoDefDate r).
Definition with_rserver r a := mkResp (rh r) (rstatusMsg r) (rce r) a (rstatus r) (rnoDefDate r).
Definition with_rstatus r a := mkResp (rh r) (rstatusMsg r) (rce r) (rserver r) a (rnoDefDate r).
Definition with_rnoDefDate r a := mkResp (rh r) (rstatusMsg r) (rce r) (rserver r) (rstatus r) a.

Definition RStatusCode (r : resp) : Z := if (rstatus r =? 0)%Z then StatusOK else rstatus r.
Definition RSetStatusCode (r : resp) (n : Z) : resp := with_rstatus r n.
Definition RSetStatusMessage (r : resp) (m : bytes) : resp := with_rstatusMsg r (initHeaderValueBytes m).
Definition RSetProtocol (r : resp) (p : bytes) : resp := with_rh r (with_hproto (rh r) (initHeaderValueBytes p)).
Definition RSetContentTypeBytes (r : resp) (v : bytes) : resp := with_rh r (hSetContentTypeBytes (rh r) v).
Definition RSetContentEncodingBytes (r : resp) (v : bytes) : resp := with_rce r (initHeaderValueBytes v).
Definition RSetServerBytes (r : resp) (v : bytes) : resp := with_rserver r (initHeaderValueBytes v).
Definition RSetConnectionClose (r : resp) : resp := with_rh r (hSetConnectionClose (rh r)).
Definition RResetConnectionClose (r : resp) : resp := with_rh r (hResetConnectionClose (rh r)).

Definition mustSkipContentLength (r : resp) : bool :=
  let sc := RStatusCode r in
  if (sc <? 100)%Z || (sc =? StatusOK)%Z then false
  else (sc =? StatusNotModified)%Z || (sc =? StatusNoContent)%Z || (sc <? 200)%Z.

Definition RSetContentLength (r : resp) (n : Z) : resp :=
  if mustSkipContentLength r then r
  else
    let x := with_hcl (rh r) n in
    if (0 <=? n)%Z then with_rh r (with_hh (with_hclb x (dec_digits n)) (delAllArgsStable (hh x) strTransferEncoding))
    else if (n =? -1)%Z then with_rh r (with_hh (with_hclb x []) (setArg (hh x) strTransferEncoding strChunked))
    else with_rh r (hSetConnectionClose x).

Definition RSetTrailerBytes (r : resp) (t : bytes) : resp := with_rh r (fst (hSetTrailerBytes (rh r) t)).
Definition RAddTrailerBytes (r : resp) (t : bytes) : resp := with_rh r (fst (hAddTrailerBytes (rh r) t)).

(* setSpecialHeader: Some r' when the header was consumed *)
Definition RsetSpecialHeader (r : resp) (key value : bytes) : option resp :=
  match key with
  | [] => None
  | c0 :: _ =>
      let f := N.lor c0 32 in
      if f =? 99 (* c *) then
        if ci strContentType key then Some (RSetContentTypeBytes r value)
        else if ci strContentLength key then
          match parseContentLength value with
          | Some n => (* a length replaces an earlier SetContentLength(-1): Transfer-Encoding is dropped *)
              Some (with_rh r (with_hh (with_hclb (with_hcl (rh r) n) value) (delAllArgsStable (hh (rh r)) strTransferEncoding)))
          | None => Some r
          end
        else if ci strContentEncoding key then Some (RSetContentEncodingBytes r value)
        else if ci strConnection key then
          if hasHeaderValue value strClose then
            (* SetConnectionClose, then "Connection can only be set once: drop an earlier value" *)
            Some (with_rh r (with_hh (hSetConnectionClose (rh r)) (delAllArgsStable (hh (rh r)) key)))
          else Some (with_rh r (hsetNonSpecial (hResetConnectionClose (rh r)) key value))
        else None
      else if f =? 115 (* s *) then
        if ci strServer key then Some (RSetServerBytes r value)
        else if ci strSetCookie key then
          Some (with_rh r (with_hcookies (rh r) (hcookies (rh r) ++ [(getCookieKey value, value)])))
        else None
      else if f =? 116 (* t *) then
        if ci strTransferEncoding key then Some r
        else if ci strTrailer key then Some (RSetTrailerBytes r value)
        else None
      else if f =? 100 (* d *) then
        if ci strDate key then Some r else None
      else None
  end.

(* SetCanonical: the key is taken AS IS *)
Definition RSetCanonical (r : resp) (key value : bytes) : resp :=
  let bufV := initHeaderValueBytes value in
  match RsetSpecialHeader r key bufV with
  | Some r' => r'
  | None => with_rh r (hsetNonSpecial (rh r) key bufV)
  end.
(* Set / SetBytesK / SetBytesV / SetBytesKV: normalizeHeaderKey then SetCanonical *)
Definition RSet (r : resp) (key value : bytes) : resp :=
  RSetCanonical r (getHeaderKeyBytes key (hdisableNorm (rh r))) value.
(* Add / AddBytesK / AddBytesV / AddBytesKV *)
Definition RAdd (r : resp) (key value : bytes) : resp :=
  let bufK := getHeaderKeyBytes key (hdisableNorm (rh r)) in
  let bufV := initHeaderValueBytes value in
  match RsetSpecialHeader r bufK bufV with
  | Some r' => r'
  | None => with_rh r (with_hh (rh r) (appendArg (hh (rh r)) bufK bufV))
  end.
(* ResponseHeader.SetCookie(cookie) *)
Definition RSetCookie (r : resp) (c : cookie) : resp :=
  let bufK := initHeaderValueBytes (ck_key c) in
  let bufV := initHeaderValueBytes (Cookie_ c) in
  with_rh r (with_hcookies (rh r) (setArg (hcookies (rh r)) bufK bufV)).

Section StatusText.
  (* status.go StatusMessage(code): the keyed table statusMessages cannot be regenerated by the translator;
     it is a parameter (the harness passes the real function's answers). *)
  Variable StatusMessage : Z -> bytes.

  Definition appendStatusCode (dst : bytes) (sc : Z) : bytes :=
    if (100 <=? sc)%Z && (sc <=? 999)%Z then
      dst ++ [Z.to_N (48 + sc / 100); Z.to_N (48 + (sc / 10) mod 10); Z.to_N (48 + sc mod 10)]
    else dst ++ dec_digits sc (* strconv.AppendInt of a non-negative value *).

  Definition formatStatusLine (dst protocol : bytes) (sc : Z) (statusText : bytes) : bytes :=
    let statusText := match statusText with [] => StatusMessage sc | _ => statusText end in
    appendStatusCode (dst ++ protocol ++ [32]) sc ++ [32] ++ statusText ++ strCRLF.

  Definition appendStatusLine (dst : bytes) (r : resp) : bytes :=
    let sc := RStatusCode r in
    let sc := if (sc <? 0)%Z then StatusOK else sc in
    formatStatusLine dst (hProtocol (rh r)) sc (rstatusMsg r).

  Definition RContentType (r : resp) : bytes :=
    match hct (rh r) with
    | [] => if hnoDefCT (rh r) then [] else defaultContentType
    | ct => ct
    end.

  Fixpoint resp_h_lines (dst : bytes) (h : kvs) (tr : list bytes) (noDefDate : bool) : bytes :=
    match h with
    | [] => dst
    | (k, v) :: rest =>
        let dst := if negb (in_trailer tr k) && (noDefDate || negb (beq k strDate))
                   then appendHeaderLine dst k v else dst in
        resp_h_lines dst rest tr noDefDate
    end.
  Fixpoint setcookie_lines (dst : bytes) (cs : kvs) : bytes :=
    match cs with
    | [] => dst
    | (_, v) :: rest => setcookie_lines (appendHeaderLine dst strSetCookie v) rest
    end.

  (* ResponseHeader.AppendBytes (dst[:0]); serverDate = *serverDate.Load() *)
  Definition RespAppendBytes (serverDate : bytes) (r : resp) : bytes :=
    let x := rh r in
    let dst := appendStatusLine [] r in
    let dst := match rserver r with [] => dst | s => appendHeaderLine dst strServer s end in
    let dst := if negb (rnoDefDate r) then appendHeaderLine dst strDate serverDate else dst in
    let dst := if negb (hcl x =? 0)%Z || negb (beq (hct x) []) then
                 match RContentType r with [] => dst | ct => appendHeaderLine dst strContentType ct end
               else dst in
    let dst := match rce r with [] => dst | ce => appendHeaderLine dst strContentEncoding ce end in
    let dst := match hclb x with [] => dst | b => appendHeaderLine dst strContentLength b end in
    let dst := resp_h_lines dst (hh x) (htrailer x) (rnoDefDate r) in
    let dst := match htrailer x with
               | [] => dst
               | tr => appendHeaderLine dst strTrailer (appendTrailerBytes [] tr strCommaSpace)
               end in
    let dst := setcookie_lines dst (hcookies x) in
    let dst := if hclose x then appendHeaderLine dst strConnection strClose else dst in
    dst ++ strCRLF.

  Fixpoint appendResponseCookieBytes (dst : bytes) (cs : kvs) : bytes :=
    match cs with
    | [] => dst
    | [(_, v)] => dst ++ v
    | (_, v) :: rest => appendResponseCookieBytes (dst ++ v ++ semiSpace) rest
    end.
  Definition Rpeek (r : resp) (key : bytes) : bytes :=
    let x := rh r in
    if beq key strContentType then RContentType r
    else if beq key strContentEncoding then rce r
    else if beq key strServer then rserver r
    else if beq key strConnection then (if hclose x then strClose else peekArgBytes (hh x) key)
    else if beq key strContentLength then hclb x
    else if beq key strSetCookie then appendResponseCookieBytes [] (hcookies x)
    else if beq key strTrailer then appendTrailerBytes [] (htrailer x) strCommaSpace
    else peekArgBytes (hh x) key.
  Definition RespTrailerHeader (r : resp) : bytes :=
    fold_left (fun dst t => appendHeaderLine dst t (Rpeek r t)) (htrailer (rh r)) [] ++ strCRLF.

  (* Response.Write with an in-memory body (no body stream) *)
  Definition ResponseWrite (serverDate : bytes) (r : resp) (skipBody : bool) (body : bytes) : resp * bytes :=
    let sendBody := negb (skipBody || mustSkipContentLength r) in
    let r := if sendBody || negb (beq body []) then RSetContentLength r (Z.of_nat (length body)) else r in
    (r, RespAppendBytes serverDate r ++ (if sendBody then body else [])).
End StatusText.

(* the enumerated response setters *)
Inductive rop :=
| ROSet (k v : bytes) | ROAdd (k v : bytes) | ROSetCanonical (k v : bytes)
| ROSetStatusCode (n : Z) | ROSetStatusMessage (b : bytes) | ROSetProtocol (b : bytes)
| ROSetContentType (b : bytes) | ROSetContentEncoding (b : bytes) | ROSetServer (b : bytes)
| ROSetContentLength (n : Z) | ROSetConnectionClose | ROResetConnectionClose
| ROSetTrailer (b : bytes) | ROAddTrailer (b : bytes) | ROSetCookie (c : cookie)
| RODisableNormalizing | ROEnableNormalizing | ROSetNoDefaultContentType (b : bool)
| ROSetNoDefaultDate (b : bool) (* not an exported setter: Server.NoDefaultDate *).

Definition rstep (r : resp) (o : rop) : resp :=
  match o with
  | ROSet k v => RSet r k v
  | ROAdd k v => RAdd r k v
  | ROSetCanonical k v => RSetCanonical r k v
  | ROSetStatusCode n => RSetStatusCode r n
  | ROSetStatusMessage b => RSetStatusMessage r b
  | ROSetProtocol b => RSetProtocol r b
  | ROSetContentType b => RSetContentTypeBytes r b
  | ROSetContentEncoding b => RSetContentEncodingBytes r b
  | ROSetServer b => RSetServerBytes r b
  | ROSetContentLength n => RSetContentLength r n
  | ROSetConnectionClose => RSetConnectionClose r
  | ROResetConnectionClose => RResetConnectionClose r
  | ROSetTrailer b => RSetTrailerBytes r b
  | ROAddTrailer b => RAddTrailerBytes r b
  | ROSetCookie c => RSetCookie r c
  | RODisableNormalizing => with_rh r (with_hdisableNorm (rh r) true)
  | ROEnableNormalizing => with_rh r (with_hdisableNorm (rh r) false)
  | ROSetNoDefaultContentType b => with_rh r (with_hnoDefCT (rh r) b)
  | ROSetNoDefaultDate b => with_rnoDefDate r b
  end.
Definition rrun (ops : list rop) : resp := fold_left rstep ops emptyResp.

(* ====================== RequestHeader ====================== *)
Record req := mkReq {
  qh : hdr; qmethod : bytes; quri : bytes; qhost : bytes; qua : bytes;
  qdisableSpecial : bool; qcookiesCollected : bool }.
Definition emptyReq : req := mkReq emptyHdr [] [] [] [] false false.
Definition with_qh q a := mkReq a (qmethod q) (quri q) (qhost q) (qua q) (qdisableSpecial q) (qcookiesCollected q).
Definition with_qmethod q a := mkReq (qh q) a (quri q) (qhost q) (qua q) (qdisableSpecial q) (qcookiesCollected q).
Definition with_quri q a := mkReq (qh q) (qmethod q) a (qhost q) (qua q) (qdisableSpecial q) (qcookiesCollected q).
Definition with_qhost q a := mkReq (qh q) (qmethod q) (quri q) a (qua q) (qdisableSpecial q) (qcookiesCollected q).
Definition with_qua q a := mkReq (qh q) (qmethod q) (quri q) (qhost q) a (qdisableSpecial q) (qcookiesCollected q).
Definition with_qdisableSpecial q a := mkReq (qh q) (qmethod q) (quri q) (qhost q) (qua q) a (qcookiesCollected q).
Definition with_qcookiesCollected q a := mkReq (qh q) (qmethod q) (quri q) (qhost q) (qua q) (qdisableSpecial q) a.

Definition QSetMethodBytes (q : req) (b : bytes) : req := with_qmethod q (initHeaderValueBytes b).
Definition QSetRequestURIBytes (q : req) (b : bytes) : req := with_quri q (initHeaderValueBytes b).
Definition QSetProtocolBytes (q : req) (b : bytes) : req := with_qh q (with_hproto (qh q) (initHeaderValueBytes b)).
Definition QSetHostBytes (q : req) (b : bytes) : req := with_qhost q (initHeaderValueBytes b).
Definition QSetUserAgentBytes (q : req) (b : bytes) : req := with_qua q (initHeaderValueBytes b).
Definition QSetContentTypeBytes (q : req) (b : bytes) : req := with_qh q (hSetContentTypeBytes (qh q) b).
Definition QSetMultipartFormBoundaryBytes (q : req) (b : bytes) : req :=
  QSetContentTypeBytes q (strMultipartFormData ++ [59; 32] ++ strBoundary ++ [61] ++ b).
Definition QSetConnectionClose (q : req) : req := with_qh q (hSetConnectionClose (qh q)).
Definition QResetConnectionClose (q : req) : req := with_qh q (hResetConnectionClose (qh q)).
Definition QSetContentLength (q : req) (n : Z) : req :=
  let x := with_hcl (qh q) n in
  if (0 <=? n)%Z then with_qh q (with_hh (with_hclb x (dec_digits n)) (delAllArgsStable (hh x) strTransferEncoding))
  else with_qh q (with_hh (with_hclb x []) (setArg (hh x) strTransferEncoding strChunked)).
Definition QSetTrailerBytes (q : req) (t : bytes) : req := with_qh q (fst (hSetTrailerBytes (qh q) t)).
Definition QAddTrailerBytes (q : req) (t : bytes) : req := with_qh q (fst (hAddTrailerBytes (qh q) t)).

(* total wrapper: Cookie.parseRequestCookies never runs out of fuel (HeaderWriteProof.prc_total) *)
Definition prc (cookies : kvs) (src : bytes) : kvs :=
  match parseRequestCookies cookies src with Some c => c | None => cookies end.

(* collectCookies: every h.h entry whose key is "cookie" (case-insensitively) is parsed into h.cookies, in
   order, and removed from h.h (stable) *)
Fixpoint cc_loop (h : kvs) (cookies : kvs) : kvs * kvs :=
  match h with
  | [] => ([], cookies)
  | (k, v) :: r =>
      if ci k strCookie then cc_loop r (prc cookies v)
      else let '(h', c') := cc_loop r cookies in ((k, v) :: h', c')
  end.
Definition collectCookies (q : req) : req :=
  if qcookiesCollected q then q
  else let '(h', c') := cc_loop (hh (qh q)) (hcookies (qh q)) in
       with_qcookiesCollected (with_qh q (with_hcookies (with_hh (qh q) h') c')) true.

Definition QSetCookie (q : req) (key value : bytes) : req :=
  let q := collectCookies q in
  with_qh q (with_hcookies (qh q) (jarSetCookie (hcookies (qh q)) key value)).

Definition QsetSpecialHeader (q : req) (key value : bytes) : option req :=
  match key with
  | [] => None
  | c0 :: _ =>
      if qdisableSpecial q then None else
      let f := N.lor c0 32 in
      if f =? 99 (* c *) then
        if ci strContentType key then Some (QSetContentTypeBytes q value)
        else if ci strContentLength key then
          match parseContentLength value with
          | Some n =>
              Some (with_qh q (with_hh (with_hclb (with_hcl (qh q) n) value) (delAllArgsStable (hh (qh q)) strTransferEncoding)))
          | None => Some q
          end
        else if ci strConnection key then
          if hasHeaderValue value strClose then
            Some (with_qh q (with_hh (hSetConnectionClose (qh q)) (delAllArgsStable (hh (qh q)) key)))
          else Some (with_qh q (hsetNonSpecial (hResetConnectionClose (qh q)) key value))
        else if ci strCookie key then
          let q := collectCookies q in
          Some (with_qh q (with_hcookies (qh q) (prc (hcookies (qh q)) value)))
        else None
      else if f =? 116 (* t *) then
        if ci strTransferEncoding key then Some q
        else if ci strTrailer key then Some (QSetTrailerBytes q value)
        else None
      else if f =? 104 (* h *) then
        if ci strHost key then Some (QSetHostBytes q value) else None
      else if f =? 117 (* u *) then
        if ci strUserAgent key then Some (QSetUserAgentBytes q value) else None
      else None
  end.

Definition QSetCanonical (q : req) (key value : bytes) : req :=
  let bufV := initHeaderValueBytes value in
  match QsetSpecialHeader q key bufV with
  | Some q' => q'
  | None => with_qh q (hsetNonSpecial (qh q) key bufV)
  end.
Definition QSet (q : req) (key value : bytes) : req :=
  QSetCanonical q (getHeaderKeyBytes key (hdisableNorm (qh q))) value.
Definition QAdd (q : req) (key value : bytes) : req :=
  let bufK := getHeaderKeyBytes key (hdisableNorm (qh q)) in
  let bufV := initHeaderValueBytes value in
  match QsetSpecialHeader q bufK bufV with
  | Some q' => q'
  | None => with_qh q (with_hh (qh q) (appendArg (hh (qh q)) bufK bufV))
  end.
(* SetReferer / SetContentEncoding = SetBytesK(strX, v); the *Bytes variants = initHeaderValueBytes + setNonSpecial:
   the same state because the key is canonical and not special *)
Definition QSetReferer (q : req) (v : bytes) : req := QSet q strReferer v.
Definition QSetRefererBytes (q : req) (v : bytes) : req := with_qh q (hsetNonSpecial (qh q) strReferer (initHeaderValueBytes v)).
Definition QSetContentEncoding (q : req) (v : bytes) : req := QSet q strContentEncoding v.
Definition QSetContentEncodingBytes (q : req) (v : bytes) : req :=
  with_qh q (hsetNonSpecial (qh q) strContentEncoding (initHeaderValueBytes v)).

Definition QMethod (q : req) : bytes := match qmethod q with [] => MethodGet | m => m end.
Definition QRequestURI (q : req) : bytes := match quri q with [] => strSlash | u => u end.
Definition QHost (q : req) : bytes := if qdisableSpecial q then peekArgBytes (hh (qh q)) strHost else qhost q.
Definition QUserAgent (q : req) : bytes := if qdisableSpecial q then peekArgBytes (hh (qh q)) strUserAgent else qua q.
Definition QContentType (q : req) : bytes := if qdisableSpecial q then peekArgBytes (hh (qh q)) strContentType else hct (qh q).

Fixpoint req_h_lines (dst : bytes) (h : kvs) (tr : list bytes) : bytes :=
  match h with
  | [] => dst
  | (k, v) :: rest =>
      let dst := if negb (in_trailer tr k) then appendHeaderLine dst k v else dst in
      req_h_lines dst rest tr
  end.

(* RequestHeader.AppendBytes.  h.ContentLength() is only consulted for the default Content-Type, whose line is
   written only when special headers are enabled, where it is h.contentLength (under DisableSpecialHeader the value
   computed here may differ from Go's local variable, which is then unused). *)
Definition ReqAppendBytes (dst : bytes) (q : req) : bytes :=
  let x := qh q in
  let sp := negb (qdisableSpecial q) in
  let dst := dst ++ QMethod q ++ [32] ++ QRequestURI q ++ [32] ++ hProtocol x ++ strCRLF in
  let dst := match QUserAgent q with [] => dst | ua => if sp then appendHeaderLine dst strUserAgent ua else dst end in
  let dst := match QHost q with [] => dst | ho => if sp then appendHeaderLine dst strHost ho else dst end in
  let contentType := QContentType q in
  let contentType := if negb (hnoDefCT x) && beq contentType [] && (0 <? hcl x)%Z
                     then strDefaultContentType else contentType in
  let dst := match contentType with [] => dst | ct => if sp then appendHeaderLine dst strContentType ct else dst end in
  let dst := match hclb x with [] => dst | b => if sp then appendHeaderLine dst strContentLength b else dst end in
  let dst := req_h_lines dst (hh x) (htrailer x) in
  let dst := match htrailer x with
             | [] => dst
             | tr => appendHeaderLine dst strTrailer (appendTrailerBytes [] tr strCommaSpace)
             end in
  let dst := match hcookies x with
             | [] => dst
             | cs => if sp then dst ++ strCookie ++ strColonSpace ++ appendRequestCookieBytes [] cs ++ strCRLF else dst
             end in
  let dst := if hclose x && sp then appendHeaderLine dst strConnection strClose else dst in
  dst ++ strCRLF.

Definition Qpeek (q : req) (key : bytes) : bytes :=
  let x := qh q in
  if beq key strHost then QHost q
  else if beq key strContentType then QContentType q
  else if beq key strUserAgent then QUserAgent q
  else if beq key strConnection then (if hclose x then strClose else peekArgBytes (hh x) key)
  else if beq key strContentLength then hclb x
  else if beq key strCookie then
    (if qcookiesCollected q then appendRequestCookieBytes [] (hcookies x) else peekArgBytes (hh x) key)
  else if beq key strTrailer then appendTrailerBytes [] (htrailer x) strCommaSpace
  else peekArgBytes (hh x) key.
Definition ReqTrailerHeader (q : req) : bytes :=
  fold_left (fun dst t => appendHeaderLine dst t (Qpeek q t)) (htrailer (qh q)) [] ++ strCRLF.

Inductive qop :=
| QOSet (k v : bytes) | QOAdd (k v : bytes) | QOSetCanonical (k v : bytes)
| QOSetMethod (b : bytes) | QOSetRequestURI (b : bytes) | QOSetProtocol (b : bytes)
| QOSetHost (b : bytes) | QOSetUserAgent (b : bytes) | QOSetReferer (b : bytes) | QOSetRefererBytes (b : bytes)
| QOSetContentType (b : bytes) | QOSetContentEncoding (b : bytes) | QOSetContentEncodingBytes (b : bytes)
| QOSetMultipartFormBoundary (b : bytes)
| QOSetContentLength (n : Z) | QOSetConnectionClose | QOResetConnectionClose
| QOSetTrailer (b : bytes) | QOAddTrailer (b : bytes) | QOSetCookie (k v : bytes)
| QODisableNormalizing | QOEnableNormalizing | QOSetNoDefaultContentType (b : bool)
| QODisableSpecialHeader | QOEnableSpecialHeader.

Definition qstep (q : req) (o : qop) : req :=
  match o with
  | QOSet k v => QSet q k v
  | QOAdd k v => QAdd q k v
  | QOSetCanonical k v => QSetCanonical q k v
  | QOSetMethod b => QSetMethodBytes q b
  | QOSetRequestURI b => QSetRequestURIBytes q b
  | QOSetProtocol b => QSetProtocolBytes q b
  | QOSetHost b => QSetHostBytes q b
  | QOSetUserAgent b => QSetUserAgentBytes q b
  | QOSetReferer b => QSetReferer q b
  | QOSetRefererBytes b => QSetRefererBytes q b
  | QOSetContentType b => QSetContentTypeBytes q b
  | QOSetContentEncoding b => QSetContentEncoding q b
  | QOSetContentEncodingBytes b => QSetContentEncodingBytes q b
  | QOSetMultipartFormBoundary b => QSetMultipartFormBoundaryBytes q b
  | QOSetContentLength n => QSetContentLength q n
  | QOSetConnectionClose => QSetConnectionClose q
  | QOResetConnectionClose => QResetConnectionClose q
  | QOSetTrailer b => QSetTrailerBytes q b
  | QOAddTrailer b => QAddTrailerBytes q b
  | QOSetCookie k v => QSetCookie q k v
  | QODisableNormalizing => with_qh q (with_hdisableNorm (qh q) true)
  | QOEnableNormalizing => with_qh q (with_hdisableNorm (qh q) false)
  | QOSetNoDefaultContentType b => with_qh q (with_hnoDefCT (qh q) b)
  | QODisableSpecialHeader => with_qdisableSpecial q true
  | QOEnableSpecialHeader => with_qdisableSpecial q false
  end.
Definition qrun (ops : list qop) : req := fold_left qstep ops emptyReq.

(* ---------- base64.StdEncoding (standard library, RFC 4648 with padding) ---------- *)
Definition b64alphabet : bytes := s2b "ABCDEFGHIJKLMNOPQRSTUVWXYZabcdefghijklmnopqrstuvwxyz0123456789+/".
Definition b64c (i : N) : N := nth (N.to_nat i) b64alphabet 0.
Fixpoint b64encode (s : bytes) : bytes :=
  match s with
  | a :: b :: c :: r =>
      b64c (a / 4) :: b64c ((a mod 4) * 16 + b / 16) :: b64c ((b mod 16) * 4 + c / 64) :: b64c (c mod 64) :: b64encode r
  | [a; b] => [b64c (a / 4); b64c ((a mod 4) * 16 + b / 16); b64c ((b mod 16) * 4); 61]
  | [a] => [b64c (a / 4); b64c ((a mod 4) * 16); 61; 61]
  | [] => []
  end.

(* ---------- Request.Write (header part + in-memory body; no body stream, no multipart form, no post args) ----------
   The URI object is owned by another model: uriHost = uri.Host(), uriRequestURI = uri.RequestURI(),
   user/pass = uri.username/password are inputs.  None = errRequestHostRequired. *)
Definition ignoreBody (q : req) : bool := beq (QMethod q) MethodGet || beq (QMethod q) MethodHead.
Definition RequestWrite (q : req) (parsedURI useHostHeader : bool) (uriHost uriRequestURI user pass body : bytes)
  : option (req * bytes) :=
  let step1 : option req :=
    if beq (QHost q) [] || parsedURI then
      let q1 : option req :=
        if beq (QHost q) [] then
          (if beq uriHost [] then None else Some (QSetHostBytes q uriHost))
        else if negb useHostHeader then Some (QSetHostBytes q uriHost) else Some q in
      match q1 with
      | None => None
      | Some q =>
          let q := QSetRequestURIBytes q uriRequestURI in
          match user with
          | [] => Some q
          | _ => Some (QSet q strAuthorization (strBasicSpace ++ b64encode (user ++ strColon ++ pass)))
          end
      end
    else Some q in
  match step1 with
  | None => None
  | Some q =>
      let hasBody := negb (beq body []) || negb (ignoreBody q) in
      let q := if hasBody then QSetContentLength q (Z.of_nat (length body)) else q in
      Some (q, ReqAppendBytes [] q ++ (if hasBody then body else []))
  end.

(* ---------- fasthttpproxy.httpProxyDial: the CONNECT request, or None when the target is rejected ---------- *)
Definition containsCRLF (s : bytes) : bool := existsb (fun c => (c =? 13) || (c =? 10)) s.
Definition connectRequest (addr auth : bytes) : option bytes :=
  if containsCRLF addr then None
  else
    let req := s2b "CONNECT " ++ addr ++ s2b " HTTP/1.1" ++ [13; 10] ++ s2b "Host: " ++ addr ++ [13; 10] in
    let req := match auth with [] => req | _ => req ++ s2b "Proxy-Authorization: Basic " ++ auth ++ [13; 10] end in
    Some (req ++ [13; 10]).
