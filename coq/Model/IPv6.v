(* IPv6.v — model of ipv6.go (validateIPv6Literal, parseIPv6Hextets, validIPv4) and of uri.go:validOptionalPort,
   ishex, as the code is written.

   Conventions: []byte = bytes; Go ints indexing a slice = nat, other ints = Z; a search result -1 = None;
   errors = the enum v6err.  The `for i < n` loop of parseIPv6Hextets runs on the remaining input s[i:] with
   explicit fuel (every iteration consumes at least one byte; HexOutOfFuel never happens: Proof/IPv6Proof.v).
   hex2intTable comes from Gen/GenC31.v (regenerated from bytesconv_table.go). No proofs in this file. *)
From FH Require Import Model.Base Gen.GenC31.
Open Scope Z_scope.

(* ---- package bytes ---- *)
Fixpoint idxByte (s : bytes) (c : N) : option nat :=
  match s with
  | [] => None
  | x :: r => if (x =? c)%N then Some O else match idxByte r c with Some n => Some (S n) | None => None end
  end.
Fixpoint lastIdxByte (s : bytes) (c : N) : option nat :=
  match s with
  | [] => None
  | x :: r => match lastIdxByte r c with
              | Some n => Some (S n)
              | None => if (x =? c)%N then Some O else None
              end
  end.

(* func ishex(c byte) bool { return hex2intTable[c] < 16 } *)
Definition ishex (c : N) : bool := (tbl hex2intTable c <? 16)%N.
(* func unhex(c byte) byte { return hex2intTable[c] & 15 } *)
Definition unhex (c : N) : N := N.land (tbl hex2intTable c) 15.

Definition isdigit (c : N) : bool := negb ((c <? 48) || (57 <? c))%N.   (* !(b < '0' || b > '9') *)

(* func validOptionalPort(port []byte) bool *)
Definition validOptionalPort (port : bytes) : bool :=
  match port with
  | [] => true
  | c :: r => if negb (c =? COLON)%N then false else forallb isdigit r
  end.

(* ---- ipv6.go ---- *)

(* the inner loop of validIPv4: `for i < n { c := s[i]; ... }`.
   None = `return false`; Some (digits, rest) = loop left with s[i:] = rest *)
Fixpoint v4_digits (s : bytes) (val digits : Z) : option (Z * bytes) :=
  match s with
  | [] => Some (digits, [])
  | c :: r =>
      if ((c <? 48) || (57 <? c))%N then Some (digits, s)          (* break *)
      else
        let val := val * 10 + (Z.of_N c - 48) in
        if val >? 255 then None
        else let digits := digits + 1 in
             if digits >? 3 then None else v4_digits r val digits
  end.

(* the outer loop `for parts < 4`; k = 4 - parts (iterations left) *)
Fixpoint v4_parts (k : nat) (s : bytes) : bool :=
  match k with
  | O => false                                                   (* after the loop: return false *)
  | S k' =>
      match s with
      | [] => false                                              (* i >= n *)
      | c0 :: _ =>
          match v4_digits s 0 0 with
          | None => false
          | Some (digits, rest) =>
              if digits =? 0 then false
              else if (digits >? 1) && (c0 =? 48)%N then false   (* leading zero *)
              else match k' with
                   | O => match rest with [] => true | _ => false end        (* parts == 4: return i == n *)
                   | S _ => match rest with
                            | [] => false                                      (* i >= n *)
                            | d :: r => if (d =? DOT)%N then v4_parts k' r else false
                            end
                   end
          end
      end
  end.

(* func validIPv4(s []byte) bool *)
Definition validIPv4 (s : bytes) : bool := v4_parts 4 s.

(* `for cnt < 4 && i < n && ishex(s[i]) { i++; cnt++ }` : returns cnt and s[i:] *)
Fixpoint hexrun (room : nat) (s : bytes) : Z * bytes :=
  match room with
  | O => (0, s)
  | S room' =>
      match s with
      | c :: r => if ishex c then let (n, t) := hexrun room' r in (n + 1, t) else (0, s)
      | [] => (0, [])
      end
  end.

Inductive hexres := HexOk (groups : Z) (seenDouble : bool) | HexFail | HexOutOfFuel.

(* func parseIPv6Hextets(s []byte, allowTrailingColon bool) (groups int, seenDouble, ok bool)
   loop state: s = s[i:], first = (i == 0) *)
Fixpoint hextets_loop (fuel : nat) (allowTrailingColon : bool) (s : bytes) (first : bool)
         (groups : Z) (seenDouble justSawDouble : bool) : hexres :=
  match fuel with
  | O => HexOutOfFuel
  | S fuel' =>
      match s with
      | [] => HexOk groups seenDouble                                  (* i < n fails *)
      | c :: r =>
          if (c =? COLON)%N then
            match r with
            | c1 :: r' =>
                if (c1 =? COLON)%N then                                (* i+1 < n && s[i+1] == ':' *)
                  if seenDouble || justSawDouble then HexFail
                  else hextets_loop fuel' allowTrailingColon r' false groups true true   (* i += 2; break if i == n, else continue *)
                else
                  if first then HexFail                                (* i == 0 *)
                  else if justSawDouble then HexFail
                  else if negb (ishex c1) then HexFail
                  else hextets_loop fuel' allowTrailingColon r false groups seenDouble justSawDouble  (* i++ *)
            | [] =>
                if first then HexFail
                else if justSawDouble then HexFail
                else if allowTrailingColon then HexOk groups seenDouble       (* i == n-1: break *)
                else HexFail
            end
          else
            let (cnt, rest) := hexrun 4 s in
            if cnt =? 0 then HexFail
            else
              let groups := groups + 1 in
              match rest with
              | d :: _ => if negb (d =? COLON)%N then HexFail
                          else hextets_loop fuel' allowTrailingColon rest false groups seenDouble false
              | [] => hextets_loop fuel' allowTrailingColon rest false groups seenDouble false
              end
      end
  end.

Definition parseIPv6Hextets (s : bytes) (allowTrailingColon : bool) : hexres :=
  match s with
  | [] => HexOk 0 false                                               (* n == 0 *)
  | _ => hextets_loop (S (length s)) allowTrailingColon s true 0 false false
  end.

Inductive v6err := V6Nil | ErrInvalidIPv6Host | ErrInvalidIPv6Zone | ErrInvalidIPv6Address | V6OutOfFuel.

(* (!seenDouble && hextets != 8) || (seenDouble && hextets >= 8) *)
Definition bad_count (seenDouble : bool) (hextets : Z) : bool :=
  (negb seenDouble && negb (hextets =? 8)) || (seenDouble && (hextets >=? 8)).

(* the part of validateIPv6Literal after the zone has been cut off: "Must have a colon to be IPv6" ... *)
Definition v6_addr (addr : bytes) : v6err :=
  match idxByte addr COLON with
  | None => ErrInvalidIPv6Address                          (* must have a colon *)
  | Some _ =>
      match idxByte addr DOT with
      | Some _ =>                                          (* IPv4-embedded *)
          match lastIdxByte addr COLON with
          | None => ErrInvalidIPv6Address
          | Some lastColon =>
              if (lastColon =? length addr - 1)%nat then ErrInvalidIPv6Address else
              let ipv4 := skipn (S lastColon) addr in
              if negb (validIPv4 ipv4) then ErrInvalidIPv6Address else
              let seenDoubleAtSplit := (0 <? lastColon)%nat && (nth (lastColon - 1) addr 0 =? COLON)%N in
              let head := if seenDoubleAtSplit then firstn (lastColon - 1) addr else firstn lastColon addr in
              match parseIPv6Hextets head false with
              | HexOutOfFuel => V6OutOfFuel
              | HexFail => ErrInvalidIPv6Address
              | HexOk hextets seenDoubleHead =>
                  if seenDoubleHead && seenDoubleAtSplit then ErrInvalidIPv6Address else
                  let hextets := hextets + 2 in            (* IPv4 tail = 2 hextets *)
                  let seenDouble := seenDoubleHead || seenDoubleAtSplit in
                  if bad_count seenDouble hextets then ErrInvalidIPv6Address else V6Nil
              end
          end
      | None =>                                            (* pure IPv6 *)
          match parseIPv6Hextets addr false with
          | HexOutOfFuel => V6OutOfFuel
          | HexFail => ErrInvalidIPv6Address
          | HexOk hextets seenDouble =>
              if bad_count seenDouble hextets then ErrInvalidIPv6Address else V6Nil
          end
      end
  end.

(* func validateIPv6Literal(host []byte) error *)
Definition validateIPv6Literal (host : bytes) : v6err :=
  match host with
  | [] => V6Nil
  | c0 :: _ =>
      if negb (c0 =? LBR)%N then V6Nil else
      match idxByte host RBR with
      | None => ErrInvalidIPv6Host
      | Some end_ =>
          (* only an optional port may follow the first ']' *)
          if (end_ =? 1)%nat || negb (validOptionalPort (skipn (S end_) host)) then ErrInvalidIPv6Host else
          let addr := firstn (end_ - 1) (skipn 1 host) in              (* host[1:end] *)
          (* optional zone *)
          match idxByte addr PCT with
          | Some zi => if (zi =? length addr - 1)%nat then ErrInvalidIPv6Zone else v6_addr (firstn zi addr)
          | None => v6_addr addr
          end
      end
  end.

Definition v6_ok (e : v6err) : bool := match e with V6Nil => true | _ => false end.
