(* Model of the integer codecs of bytesconv.go: parseUintBuf, ParseUint,
   AppendUint, readHexInt, writeHexInt.  Go `int` arithmetic is modelled with an
   explicit two's-complement wrap at word size W (32 or 64): the property is
   about overflow.  Constants come from Gen/GenC30.v (regenerated from source). *)
From FH Require Import Model.Base Gen.GenC30.
Open Scope Z_scope.

Definition maxInt (W : Z) : Z := 2 ^ (W - 1) - 1.
Definition wrap (W : Z) (z : Z) : Z := ((z + 2 ^ (W - 1)) mod 2 ^ W) - 2 ^ (W - 1).

Inductive perr := EEmpty | EFirst | ETrailing | ETooLong.
Inductive pres := POk (v : Z) | PErr (e : perr).

(* byte subtraction c - '0' on Go's uint8 *)
Definition bsub48 (c : N) : Z := (Z.of_N c + 208) mod 256.

(* the loop of parseUintBuf: returns (v, n, err) exactly like the Go function *)
Fixpoint pub_loop (W : Z) (b : bytes) (i : Z) (v : Z) : Z * Z * option perr :=
  match b with
  | [] => (v, i, None)
  | c :: r =>
      let k := bsub48 c in
      if k >? 9 then
        if i =? 0 then (-1, i, Some EFirst) else (v, i, None)
      else
        let vNew := wrap W (10 * v + k) in
        if (i >=? maxSafeIntDigits W) && ((v >? maxIntDiv10 W) || (vNew <? 0))
        then (-1, i, Some ETooLong)
        else pub_loop W r (i + 1) vNew
  end.

Definition parseUintBuf (W : Z) (b : bytes) : Z * Z * option perr :=
  match b with
  | [] => (-1, 0, Some EEmpty)
  | _ => pub_loop W b 0 0
  end.

Definition ParseUint (W : Z) (b : bytes) : pres :=
  match parseUintBuf W b with
  | (v, n, err) =>
      if negb (n =? Z.of_nat (length b)) then PErr ETrailing
      else match err with Some e => PErr e | None => POk v end
  end.

Definition pres_opt (p : pres) : option Z := match p with POk v => Some v | PErr _ => None end.

(* AppendUint: panics on negative n (None), else strconv.AppendUint base 10 *)
Fixpoint dec_fuel (fuel : nat) (n : Z) (acc : bytes) : bytes :=
  match fuel with
  | O => acc
  | S f =>
      let acc' := Z.to_N (48 + n mod 10) :: acc in
      if n <? 10 then acc' else dec_fuel f (n / 10) acc'
  end.
Definition dec_digits (n : Z) : bytes := dec_fuel (S (Z.to_nat (Z.log2 n))) n [].
Definition AppendUint (dst : bytes) (n : Z) : option bytes :=
  if n <? 0 then None else Some (dst ++ dec_digits n).

(* readHexInt over a bufio.Reader whose remaining input is the byte list (then EOF).
   Returns the value and the unread rest. *)
Inductive herr := HEmpty | HTooLarge | HEof.
Inductive hres := HOk (n : Z) (rest : bytes) | HErr (e : herr).

Fixpoint rhi_loop (W maxc : Z) (b : bytes) (i n : Z) : hres :=
  match b with
  | [] => if i >? 0 then HOk n [] else HErr HEof
  | c :: r =>
      let k := Z.of_N (tbl hex2intTable c) in
      if k =? 16 then
        if i =? 0 then HErr HEmpty else HOk n b      (* UnreadByte: c stays unread *)
      else if i >=? maxc then HErr HTooLarge
      else rhi_loop W maxc r (i + 1) (wrap W (Z.lor (Z.shiftl n 4) k))
  end.
Definition readHexInt (W maxc : Z) (b : bytes) : hres := rhi_loop W maxc b 0 0.

(* writeHexInt: buffer of maxc+1 bytes filled from the right; index below 0 panics *)
Fixpoint whi_loop (fuel : nat) (n : Z) (room : Z) (acc : bytes) : option bytes :=
  match fuel with
  | O => None
  | S f =>
      if room <=? 0 then None                          (* buf[i] with i < 0: panic *)
      else
        let acc' := tbl lowerhex (Z.to_N (Z.land n 15)) :: acc in
        let n' := Z.shiftr n 4 in
        if n' =? 0 then Some acc' else whi_loop f n' (room - 1) acc'
  end.
Definition writeHexInt (maxc : Z) (n : Z) : option bytes :=
  if n <? 0 then None else whi_loop (S (Z.to_nat (Z.log2 n))) n (maxc + 1) [].
