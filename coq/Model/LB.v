(* LB.v — model of lbclient.go (property C40): a labelled transition system.

   Modelled code, function by function:
     LBClient.get            -> choose (pure: lexicographic arg-min on (PendingRequests, total), first wins) and the LGet label
                                (once.Do(init) first; nil when there are no clients)
     LBClient.init           -> do_init   (appends the Clients configured at construction AFTER whatever AddClient put in cs before)
     LBClient.DoDeadline/DoTimeout/Do -> LGet (ErrNoAvailableClients when get returns nil), then the lbClient steps below
     LBClient.AddClient      -> LAdd
     LBClient.RemoveClients  -> LRemove (the callback's verdicts, in routing order, are the label's data)
     lbClient.DoDeadline     -> LReturn (the wrapped client returned, isHealthy evaluated), then
                                healthy:    LTotal
                                unhealthy:  LIncAdd ; (m <= maxPenalty: LSetTimer | m > maxPenalty: LDecOverflow ; LTotal)
     lbClient.PendingRequests-> load (client's own pending, an input of LGet, + penalty)
     lbClient.incPenalty     -> LIncAdd + LDecOverflow   (the atomic add and the compensating decPenalty are separate steps)
     lbClient.decPenalty     -> LDecOverflow, LFire
     time.AfterFunc(penaltyDuration, c.decPenalty) -> LSetTimer puts now+penaltyDuration into the client's timer multiset;
                                LFire removes one due timer and decrements; LTick advances the logical clock

   Atomic operations are the labels; any number of calls may be in flight (threads), removed clients stay in the arena
   because in-flight calls and timers still hold them.  Clients are identified by their index in the arena. *)
From FH Require Import Model.Base Gen.GenC40.
Open Scope Z_scope.

Record client := mkClient {
  c_pen : Z;               (* lbClient.penalty *)
  c_tot : Z;               (* lbClient.total *)
  c_timers : list Z;       (* deadlines of the pending time.AfterFunc(penaltyDuration, decPenalty) timers *)
  c_last : Z               (* ghost: clock value of the last penalised failure (LSetTimer) *)
}.

Inductive pc :=
| PCall (c : nat)            (* inside c.c.DoDeadline *)
| PUnhealthy (c : nat)       (* isHealthy returned false, before incPenalty's atomic add *)
| POverflow (c : nat)        (* the add returned m > maxPenalty, before the compensating decPenalty *)
| PPreTimer (c : nat)        (* incPenalty returned true, before time.AfterFunc *)
| PTotal (c : nat).          (* before atomic.AddUint64(&c.total, 1) *)

Inductive event :=
| EChosen (tid : nat) (c : nat)        (* call tid was routed to arena client c *)
| ENoClients (tid : nat).              (* call tid returned ErrNoAvailableClients *)

Record state := mkState {
  arena : list client;
  cs : list nat;                 (* cc.cs: arena indices in routing order *)
  inited : bool;                 (* once.Do(init) has run *)
  initial : list nat;            (* cc.Clients (arena indices), appended by init *)
  threads : list (option pc);    (* calls in flight; None = finished *)
  now : Z;
  log : list event               (* newest first *)
}.

Inductive label :=
| LGet (ext : list Z)            (* a new call: get(); ext = c.c.PendingRequests() of every routed client, in order *)
| LReturn (tid : nat) (healthy : bool)
| LIncAdd (tid : nat)
| LDecOverflow (tid : nat)
| LSetTimer (tid : nat)
| LTotal (tid : nat)
| LFire (c : nat) (i : nat)      (* the i-th pending timer of client c fires (it must be due) *)
| LTick (t : Z)                  (* the clock advances to t >= now *)
| LAdd                           (* AddClient: a fresh client *)
| LRemove (verdicts : list bool). (* RemoveClients: rc's answer for every routed client, in order *)

(* ---- get ------------------------------------------------------------------------------------------ *)
(* the loop of get over (n, t) pairs: keeps the first pair that is lexicographically minimal *)
Fixpoint choose_from (best : nat) (bn bt : Z) (i : nat) (l : list (Z * Z)) : nat :=
  match l with
  | [] => best
  | (n, t) :: r =>
      if (n <? bn) || ((n =? bn) && (t <? bt))
      then choose_from i n t (S i) r
      else choose_from best bn bt (S i) r
  end.

Definition choose (l : list (Z * Z)) : option nat :=
  match l with
  | [] => None                                        (* len(cs) == 0: return nil *)
  | (n, t) :: r => Some (choose_from 0%nat n t 1%nat r)
  end.

Definition dummy : client := mkClient 0 0 [] 0.
Definition getc (s : state) (c : nat) : client := nth c (arena s) dummy.

(* lbClient.PendingRequests and total, for every routed client *)
Fixpoint loads (s : state) (ids : list nat) (ext : list Z) : list (Z * Z) :=
  match ids with
  | [] => []
  | c :: r => (hd 0 ext + c_pen (getc s c), c_tot (getc s c)) :: loads s r (tl ext)
  end.

Fixpoint set_nth {A} (n : nat) (x : A) (l : list A) : list A :=
  match l, n with
  | [], _ => []
  | _ :: r, O => x :: r
  | y :: r, S n' => y :: set_nth n' x r
  end.

Definition upd_client (s : state) (c : nat) (f : client -> client) : list client :=
  set_nth c (f (getc s c)) (arena s).

Definition get_thread (s : state) (tid : nat) : option pc :=
  match nth_error (threads s) tid with Some (Some p) => Some p | _ => None end.

Definition set_thread (s : state) (tid : nat) (p : option pc) : list (option pc) := set_nth tid p (threads s).

Fixpoint remove_nth {A} (n : nat) (l : list A) : list A :=
  match l, n with
  | [], _ => []
  | _ :: r, O => r
  | y :: r, S n' => y :: remove_nth n' r
  end.

Fixpoint keep_unremoved (ids : list nat) (verdicts : list bool) : list nat :=
  match ids with
  | [] => []
  | c :: r => if hd false verdicts then keep_unremoved r (tl verdicts) else c :: keep_unremoved r (tl verdicts)
  end.

Definition do_init (s : state) : list nat := if inited s then cs s else cs s ++ initial s.

(* ---- the transition relation ------------------------------------------------------------------------- *)
Definition step (s : state) (l : label) : option state :=
  match l with
  | LGet ext =>
      let cs' := do_init s in
      let tid := length (threads s) in
      match choose (loads s cs' ext) with
      | None => Some (mkState (arena s) cs' true (initial s) (threads s ++ [None]) (now s) (ENoClients tid :: log s))
      | Some i =>
          let c := nth i cs' 0%nat in
          Some (mkState (arena s) cs' true (initial s) (threads s ++ [Some (PCall c)]) (now s) (EChosen tid c :: log s))
      end
  | LReturn tid healthy =>
      match get_thread s tid with
      | Some (PCall c) =>
          Some (mkState (arena s) (cs s) (inited s) (initial s)
                        (set_thread s tid (Some (if healthy then PTotal c else PUnhealthy c))) (now s) (log s))
      | _ => None
      end
  | LIncAdd tid =>
      match get_thread s tid with
      | Some (PUnhealthy c) =>
          let m := c_pen (getc s c) + 1 in                                (* m := atomic.AddUint32(&c.penalty, 1) *)
          Some (mkState (upd_client s c (fun x => mkClient m (c_tot x) (c_timers x) (c_last x))) (cs s) (inited s) (initial s)
                        (set_thread s tid (Some (if m >? maxPenalty then POverflow c else PPreTimer c))) (now s) (log s))
      | _ => None
      end
  | LDecOverflow tid =>
      match get_thread s tid with
      | Some (POverflow c) =>
          Some (mkState (upd_client s c (fun x => mkClient (c_pen x - 1) (c_tot x) (c_timers x) (c_last x))) (cs s) (inited s) (initial s)
                        (set_thread s tid (Some (PTotal c))) (now s) (log s))
      | _ => None
      end
  | LSetTimer tid =>
      match get_thread s tid with
      | Some (PPreTimer c) =>
          Some (mkState (upd_client s c (fun x => mkClient (c_pen x) (c_tot x) ((now s + penaltyDuration) :: c_timers x) (now s)))
                        (cs s) (inited s) (initial s) (set_thread s tid None) (now s) (log s))
      | _ => None
      end
  | LTotal tid =>
      match get_thread s tid with
      | Some (PTotal c) =>
          Some (mkState (upd_client s c (fun x => mkClient (c_pen x) (c_tot x + 1) (c_timers x) (c_last x))) (cs s) (inited s) (initial s)
                        (set_thread s tid None) (now s) (log s))
      | _ => None
      end
  | LFire c i =>
      match nth_error (c_timers (getc s c)) i with
      | Some d =>
          if (d <=? now s) && (c <? length (arena s))%nat then
            Some (mkState (upd_client s c (fun x => mkClient (c_pen x - 1) (c_tot x) (remove_nth i (c_timers x)) (c_last x)))
                          (cs s) (inited s) (initial s) (threads s) (now s) (log s))
          else None
      | None => None
      end
  | LTick t =>
      if now s <=? t then Some (mkState (arena s) (cs s) (inited s) (initial s) (threads s) t (log s)) else None
  | LAdd =>
      Some (mkState (arena s ++ [mkClient 0 0 [] (now s - penaltyDuration)]) (cs s ++ [length (arena s)]) (inited s) (initial s)
                    (threads s) (now s) (log s))
  | LRemove verdicts =>
      Some (mkState (arena s) (keep_unremoved (cs s) verdicts) (inited s) (initial s) (threads s) (now s) (log s))
  end.

(* an LBClient constructed with n Clients, nothing called yet *)
Definition init_state (n : nat) : state :=
  mkState (repeat (mkClient 0 0 [] (- penaltyDuration)) n) [] false (seq 0 n) [] 0 [].

Fixpoint steps (s : state) (ls : list label) : option state :=
  match ls with
  | [] => Some s
  | l :: r => match step s l with Some s' => steps s' r | None => None end
  end.

(* ---- sequential composition used by the replay: one whole call, and "let every due timer fire" ------------- *)
(* labels of one complete call on the state, given the wrapped client's verdict *)
Definition call_labels (s : state) (ext : list Z) (healthy : bool) : list label :=
  let tid := length (threads s) in
  match choose (loads s (do_init s) ext) with
  | None => [LGet ext]
  | Some i =>
      let c := nth i (do_init s) 0%nat in
      if healthy then [LGet ext; LReturn tid true; LTotal tid]
      else if c_pen (getc s c) + 1 >? maxPenalty then [LGet ext; LReturn tid false; LIncAdd tid; LDecOverflow tid; LTotal tid]
      else [LGet ext; LReturn tid false; LIncAdd tid; LSetTimer tid]
  end.

(* labels that take call tid from the wrapped client's return to its end *)
Definition finish_labels (s : state) (tid : nat) (healthy : bool) : list label :=
  match get_thread s tid with
  | Some (PCall c) =>
      if healthy then [LReturn tid true; LTotal tid]
      else if c_pen (getc s c) + 1 >? maxPenalty then [LReturn tid false; LIncAdd tid; LDecOverflow tid; LTotal tid]
      else [LReturn tid false; LIncAdd tid; LSetTimer tid]
  | _ => []
  end.

Fixpoint due_index (now : Z) (i : nat) (l : list Z) : option nat :=
  match l with
  | [] => None
  | d :: r => if d <=? now then Some i else due_index now (S i) r
  end.

(* fire due timers of client c until none is due (fuel = number of timers) *)
Fixpoint fire_client (fuel : nat) (s : state) (c : nat) : state :=
  match fuel with
  | O => s
  | S f => match due_index (now s) 0 (c_timers (getc s c)) with
           | Some i => match step s (LFire c i) with Some s' => fire_client f s' c | None => s end
           | None => s
           end
  end.

Fixpoint fire_all (s : state) (n : nat) : state :=
  match n with
  | O => s
  | S k => let s' := fire_all s k in fire_client (length (c_timers (getc s' k))) s' k
  end.

Definition advance (s : state) (t : Z) : option state :=
  match step s (LTick t) with
  | Some s' => Some (fire_all s' (length (arena s')))
  | None => None
  end.
