(* Model of the connection limits of server.go / peripconn.go (property C12): a labelled transition system
   whose labels are the atomic steps of the code that touch shared state.

     shared state      s.concurrency, s.open, s.serving (atomics), s.perIPConnCounter.m (under its lock),
                       one worker pool per Serve call (only its counting abstraction: workersCount / len(ready))
     per connection    where its goroutine (acceptor, worker, ServeConn caller, hijack goroutine) is

   Serve(ln) loop k :  LServeStart ; { LAccept k a ; [LRegister ; (LRejectIP | -)] ; LOpenInc ;
                                       (LGetChOk | LGetChFail ; LRejectDec ; LRejectConc) }* ; LServeStop k
   worker            :  LStart ; LRequest* ; (LFinish | LHijack) ; LCleanupOpen ; LCleanupConc ; LCloseAfter ; LWorkerRelease
   ServeConn(c)      :  LServeConn a ; [LRegister ; (LRejectIP | -)] ; LTryAcquire ;
                        ( LAcquireFail ; LRejectConc
                        | LOpenInc ; LRequest* ; (LFinish | LHijack) ; LCleanupOpen ; LCloseAfter ; LReleaseConc )
   hijack goroutine  :  LHijackDone            (h(hjc) returned; closes the connection unless KeepHijackedConns)
   anybody           :  LUserClose c           (a further Close on the connection object: closeIdleConns, the handler
                                                through ctx.Conn(), hijackConn.Close with KeepHijackedConns, a second Close)
   pool cleaner      :  LWorkerRetire k

   Any number of Serve loops and ServeConn callers, any interleaving.  The worker pool is abstracted to its
   two counters (Model/WorkerPool.v, property C13, models it in detail): getCh succeeds iff a ready worker exists
   or workersCount < MaxWorkersCount.  perIPConn objects are identified with their connection here; their identity
   and perIPConnPool are modelled separately below (wrapper objects).

   No proofs in this file. *)
From Coq Require Import List ZArith NArith Bool Arith.
From FH Require Import Gen.GenC12.
Import ListNotations.
Open Scope Z_scope.

(* ---- configuration -------------------------------------------------------------------- *)
Record cfg := mkCfg {
  conc : Z;        (* Server.Concurrency as set by the user *)
  maxip : Z;       (* Server.MaxConnsPerIP *)
  keep : bool      (* Server.KeepHijackedConns *)
}.

(* Server.getConcurrency *)
Definition effConc (cf : cfg) : Z := if conc cf <=? 0 then DefaultConcurrency else conc cf.

(* ---- remote addresses: getConnIP4 / getUint32IP ------------------------------------------ *)
Inductive addr :=
| ATcp (ip : list N)      (* *net.TCPAddr with IP = these bytes (length 4, 16 or anything else) *)
| AOther.                 (* any other net.Addr *)

(* net.IP.To4 *)
Definition to4 (ip : list N) : option (list N) :=
  match ip with
  | [a; b; c; d] => Some [a; b; c; d]
  | [0%N; 0%N; 0%N; 0%N; 0%N; 0%N; 0%N; 0%N; 0%N; 0%N; 255%N; 255%N; a; b; c; d] => Some [a; b; c; d]
  | _ => None
  end.

(* getUint32IP: 0 stands for "no IPv4 address" *)
Definition ip_of_addr (a : addr) : N :=
  match a with
  | AOther => 0%N                                   (* net.IPv4zero *)
  | ATcp ip =>
      match to4 ip with
      | Some [a; b; c; d] => (a * 16777216 + b * 65536 + c * 256 + d)%N
      | _ => 0%N
      end
  end.

(* acceptConn / ServeConn: `if s.MaxConnsPerIP > 0` and wrapPerIPConn's `if ip == 0 { return c }` *)
Definition needs_reg (cf : cfg) (ip : N) : bool := (0 <? maxip cf) && negb (N.eqb ip 0).

(* ---- perIPConnCounter.m ----------------------------------------------------------------------- *)
Definition pmap := N -> option Z.
Definition pget (m : pmap) (ip : N) : Z := match m ip with Some n => n | None => 0 end.
Definition pset (m : pmap) (ip : N) (v : option Z) : pmap := fun x => if N.eqb x ip then v else m x.
(* Register: n := m[ip] + 1; m[ip] = n; return n *)
Definition register (m : pmap) (ip : N) : pmap * Z := let n := pget m ip + 1 in (pset m ip (Some n), n).
(* Unregister: if n := m[ip] - 1; n > 0 { m[ip] = n } else { delete(m, ip) } *)
Definition unregister (m : pmap) (ip : N) : pmap :=
  let n := pget m ip - 1 in pset m ip (if 0 <? n then Some n else None).

(* ---- connections ---------------------------------------------------------------------------- *)
Inductive via := VServe (k : nat) | VConn.

Inductive phase :=
| PArrived      (* Accept returned it / ServeConn was called with it; wrapPerIPConn has not registered it yet *)
| PIPOver       (* Register returned n > MaxConnsPerIP: about to Unregister, write 429, close *)
| PChecked      (* per-IP stage passed (wrapped, or no wrapping needed) *)
| PConcOver     (* ServeConn: concurrency.Add(1) returned n > Concurrency; about to release it *)
| PAcquired     (* ServeConn: tryAcquireConcurrency succeeded; s.open.Add(1) comes next *)
| POpened       (* Serve: s.open.Add(1) done, wp.Serve(c) comes next *)
| PNoWorker     (* Serve: wp.Serve returned false; s.open.Add(-1) comes next *)
| PRejecting    (* writeFastError(503) and c.Close() come next *)
| PQueued       (* Serve: given to a worker that has not yet entered serveConnCounted *)
| PServing      (* inside the request loop of serveConnCounted: requests are read and handlers run *)
| PEnding       (* serveConnCounted returns; deferred serveConnCleanup: s.open.Add(-1) comes next *)
| PEnded        (* Serve: open decremented, releaseConcurrency comes next *)
| PServed       (* back in workerFunc / ServeConn: c.Close() unless hijacked *)
| PReleasing    (* Serve: wp.release comes next; ServeConn: deferred releaseConcurrency comes next *)
| PDone.        (* nothing left to do for the goroutine that served or rejected it *)

Inductive hjstate := HNone | HRun | HDone.

Record crec := mkC {
  cvia : via;
  cip : N;
  reg : bool;        (* holds one unit of perIPConnCounter.m[cip] (registered and not yet unregistered) *)
  closed : bool;     (* Close has been called on the connection (perIPConn.Conn == nil for a wrapped one) *)
  ph : phase;
  hj : hjstate;      (* hijack goroutine: none / running h(hjc) / returned *)
  resp : Z           (* status written by a rejection (0 = none) *)
}.

(* a Serve loop with the counting abstraction of its worker pool *)
Record lrec := mkL {
  running : bool;    (* between s.serving.Add(1) and the return of Serve *)
  busy : bool;       (* between Accept returning a connection and being back at Accept *)
  wcount : Z;        (* wp.workersCount *)
  ready : Z          (* len(wp.ready) *)
}.

Record st := mkSt {
  concurrency : Z;   (* s.concurrency *)
  open : Z;          (* s.open *)
  serving : Z;       (* s.serving *)
  perip : pmap;      (* s.perIPConnCounter.m *)
  conns : list crec; (* every connection seen so far; its id is its position *)
  loops : list lrec  (* every Serve call so far *)
}.

Definition init : st := mkSt 0 0 0 (fun _ => None) [] [].

Inductive label :=
| LServeStart | LServeStop (k : nat) | LWorkerRetire (k : nat)
| LAccept (k : nat) (a : addr) | LServeConn (a : addr)
| LRegister (c : nat) | LRejectIP (c : nat)
| LOpenInc (c : nat) | LGetChOk (c : nat) | LGetChFail (c : nat) | LRejectDec (c : nat) | LRejectConc (c : nat) (cerr : bool)
| LTryAcquire (c : nat) | LAcquireFail (c : nat)
| LStart (c : nat) | LRequest (c : nat) | LFinish (c : nat) | LHijack (c : nat)
| LCleanupOpen (c : nat) | LCleanupConc (c : nat) | LCloseAfter (c : nat) (cerr : bool) | LWorkerRelease (c : nat) | LReleaseConc (c : nat)
| LHijackDone (c : nat) (cerr : bool) | LUserClose (c : nat) (cerr : bool).
(* cerr: the Close of the underlying net.Conn (when this step reaches it) returns an error - a tls.Conn that cannot send its close_notify,
   a custom connection; the step is the same for both outcomes, which is the point: see close_conn *)

Fixpoint upd {A} (l : list A) (i : nat) (x : A) : list A :=
  match l, i with
  | [], _ => []
  | _ :: r, O => x :: r
  | y :: r, S j => y :: upd r j x
  end.

Definition set_ph (r : crec) (p : phase) : crec := mkC (cvia r) (cip r) (reg r) (closed r) p (hj r) (resp r).
Definition set_hj (r : crec) (h : hjstate) : crec := mkC (cvia r) (cip r) (reg r) (closed r) (ph r) h (resp r).
Definition set_busy (lp : lrec) (b : bool) : lrec := mkL (running lp) b (wcount lp) (ready lp).

(* the acceptor of loop k is back at ln.Accept *)
Definition free_loop (ls : list lrec) (v : via) : list lrec :=
  match v with
  | VServe k => match nth_error ls k with Some lp => upd ls k (set_busy lp false) | None => ls end
  | VConn => ls
  end.

(* perIPConn.Close on a wrapped connection (idempotent: only the first call does anything), plain Close otherwise:
     cc := c.Conn; c.Conn = nil; if cc == nil { return nil }; err := cc.Close(); c.perIPConnCounter.Unregister(c.ip); return err
   cerr = the underlying Close failed.  The per-IP unit is given back in BOTH cases: the error is only remembered and returned
   (a wrapper that has cleared c.Conn is never closed again, so an early return on error would leak the unit for ever). *)
Definition close_conn (m : pmap) (r : crec) (cerr : bool) : pmap * crec :=
  if reg r then
    (if cerr then unregister m (cip r) else unregister m (cip r), mkC (cvia r) (cip r) false true (ph r) (hj r) (resp r))
  else (m, mkC (cvia r) (cip r) false true (ph r) (hj r) (resp r)).

Definition set_conns (s : st) (cs : list crec) : st := mkSt (concurrency s) (open s) (serving s) (perip s) cs (loops s).

Definition step (cf : cfg) (s : st) (l : label) : option st :=
  match l with
  | LServeStart =>          (* Serve: wp created with MaxWorkersCount = getConcurrency(); s.serving.Add(1) *)
      Some (mkSt (concurrency s) (open s) (serving s + 1) (perip s) (conns s) (loops s ++ [mkL true false 0 0]))
  | LServeStop k =>         (* Accept failed: wp.Stop() (ready workers are told to exit), deferred s.serving.Add(-1) *)
      match nth_error (loops s) k with
      | Some lp =>
          if running lp && negb (busy lp) then
            Some (mkSt (concurrency s) (open s) (serving s - 1) (perip s) (conns s)
                       (upd (loops s) k (mkL false false (wcount lp - ready lp) 0)))
          else None
      | None => None
      end
  | LWorkerRetire k =>      (* wp.clean retires an idle worker *)
      match nth_error (loops s) k with
      | Some lp =>
          if 0 <? ready lp then
            Some (mkSt (concurrency s) (open s) (serving s) (perip s) (conns s)
                       (upd (loops s) k (mkL (running lp) (busy lp) (wcount lp - 1) (ready lp - 1))))
          else None
      | None => None
      end
  | LAccept k a =>          (* ln.Accept() returned a connection in loop k *)
      match nth_error (loops s) k with
      | Some lp =>
          if running lp && negb (busy lp) then
            let ip := ip_of_addr a in
            Some (mkSt (concurrency s) (open s) (serving s) (perip s)
                       (conns s ++ [mkC (VServe k) ip false false (if needs_reg cf ip then PArrived else PChecked) HNone 0])
                       (upd (loops s) k (set_busy lp true)))
          else None
      | None => None
      end
  | LServeConn a =>         (* s.ServeConn(c) called *)
      let ip := ip_of_addr a in
      Some (set_conns s (conns s ++ [mkC VConn ip false false (if needs_reg cf ip then PArrived else PChecked) HNone 0]))
  | LRegister c =>          (* wrapPerIPConn: n := Register(ip); if n > s.MaxConnsPerIP ... *)
      match nth_error (conns s) c with
      | Some r =>
          match ph r with
          | PArrived =>
              let (m', n) := register (perip s) (cip r) in
              Some (mkSt (concurrency s) (open s) (serving s) m'
                         (upd (conns s) c (mkC (cvia r) (cip r) true (closed r) (if maxip cf <? n then PIPOver else PChecked) (hj r) (resp r)))
                         (loops s))
          | _ => None
          end
      | None => None
      end
  | LRejectIP c =>          (* Unregister(ip); writeFastError(429); c.Close(); acceptConn continues / ServeConn returns ErrPerIPConnLimit *)
      match nth_error (conns s) c with
      | Some r =>
          match ph r with
          | PIPOver =>
              Some (mkSt (concurrency s) (open s) (serving s) (unregister (perip s) (cip r))
                         (upd (conns s) c (mkC (cvia r) (cip r) false true PDone (hj r) StatusTooManyRequests))
                         (free_loop (loops s) (cvia r)))
          | _ => None
          end
      | None => None
      end
  | LOpenInc c =>           (* s.open.Add(1) *)
      match nth_error (conns s) c with
      | Some r =>
          match ph r, cvia r with
          | PChecked, VServe _ =>
              Some (mkSt (concurrency s) (open s + 1) (serving s) (perip s) (upd (conns s) c (set_ph r POpened)) (loops s))
          | PAcquired, VConn =>
              Some (mkSt (concurrency s) (open s + 1) (serving s) (perip s) (upd (conns s) c (set_ph r PServing)) (loops s))
          | _, _ => None
          end
      | None => None
      end
  | LGetChOk c =>           (* wp.Serve: getCh found or created a worker; ch.ch <- c *)
      match nth_error (conns s) c with
      | Some r =>
          match ph r, cvia r with
          | POpened, VServe k =>
              match nth_error (loops s) k with
              | Some lp =>
                  if 0 <? ready lp then
                    Some (mkSt (concurrency s) (open s) (serving s) (perip s) (upd (conns s) c (set_ph r PQueued))
                               (upd (loops s) k (mkL (running lp) false (wcount lp) (ready lp - 1))))
                  else if wcount lp <? effConc cf then
                    Some (mkSt (concurrency s) (open s) (serving s) (perip s) (upd (conns s) c (set_ph r PQueued))
                               (upd (loops s) k (mkL (running lp) false (wcount lp + 1) (ready lp))))
                  else None
              | None => None
              end
          | _, _ => None
          end
      | None => None
      end
  | LGetChFail c =>         (* wp.Serve returned false: no ready worker and workersCount >= MaxWorkersCount *)
      match nth_error (conns s) c with
      | Some r =>
          match ph r, cvia r with
          | POpened, VServe k =>
              match nth_error (loops s) k with
              | Some lp =>
                  if (0 <? ready lp) || (wcount lp <? effConc cf) then None
                  else Some (set_conns s (upd (conns s) c (set_ph r PNoWorker)))
              | None => None
              end
          | _, _ => None
          end
      | None => None
      end
  | LRejectDec c =>         (* s.open.Add(-1) (and rejectedRequestsCount++) *)
      match nth_error (conns s) c with
      | Some r =>
          match ph r with
          | PNoWorker =>
              Some (mkSt (concurrency s) (open s - 1) (serving s) (perip s) (upd (conns s) c (set_ph r PRejecting)) (loops s))
          | _ => None
          end
      | None => None
      end
  | LRejectConc c cerr =>   (* writeFastError(503); c.Close() *)
      match nth_error (conns s) c with
      | Some r =>
          match ph r with
          | PRejecting =>
              let (m', r') := close_conn (perip s) r cerr in
              Some (mkSt (concurrency s) (open s) (serving s) m'
                         (upd (conns s) c (mkC (cvia r') (cip r') (reg r') (closed r') PDone (hj r') StatusServiceUnavailable))
                         (free_loop (loops s) (cvia r)))
          | _ => None
          end
      | None => None
      end
  | LTryAcquire c =>        (* tryAcquireConcurrency: n := concurrency.Add(1); n <= getConcurrency() *)
      match nth_error (conns s) c with
      | Some r =>
          match ph r, cvia r with
          | PChecked, VConn =>
              let n := concurrency s + 1 in
              Some (mkSt n (open s) (serving s) (perip s)
                         (upd (conns s) c (set_ph r (if n <=? effConc cf then PAcquired else PConcOver))) (loops s))
          | _, _ => None
          end
      | None => None
      end
  | LAcquireFail c =>       (* tryAcquireConcurrency: releaseConcurrency(); return false *)
      match nth_error (conns s) c with
      | Some r =>
          match ph r with
          | PConcOver =>
              Some (mkSt (concurrency s - 1) (open s) (serving s) (perip s) (upd (conns s) c (set_ph r PRejecting)) (loops s))
          | _ => None
          end
      | None => None
      end
  | LStart c =>             (* worker: serveConnCounted(c, true): s.concurrency.Add(1) *)
      match nth_error (conns s) c with
      | Some r =>
          match ph r with
          | PQueued =>
              Some (mkSt (concurrency s + 1) (open s) (serving s) (perip s) (upd (conns s) c (set_ph r PServing)) (loops s))
          | _ => None
          end
      | None => None
      end
  | LRequest c =>           (* one more request served on a kept-alive connection: no shared counter moves *)
      match nth_error (conns s) c with
      | Some r => match ph r with PServing => Some s | _ => None end
      | None => None
      end
  | LFinish c =>            (* the request loop ends (Connection: close, error, EOF, stop flag) *)
      match nth_error (conns s) c with
      | Some r =>
          match ph r with
          | PServing => Some (set_conns s (upd (conns s) c (set_ph r PEnding)))
          | _ => None
          end
      | None => None
      end
  | LHijack c =>            (* go hijackConnHandler(...); err = errHijacked *)
      match nth_error (conns s) c with
      | Some r =>
          match ph r, hj r with
          | PServing, HNone => Some (set_conns s (upd (conns s) c (set_hj (set_ph r PEnding) HRun)))
          | _, _ => None
          end
      | None => None
      end
  | LCleanupOpen c =>       (* serveConnCleanup: s.open.Add(-1) *)
      match nth_error (conns s) c with
      | Some r =>
          match ph r with
          | PEnding =>
              Some (mkSt (concurrency s) (open s - 1) (serving s) (perip s)
                         (upd (conns s) c (set_ph r (match cvia r with VServe _ => PEnded | VConn => PServed end))) (loops s))
          | _ => None
          end
      | None => None
      end
  | LCleanupConc c =>       (* serveConnCleanup(countConcurrency = true): releaseConcurrency *)
      match nth_error (conns s) c with
      | Some r =>
          match ph r with
          | PEnded =>
              Some (mkSt (concurrency s - 1) (open s) (serving s) (perip s) (upd (conns s) c (set_ph r PServed)) (loops s))
          | _ => None
          end
      | None => None
      end
  | LCloseAfter c cerr =>   (* workerFunc / ServeConn: if err != errHijacked { c.Close() } *)
      match nth_error (conns s) c with
      | Some r =>
          match ph r with
          | PServed =>
              match hj r with
              | HNone =>
                  let (m', r') := close_conn (perip s) r cerr in
                  Some (mkSt (concurrency s) (open s) (serving s) m' (upd (conns s) c (set_ph r' PReleasing)) (loops s))
              | _ => Some (set_conns s (upd (conns s) c (set_ph r PReleasing)))
              end
          | _ => None
          end
      | None => None
      end
  | LWorkerRelease c =>     (* wp.release: back to ready, or (mustStop) the worker exits *)
      match nth_error (conns s) c with
      | Some r =>
          match ph r, cvia r with
          | PReleasing, VServe k =>
              match nth_error (loops s) k with
              | Some lp =>
                  Some (mkSt (concurrency s) (open s) (serving s) (perip s) (upd (conns s) c (set_ph r PDone))
                             (upd (loops s) k (if running lp then mkL true (busy lp) (wcount lp) (ready lp + 1)
                                               else mkL false (busy lp) (wcount lp - 1) (ready lp))))
              | None => None
              end
          | _, _ => None
          end
      | None => None
      end
  | LReleaseConc c =>       (* ServeConn: deferred releaseConcurrency *)
      match nth_error (conns s) c with
      | Some r =>
          match ph r, cvia r with
          | PReleasing, VConn =>
              Some (mkSt (concurrency s - 1) (open s) (serving s) (perip s) (upd (conns s) c (set_ph r PDone)) (loops s))
          | _, _ => None
          end
      | None => None
      end
  | LHijackDone c cerr =>   (* hijackConnHandler: h(hjc) returned; if !KeepHijackedConns { c.Close() } *)
      match nth_error (conns s) c with
      | Some r =>
          match hj r with
          | HRun =>
              if keep cf then Some (set_conns s (upd (conns s) c (set_hj r HDone)))
              else
                let (m', r') := close_conn (perip s) r cerr in
                Some (mkSt (concurrency s) (open s) (serving s) m' (upd (conns s) c (set_hj r' HDone)) (loops s))
          | _ => None
          end
      | None => None
      end
  | LUserClose c cerr =>    (* one more Close on the connection object by somebody else than its goroutine; others can hold a
                               reference from the moment the request loop runs (s.idleConns, ctx.Conn(), the hijackConn) *)
      match nth_error (conns s) c with
      | Some r =>
          match ph r with
          | PServing | PEnding | PEnded | PServed | PReleasing | PDone =>
              let (m', r') := close_conn (perip s) r cerr in
              Some (mkSt (concurrency s) (open s) (serving s) m' (upd (conns s) c r') (loops s))
          | _ => None
          end
      | None => None
      end
  end.

Fixpoint run (cf : cfg) (s : st) (tr : list label) : option st :=
  match tr with
  | [] => Some s
  | l :: r => match step cf s l with Some s' => run cf s' r | None => None end
  end.

Inductive reach (cf : cfg) : st -> Prop :=
| reach_init : reach cf init
| reach_step s l s' : reach cf s -> step cf s l = Some s' -> reach cf s'.

(* ---- what the getters return ------------------------------------------------------------------ *)
Definition get_concurrency (s : st) : Z := concurrency s.      (* GetCurrentConcurrency *)
Definition get_open (s : st) : Z := open s.                    (* GetOpenConnectionsCount *)

(* ---- counting helpers --------------------------------------------------------------------------- *)
Fixpoint sumf {A} (f : A -> Z) (l : list A) : Z :=
  match l with [] => 0 | x :: r => f x + sumf f r end.

Definition b2z (b : bool) : Z := if b then 1 else 0.

Definition is_serving (r : crec) : bool := match ph r with PServing => true | _ => false end.
Definition n_serving (s : st) : Z := sumf (fun r => b2z (is_serving r)) (conns s).

(* connections of one IPv4 address that passed the per-IP check and have not been closed *)
Definition live_ip (ip : N) (r : crec) : bool :=
  reg r && N.eqb (cip r) ip && match ph r with PArrived | PIPOver => false | _ => true end.
Definition n_live (s : st) (ip : N) : Z := sumf (fun r => b2z (live_ip ip r)) (conns s).

(* closed, or hijacked and released: the goroutine that served it is done with it and it has been closed *)
Definition terminal (r : crec) : bool :=
  match ph r with PDone => closed r | _ => false end.
Definition all_terminal (s : st) : bool := forallb terminal (conns s).

Definition n_running (s : st) : Z := sumf (fun lp => b2z (running lp)) (loops s).

(* ==== the perIPConn wrapper objects ===============================================================================
   perIPConn.Close sets c.Conn = nil under c.lock, closes the underlying connection and unregisters c.ip.  Several parties can hold
   a pointer to the same object (the serving goroutine, s.idleConns / closeIdleConns, a handler that kept ctx.Conn(), the user of a
   hijacked connection) and each may call Close; acquirePerIPConn Gets an object from perIPConnPool and overwrites c.Conn / c.ip.
   Since "fix: do not recycle perIPConn wrappers" (bf2f4e5) Close does not Put the object back any more, so the pool stays empty
   and every connection gets a fresh object.  (Before that fix a Close through a stale pointer closed the connection the object
   had been handed to next.)  This second LTS keeps the identity of the wrapper objects that the LTS above abstracts away. *)
Record wrapper := mkW {
  w_conn : option nat;   (* perIPConn.Conn: the underlying connection (by id), None = nil *)
  w_addr : N             (* perIPConn.ip *)
}.

Record pst := mkP {
  wrappers : list wrapper;        (* every perIPConn object allocated so far; its id is its position *)
  pool : list nat;                (* perIPConnPool: objects available to Get *)
  owner : list nat;               (* owner[c]: the object returned by acquirePerIPConn for connection c (c = position) *)
  uclosed : list (nat * nat);     (* log of Close calls on underlying connections: (whose reference was used, which connection got closed) *)
  pm : pmap                       (* perIPConnCounter.m *)
}.

Definition pinit : pst := mkP [] [] [] [] (fun _ => None).

Inductive plabel :=
| PAcquire (ip : N) (reuse : option nat)   (* Register(ip) passed; acquirePerIPConn for connection c = length owner:
                                              Get returned the pool's entry number i (Some i) or nothing (None: a new object) *)
| PClose (c : nat).                        (* a holder of the object acquired for connection c calls Close on it *)

Fixpoint remove_nth {A} (l : list A) (i : nat) : list A :=
  match l, i with
  | [], _ => []
  | _ :: r, O => r
  | x :: r, S j => x :: remove_nth r j
  end.

Definition pstep (s : pst) (l : plabel) : option pst :=
  match l with
  | PAcquire ip reuse =>
      let c := length (owner s) in
      let m' := fst (register (pm s) ip) in
      match reuse with
      | None =>
          Some (mkP (wrappers s ++ [mkW (Some c) ip]) (pool s) (owner s ++ [length (wrappers s)]) (uclosed s) m')
      | Some i =>
          match nth_error (pool s) i with
          | Some w => Some (mkP (upd (wrappers s) w (mkW (Some c) ip)) (remove_nth (pool s) i) (owner s ++ [w]) (uclosed s) m')
          | None => None
          end
      end
  | PClose c =>
      match nth_error (owner s) c with
      | Some w =>
          match nth_error (wrappers s) w with
          | Some (mkW (Some c') ip') =>    (* cc := c.Conn; c.Conn = nil; cc.Close(); Unregister(c.ip) -- the object is not recycled *)
              Some (mkP (upd (wrappers s) w (mkW None ip')) (pool s) (owner s) (uclosed s ++ [(c, c')]) (unregister (pm s) ip'))
          | Some (mkW None _) => Some s    (* cc == nil: return nil *)
          | None => None
          end
      | None => None
      end
  end.

Fixpoint prun (s : pst) (tr : list plabel) : option pst :=
  match tr with
  | [] => Some s
  | l :: r => match pstep s l with Some s' => prun s' r | None => None end
  end.

(* the Close calls of a trace, by whose reference they were made *)
Fixpoint closers (tr : list plabel) : list nat :=
  match tr with
  | [] => []
  | PClose c :: r => c :: closers r
  | _ :: r => closers r
  end.

(* every Close closed the connection the reference was acquired for *)
Definition closes_own (s : pst) : bool := forallb (fun e => Nat.eqb (fst e) (snd e)) (uclosed s).

(* ==== perIPConn.Close in steps =====================================================================================
   perIPConn.Close is   lock; cc := c.Conn; c.Conn = nil; unlock;  if cc == nil { return nil };  err := cc.Close();  Unregister(c.ip);  return err
   Any number of callers can be inside Close of the same object at the same time (the worker after Connection: close, closeIdleConns,
   hijackConnHandler, a handler or hijack user holding ctx.Conn()), the underlying cc.Close() can take arbitrarily long, and new
   connections of the same address arrive meanwhile.  This third LTS has one step per part of Close: the locked section claims the
   connection (only the caller that finds c.Conn != nil goes on), that caller's cc.Close() returns, that caller unregisters. *)
Inductive wstage :=
| WOpen          (* c.Conn != nil *)
| WClaimed       (* a Close call has taken c.Conn (now nil) and is inside cc.Close() *)
| WUnderClosed   (* cc.Close() returned; Unregister comes next *)
| WDone.         (* unregistered *)

Record xst := mkX {
  xw : list (N * wstage);   (* per admitted connection: its address and the stage of its wrapper *)
  xm : pmap;                (* perIPConnCounter.m *)
  xunreg : list nat         (* ghost: the connections for which Unregister has run, latest first *)
}.

Definition xinit : xst := mkX [] (fun _ => None) [].

Inductive xlabel :=
| XArrive (ip : N)     (* wrapPerIPConn: Register; over the limit: Unregister + 429 + close, else a wrapper is made *)
| XClose (c : nat)     (* some caller's Close reaches the locked section *)
| XUnder (c : nat)     (* the claiming caller's cc.Close() returns *)
| XUnreg (c : nat).    (* the claiming caller unregisters *)

Definition xstep (lim : Z) (s : xst) (l : xlabel) : option xst :=
  match l with
  | XArrive ip =>
      let (m', n) := register (xm s) ip in
      if lim <? n then Some (mkX (xw s) (unregister m' ip) (xunreg s))
      else Some (mkX (xw s ++ [(ip, WOpen)]) m' (xunreg s))
  | XClose c =>
      match nth_error (xw s) c with
      | Some (ip, WOpen) => Some (mkX (upd (xw s) c (ip, WClaimed)) (xm s) (xunreg s))
      | Some _ => Some s                      (* cc == nil: return nil *)
      | None => None
      end
  | XUnder c =>
      match nth_error (xw s) c with
      | Some (ip, WClaimed) => Some (mkX (upd (xw s) c (ip, WUnderClosed)) (xm s) (xunreg s))
      | _ => None
      end
  | XUnreg c =>
      match nth_error (xw s) c with
      | Some (ip, WUnderClosed) => Some (mkX (upd (xw s) c (ip, WDone)) (unregister (xm s) ip) (c :: xunreg s))
      | _ => None
      end
  end.

Fixpoint xrun (lim : Z) (s : xst) (tr : list xlabel) : option xst :=
  match tr with
  | [] => Some s
  | l :: r => match xstep lim s l with Some s' => xrun lim s' r | None => None end
  end.

Inductive xreach (lim : Z) : xst -> Prop :=
| xreach_init : xreach lim xinit
| xreach_step s l s' : xreach lim s -> xstep lim s l = Some s' -> xreach lim s'.

(* connections of an address that still hold their per-IP unit (not yet unregistered), and those that are still open *)
Definition holds_ip (ip : N) (e : N * wstage) : Z :=
  if N.eqb (fst e) ip then match snd e with WDone => 0 | _ => 1 end else 0.
Definition open_ip (ip : N) (e : N * wstage) : Z :=
  if N.eqb (fst e) ip then match snd e with WOpen => 1 | _ => 0 end else 0.
