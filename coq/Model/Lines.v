(* Lines.v — shared model of fasthttp's HEAD line machinery (owner: C09/C08).

   Models, function by function:
     header.go        nextLine, readRawHeaders, isValidHeaderKey, isValidTrailerKey, isBadTrailer,
                      AddTrailerBytes/SetTrailerBytes, hasHeaderValue (+ headerValueScanner.next, stripSpace),
                      parseContentLength, isHTTPVersion, isOnlyCRLF
     headerscanner.go headerScanner.next (split in scan_init + scan_next), readLine,
                      readContinuedLineSlice, skipSpace, isASCIILetter, trim, trimTrailingSpace
     cookie.go        caseInsensitiveCompare        args.go  appendArg / setArg / peekArgBytes (on (key,value) lists)

   CONVENTIONS (binding for importers)
   * Go []byte  -> bytes (list N);  Go index / length -> nat (never negative in the modelled code: every
     IndexByte result is an [option nat], None = -1).
   * Go's IMPLICIT BOUNDS CHECKS ARE EXPLICIT: a modelled function whose Go text indexes or slices returns
     [R A] = Ok a | Panic | OutOfFuel.  Every b[i] goes through [idx], every b[lo:hi] through [slice]
     (checked against len(b); Go checks slices against cap(b) >= len(b), so the model is at least as strict:
     "model never Panics" implies "Go never panics", and when the model does not Panic both agree).
     Exception, stated once: a guard that is syntactically adjacent to the access it protects
     (`len(b) > 0 && b[0] == ' '`, `for i < len(s) && s[i] == ' '`, `for _, c := range b`) is modelled by list
     pattern matching / structural recursion — guard and access cannot be separated there.
   * Search loops whose progress is not structural run on fuel and return OutOfFuel when it is exhausted.
   * In-place writes of the Go code into the bufio buffer (append(mline, ' ') in readContinuedLineSlice and
     normalizeHeaderKeyValidated(s.key)) only touch positions strictly below s.r and never precede a
     NeedMore retry; the model is value-semantic and does not represent them (assumption listed in props). *)
From FH Require Import Model.Base Gen.GenC09 Gen.GenC32 Model.ByteClassModel.
Open Scope nat_scope.

(* ---------- result type with explicit panic / fuel ---------- *)
Inductive R (A : Type) : Type := Ok (a : A) | Panic | OutOfFuel.
Arguments Ok {A} a. Arguments Panic {A}. Arguments OutOfFuel {A}.

Definition bind {A B} (m : R A) (f : A -> R B) : R B :=
  match m with Ok a => f a | Panic => Panic | OutOfFuel => OutOfFuel end.
Notation "'do' x <- m ; k" := (bind m (fun x => k))
  (at level 200, x name, m at level 100, k at level 200, right associativity).

(* b[i] *)
Definition idx (b : bytes) (i : nat) : R N :=
  match nth_error b i with Some c => Ok c | None => Panic end.
(* b[lo:hi] *)
Definition slice (b : bytes) (lo hi : nat) : R bytes :=
  if (lo <=? hi) && (hi <=? length b) then Ok (firstn (hi - lo) (skipn lo b)) else Panic.

(* ---------- characters (tied to the translated constants) ---------- *)
Example chars_tie : Z.to_N rChar = CR /\ Z.to_N nChar = LF /\ strCRLF = [CR; LF] /\ strCRLFCRLF = [CR; LF; CR; LF].
Proof. repeat split; reflexivity. Qed.

Definition is_sp_ht (c : N) : bool := N.eqb c SP || N.eqb c HT.
Definition is_sp (c : N) : bool := N.eqb c SP.

(* ---------- bytes.IndexByte / bytes.HasPrefix / bytes.Index ---------- *)
Fixpoint index_byte (b : bytes) (c : N) : option nat :=
  match b with
  | [] => None
  | x :: r => if N.eqb x c then Some 0 else option_map S (index_byte r c)
  end.

Fixpoint has_prefix (p b : bytes) : bool :=
  match p, b with
  | [], _ => true
  | x :: p', y :: b' => N.eqb x y && has_prefix p' b'
  | _ :: _, [] => false
  end.

Fixpoint index_sub (p b : bytes) : option nat :=
  if has_prefix p b then Some 0
  else match b with [] => None | _ :: r => option_map S (index_sub p r) end.

(* ---------- trim helpers (headerscanner.go) ---------- *)
Fixpoint drop_while (f : N -> bool) (b : bytes) : bytes :=
  match b with [] => [] | c :: r => if f c then drop_while f r else b end.
Definition drop_while_right (f : N -> bool) (b : bytes) : bytes := rev (drop_while f (rev b)).

(* trim: leading then trailing SP/HT *)
Definition trim (s : bytes) : bytes := drop_while_right is_sp_ht (drop_while is_sp_ht s).
Definition trimTrailingSpace (s : bytes) : bytes := drop_while_right is_sp_ht s.
(* stripSpace (header.go): SP and HTAB at both ends of a list element (since c40b715) *)
Definition stripSpace (s : bytes) : bytes := drop_while_right is_sp_ht (drop_while is_sp_ht s).
(* SP only, both ends: cookie.go decodeCookieArg's trimming *)
Definition stripSP (s : bytes) : bytes := drop_while_right is_sp (drop_while is_sp s).

Definition isASCIILetter (b : N) : bool :=
  let b' := N.lor b 32 in (N.leb 97 b') && (N.leb b' 122).

(* cookie.go caseInsensitiveCompare *)
Fixpoint cic (a b : bytes) : bool :=
  match a, b with
  | [], [] => true
  | x :: a', y :: b' => N.eqb (N.lor x 32) (N.lor y 32) && cic a' b'
  | _, _ => false
  end.

(* first byte | 0x20, used by the `switch s.key[0] | 0x20` dispatch (key non-empty there) *)
Definition first_lower (k : bytes) : N := match k with c :: _ => N.lor c 32 | [] => 0%N end.

(* ---------- isValidHeaderKey (header.go) ---------- *)
Fixpoint ivhk_loop (a : bytes) (seenSpace innerSpace : bool) : bool * bool :=
  match a with
  | [] => (true, innerSpace)
  | c :: r =>
      if N.eqb c SP then ivhk_loop r true innerSpace
      else if negb (validHeaderFieldByte c) then (false, false)
      else ivhk_loop r seenSpace (innerSpace || seenSpace)
  end.
Definition isValidHeaderKey (a : bytes) : bool * bool :=
  match a with [] => (false, false) | _ => ivhk_loop a false false end.

Definition isValidTrailerKey (key : bytes) : bool :=
  match key with [] => false | _ => forallb validHeaderFieldByte key end.

(* ---------- nextLine (header.go) ---------- *)
(* Ok None = ErrNeedMore; Ok (Some (line, rest)) *)
Definition nextLine (b : bytes) : R (option (bytes * bytes)) :=
  match index_byte b LF with
  | None => Ok None
  | Some nNext =>
      do n <- (if 0 <? nNext
               then do c <- idx b (nNext - 1); Ok (if N.eqb c CR then nNext - 1 else nNext)
               else Ok nNext);
      do line <- slice b 0 n;
      do rest <- slice b (nNext + 1) (length b);
      Ok (Some (line, rest))
  end.

(* the `for len(b) == 0 { b, bNext, err = nextLine(bNext) }` loop of both parseFirstLine functions:
   skips leading blank lines, returns the first non-blank line and what follows it *)
Fixpoint firstLine_loop (fuel : nat) (bNext : bytes) : R (option (bytes * bytes)) :=
  match fuel with
  | O => OutOfFuel
  | S f =>
      do r <- nextLine bNext;
      match r with
      | None => Ok None
      | Some (b, bNext') => match b with [] => firstLine_loop f bNext' | _ => Ok (Some (b, bNext')) end
      end
  end.

(* ---------- isHTTPVersion (header.go) ---------- *)
Definition is_digit (c : N) : bool := N.leb 48 c && N.leb c 57.
Definition isHTTPVersion (proto : bytes) : R bool :=
  if negb (length proto =? length strHTTP11) then Ok false
  else if negb (has_prefix (firstn 5 strHTTP11) proto) then Ok false
  else do c6 <- idx proto 6;
       if negb (N.eqb c6 DOT) then Ok false
       else do c5 <- idx proto 5;
            if negb (is_digit c5) then Ok false
            else do c7 <- idx proto 7; Ok (is_digit c7).

(* ---------- readRawHeaders (header.go) ---------- *)
(* Ok None = ErrNeedMore; Ok (Some (dst, n)) = the copy stored in h.rawHeaders and the block length n.
   With an empty header block (first line blank) dst stays empty: the function returns before copying. *)
Fixpoint rrh_loop (fuel : nat) (buf b : bytes) (m n : nat) : R (option (bytes * nat)) :=
  match fuel with
  | O => OutOfFuel
  | S f =>
      do b' <- slice b m (length b);
      match index_byte b' LF with
      | None => Ok None
      | Some i =>
          let m' := S i in
          let n' := n + m' in
          do cr <- (if m' =? 2 then do c <- idx b' 0; Ok (N.eqb c CR) else Ok false);
          if cr || (m' =? 1)
          then do dst <- slice buf 0 n'; Ok (Some (dst, n'))       (* dst = append(dst, buf[:n]...) *)
          else rrh_loop f buf b' m' n'
      end
  end.
Definition readRawHeaders (buf : bytes) : R (option (bytes * nat)) :=
  match index_byte buf LF with
  | None => Ok None
  | Some n =>
      do cr <- (if n =? 1 then do c <- idx buf 0; Ok (N.eqb c CR) else Ok false);
      if cr || (n =? 0) then Ok (Some ([], n + 1))
      else rrh_loop (S (length buf)) buf buf (n + 1) (n + 1)
  end.

(* ---------- headerScanner (headerscanner.go) ---------- *)
(* The scanner state after initialisation is the pair (b, r): b = s.b truncated at the block end, r = s.r. *)

(* first part of next(): !s.initialized *)
Inductive init_res :=
| IEmpty              (* block starts with CRLF: s.r = 2, next returns false with s.err = nil *)
| INeedMore           (* blockEnd = 0 and no CRLFCRLF in the buffer: s.err = ErrNeedMore *)
| IStartSpace         (* "headers cannot start with space or tab" *)
| IBadBlockEnd        (* blockEnd > 0 and the block does not end with an empty CRLF line *)
| IReady (b : bytes). (* s.b truncated, s.r = 0 *)

(* `!(blockEnd < 3 || blockEnd > len(b) || b[blockEnd-3] != '\n' || b[blockEnd-2] != '\r')` *)
Definition block_end_ok (b : bytes) (blockEnd : nat) : R bool :=
  if (blockEnd <? 3) || (length b <? blockEnd) then Ok false
  else do c3 <- idx b (blockEnd - 3);
       if negb (N.eqb c3 LF) then Ok false
       else do c2 <- idx b (blockEnd - 2); Ok (N.eqb c2 CR).

Inductive block_res := BlkNeed | BlkBad | BlkOk (b : bytes).

(* When the caller delimited the block (blockEnd > 0: RequestHeader.parseHeaders) the decision is made from the
   block alone; with blockEnd = 0 (ResponseHeader.parseHeaders, parseTrailer) the whole buffer is searched for
   CRLFCRLF. *)
Definition scan_init (b : bytes) (blockEnd : nat) : R init_res :=
  if has_prefix strCRLF b then Ok IEmpty
  else
    do ob <- (if 0 <? blockEnd
              then do good <- block_end_ok b blockEnd;
                   if good then do x <- slice b 0 blockEnd; Ok (BlkOk x) else Ok BlkBad
              else match index_sub strCRLFCRLF b with
                   | None => Ok BlkNeed
                   | Some i => do x <- slice b 0 (i + 4); Ok (BlkOk x)
                   end);
    match ob with
    | BlkNeed => Ok INeedMore
    | BlkBad => Ok IBadBlockEnd
    | BlkOk b' =>
        match b' with
        | c :: _ => if is_sp_ht c then Ok IStartSpace else Ok (IReady b')
        | [] => Ok (IReady b')
        end
    end.

(* readLine: (line, new r); a missing LF gives the nil line and leaves r alone *)
Definition readLine (b : bytes) (r : nat) : R (bytes * nat) :=
  do t <- slice b r (length b);
  match index_byte t LF with
  | None => Ok ([], r)
  | Some i =>
      do line <- slice b r (r + i);
      do line' <- (if 0 <? i
                   then do c <- idx line (i - 1);
                        if N.eqb c CR then slice line 0 (i - 1) else Ok line
                   else Ok line);
      Ok (line', r + i + 1)
  end.

(* skipSpace: the unguarded s.b[s.r] *)
Fixpoint skipSpace_loop (fuel : nat) (b : bytes) (r : nat) (skipped : bool) : R (nat * bool) :=
  match fuel with
  | O => OutOfFuel
  | S f =>
      do c <- idx b r;
      if is_sp_ht c then skipSpace_loop f b (S r) true else Ok (r, skipped)
  end.
Definition skipSpace (b : bytes) (r : nat) : R (nat * bool) := skipSpace_loop (S (length b)) b r false.

(* `for s.skipSpace() { mline = append(mline, ' '); line := s.readLine(); mline = append(mline, trim(line)...) }` *)
Fixpoint cont_loop (fuel : nat) (b : bytes) (r : nat) (mline : bytes) : R (bytes * nat) :=
  match fuel with
  | O => OutOfFuel
  | S f =>
      do sk <- skipSpace b r;
      let '(r1, skipped) := sk in
      if skipped
      then do lr <- readLine b r1;
           let '(line, r2) := lr in
           cont_loop f b r2 (mline ++ [SP] ++ trim line)
      else Ok (mline, r1)
  end.

Inductive cl_res :=
| CLBlank (r : nat)                              (* (line, -1, nil) with len(line) == 0 *)
| CLNoColon (r : nat)                            (* (nil, -1, "missing colon") *)
| CLLine (kv : bytes) (colon : nat) (r : nat).

Definition readContinuedLineSlice (b : bytes) (r : nat) : R cl_res :=
  do lr <- readLine b r;
  let '(line, r1) := lr in
  match line with
  | [] => Ok (CLBlank r1)
  | _ =>
      match index_byte line COLON with
      | None => Ok (CLNoColon r1)
      | Some colon =>
          do early <- (if 1 <? length b - r1
                       then do peek <- slice b r1 (r1 + 2);
                            Ok (match peek with
                                | c :: _ => isASCIILetter c || N.eqb c LF
                                | [] => false
                                end
                                || beq peek strCRLF)
                       else Ok false);
          if early then Ok (CLLine (trim line) colon r1)
          else do mr <- cont_loop (S (length b)) b r1 (trim line);
               let '(mline, r2) := mr in Ok (CLLine mline colon r2)
      end
  end.

Inductive scan_err := SMissingColon | SBadKey.
Inductive next_res :=
| NKV (k v : bytes) (innerSpace : bool) (r : nat)   (* next() = true *)
| NStop (e : option scan_err) (r : nat).            (* next() = false; s.err = e *)

(* second part of next(), after initialisation *)
Definition scan_next (b : bytes) (r : nat) : R next_res :=
  do cl <- readContinuedLineSlice b r;
  match cl with
  | CLBlank r1 => Ok (NStop None r1)
  | CLNoColon r1 => Ok (NStop (Some SMissingColon) r1)
  | CLLine kv colon r1 =>
      match kv with
      | [] => Ok (NStop None r1)
      | _ =>
          do k <- slice kv 0 colon;
          do v <- slice kv (colon + 1) (length kv);
          let '(valid, inner) := isValidHeaderKey k in
          if negb valid then Ok (NStop (Some SBadKey) r1)
          else Ok (NKV k (drop_while is_sp_ht v) inner r1)
      end
  end.

(* ---------- parseContentLength (header.go) over Ints.parseUintBuf is in ReqHead.v ---------- *)

(* ---------- hasHeaderValue (header.go) ---------- *)
(* headerValueScanner.next: bytes.Cut on ','; stops when the remaining input is empty *)
Fixpoint cut_byte (b : bytes) (c : N) : option (bytes * bytes) :=
  match b with
  | [] => None
  | x :: r => if N.eqb x c then Some ([], r)
              else match cut_byte r c with Some (a, z) => Some (x :: a, z) | None => None end
  end.
Fixpoint hhv_loop (fuel : nat) (b value : bytes) : bool :=
  match fuel with
  | O => false
  | S f =>
      match b with
      | [] => false
      | _ => match cut_byte b COMMA with
             | None => cic (stripSpace b) value
             | Some (before, after) => cic (stripSpace before) value || hhv_loop f after value
             end
      end
  end.
Definition hasHeaderValue (s value : bytes) : bool := hhv_loop (S (length s)) s value.

(* ---------- argsKV lists as (key, value) pairs ---------- *)
Definition kvs := list (bytes * bytes).
Definition appendArg (h : kvs) (k v : bytes) : kvs := h ++ [(k, v)].
Fixpoint setArg (h : kvs) (k v : bytes) : kvs :=
  match h with
  | [] => [(k, v)]
  | (k', v') :: r => if beq k k' then (k', v) :: r else (k', v') :: setArg r k v
  end.
(* nil when absent *)
Fixpoint peekArgBytes (h : kvs) (k : bytes) : bytes :=
  match h with
  | [] => []
  | (k', v') :: r => if beq k' k then v' else peekArgBytes r k
  end.

(* ---------- isBadTrailer (header.go) ---------- *)
Definition x_forwarded : bytes := s2b "x-forwarded".   (* []byte literal inside isBadTrailer *)
Definition x_real_ip : bytes := s2b "x-real-ip".
Definition ch (s : string) : N := match s2b s with c :: _ => c | [] => 0%N end.

Definition isBadTrailer (key : bytes) : R bool :=
  match key with
  | [] => Ok true
  | k0 :: _ =>
      let c := N.lor k0 32 in
      if N.eqb c (ch "a") then Ok (cic key strAuthorization)
      else if N.eqb c (ch "c") then
        let other := Ok (cic key strConnection || cic key strCookie) in
        if length strContentType <=? length key then
          do p8 <- slice key 0 8;
          do q8 <- slice strContentType 0 8;
          if cic p8 q8 then
            do rest <- slice key 8 (length key);
            do e <- slice strContentEncoding 8 (length strContentEncoding);
            do l <- slice strContentLength 8 (length strContentLength);
            do t <- slice strContentType 8 (length strContentType);
            do g <- slice strContentRange 8 (length strContentRange);
            Ok (cic rest e || cic rest l || cic rest t || cic rest g)
          else other
        else other
      else if N.eqb c (ch "e") then Ok (cic key strExpect)
      else if N.eqb c (ch "h") then Ok (cic key strHost)
      else if N.eqb c (ch "k") then Ok (cic key strKeepAlive)
      else if N.eqb c (ch "l") then Ok (cic key strLocation)
      else if N.eqb c (ch "m") then Ok (cic key strMaxForwards)
      else if N.eqb c (ch "p") then
        if length strProxyConnection <=? length key then
          do p6 <- slice key 0 6;
          do q6 <- slice strProxyConnection 0 6;
          if cic p6 q6 then
            do rest <- slice key 6 (length key);
            do a <- slice strProxyConnection 6 (length strProxyConnection);
            do b <- slice strProxyAuthenticate 6 (length strProxyAuthenticate);
            do d <- slice strProxyAuthorization 6 (length strProxyAuthorization);
            Ok (cic rest a || cic rest b || cic rest d)
          else Ok false
        else Ok false
      else if N.eqb c (ch "r") then Ok (cic key strRange)
      else if N.eqb c (ch "s") then Ok (cic key strSetCookie)
      else if N.eqb c (ch "t") then Ok (cic key strTE || cic key strTrailer || cic key strTransferEncoding)
      else if N.eqb c (ch "w") then Ok (cic key strWWWAuthenticate)
      else if N.eqb c (ch "x") then
        do a <- (if 11 <=? length key then do p <- slice key 0 11; Ok (cic p x_forwarded) else Ok false);
        if a then Ok true
        else if 9 <=? length key then do p <- slice key 0 9; Ok (cic p x_real_ip) else Ok false
      else Ok false
  end.

(* ---------- AddTrailerBytes / SetTrailerBytes (header.go) ---------- *)
(* loop variable i+1 is [start]; returns (h.trailer, err == ErrBadTrailer) *)
Fixpoint addTrailer_loop (fuel : nat) (disableNorm : bool) (trailer : bytes) (start : nat)
         (acc : list bytes) (bad : bool) : R (list bytes * bool) :=
  match fuel with
  | O => OutOfFuel
  | S f =>
      if start <? length trailer then
        do t <- slice trailer start (length trailer);
        let i := match index_byte t COMMA with Some i => i | None => length t end in
        do piece <- slice t 0 i;
        let key := trim piece in
        do isbad <- (if negb (isValidTrailerKey key) then Ok true else isBadTrailer key);
        if isbad then addTrailer_loop f disableNorm t (i + 1) acc true
        else addTrailer_loop f disableNorm t (i + 1) (acc ++ [normalizeHeaderKeyValidated key disableNorm]) bad
      else Ok (acc, bad)
  end.
Definition SetTrailerBytes (disableNorm : bool) (trailer : bytes) : R (list bytes * bool) :=
  addTrailer_loop (S (length trailer)) disableNorm trailer 0 [] false.

(* ---------- isOnlyCRLF (header.go) ---------- *)
Definition isOnlyCRLF (b : bytes) : bool := forallb (fun c => N.eqb c CR || N.eqb c LF) b.

(* value bytes check used by both parseHeaders *)
Definition validValue (v : bytes) : bool := forallb validHeaderValueByte v.
