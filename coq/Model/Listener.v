(* Model of fasthttputil/inmemory_listener.go (property C33): InmemoryListener as a labelled
   transition system with any number of concurrent Dial, Accept and Close calls.

   Every call has an identifier (N); the identifier of a Dial call is also the identity of the
   PipeConns it creates (Dial returns Conn1 of pipe i, a successful Accept that received pipe i
   returns Conn2 of pipe i: "its peer").  One label = one lock region / select of the Go code:

     DialWithLocalAddr = DStart ; (DLockClosed | DLockOpen ; (DChk2Done | DChk2Open ;
                           (DSendDone | DSendOk ; (DWait1Acc | DWait1Default ;
                              (DWait2Acc | DWait2Done ; (DWait3Acc | DWait3Fail))))))
     Accept            = AStart ; (AChkDone | AChkOpen ; (ASelDone | ASelTake ; (AGotDone | AGotOpen ; AMark)))
     Close             = CStart ; (CLockAgain | CLockFirst ; CDrainTake* ; CDrainEnd)

   `close(ln.done); ln.closed = true` happen inside one critical section and the only reader of
   ln.closed (Dial) reads it under the same lock, so Close's locked region is one step.
   `acc i` = the `accepted` channel of Dial i has been closed; `pclosed i` = pipe i was closed by the
   listener code (a failed Dial closes both ends, Accept/Close close connections they drop).

   `lhist` logs completed calls, newest first; `sc` = ln.done was already closed when the call started.
   No proofs in this file. *)
From FH Require Import Model.Base Gen.GenC33.
Open Scope N_scope.

(* make(chan acceptConn, 1024) in NewInmemoryListener: regenerated from the source (Gen.GenC33.nln_ints) *)
Definition conns_cap : N := Z.to_N (nth 0 nln_ints 0%Z).

Inductive dpc :=
| DFresh
| DLock (sc : bool)   (* pipe created, before ln.lock.Lock(); if ln.closed … *)
| DChk2               (* before `select { case <-done: … default: }` *)
| DSend               (* before `select { case ln.conns <- c: case <-done: }` *)
| DWait1              (* before `select { case <-accepted: return ok; default: }` *)
| DWait2              (* before `select { case <-accepted: case <-done: }` *)
| DWait3              (* woken by done: `select { case <-accepted: return ok; default: }` *)
| DDone (ok : bool).

Inductive apc :=
| ANone
| AChk (sc : bool)    (* before `select { case <-ln.done: … default: }` *)
| ASel                (* before `select { case c := <-ln.conns: case <-ln.done: }` *)
| AGot (c : N)        (* received c, before `select { case <-ln.done: … default: }` *)
| AMark (c : N)       (* before close(c.accepted); return c.conn, nil *)
| ADone.

Inductive cpc := CNone | CLock | CDrain | CDone.

Inductive lev :=
| EvDial (i : N) (sc : bool) (ok : bool)
| EvAccept (j : N) (sc : bool) (r : option N)     (* Some i = returned Conn2 of pipe i; None = ErrInmemoryListenerClosed *)
| EvClose (k : N) (ok : bool).                    (* ok = returned nil; false = ErrInmemoryListenerClosed *)

Record lstate := mkL {
  conns : list N;        (* ln.conns, oldest first *)
  done : bool;           (* ln.done closed *)
  closed : bool;         (* ln.closed *)
  acc : N -> bool;
  pclosed : N -> bool;
  dp : N -> dpc;
  ap : N -> apc;
  cp : N -> cpc;
  lhist : list lev
}.

Definition linit : lstate := mkL [] false false (fun _ => false) (fun _ => false) (fun _ => DFresh) (fun _ => ANone) (fun _ => CNone) [].

Definition upd {A} (f : N -> A) (k : N) (v : A) : N -> A := fun x => if x =? k then v else f x.

Inductive llabel :=
| LDStart (i : N) | LDLockClosed (i : N) | LDLockOpen (i : N) | LDChk2Done (i : N) | LDChk2Open (i : N)
| LDSendOk (i : N) | LDSendDone (i : N) | LDWait1Acc (i : N) | LDWait1Default (i : N)
| LDWait2Acc (i : N) | LDWait2Done (i : N) | LDWait3Acc (i : N) | LDWait3Fail (i : N)
| LAStart (j : N) | LAChkDone (j : N) | LAChkOpen (j : N) | LASelTake (j : N) | LASelDone (j : N)
| LAGotDone (j : N) | LAGotOpen (j : N) | LAMark (j : N)
| LCStart (k : N) | LCLockFirst (k : N) | LCLockAgain (k : N) | LCDrainTake (k : N) | LCDrainEnd (k : N).

Definition set_dp (s : lstate) (i : N) (p : dpc) : lstate :=
  mkL (conns s) (done s) (closed s) (acc s) (pclosed s) (upd (dp s) i p) (ap s) (cp s) (lhist s).
Definition set_ap (s : lstate) (j : N) (p : apc) : lstate :=
  mkL (conns s) (done s) (closed s) (acc s) (pclosed s) (dp s) (upd (ap s) j p) (cp s) (lhist s).
Definition set_cp (s : lstate) (k : N) (p : cpc) : lstate :=
  mkL (conns s) (done s) (closed s) (acc s) (pclosed s) (dp s) (ap s) (upd (cp s) k p) (lhist s).

(* `_ = sConn.Close(); _ = cConn.Close(); return nil, ErrInmemoryListenerClosed` *)
Definition d_fail (s : lstate) (i : N) (sc : bool) : lstate :=
  mkL (conns s) (done s) (closed s) (acc s) (upd (pclosed s) i true) (upd (dp s) i (DDone false)) (ap s) (cp s)
      (EvDial i sc false :: lhist s).
Definition d_ok (s : lstate) (i : N) : lstate :=
  mkL (conns s) (done s) (closed s) (acc s) (pclosed s) (upd (dp s) i (DDone true)) (ap s) (cp s)
      (EvDial i false true :: lhist s).
Definition a_fail (s : lstate) (j : N) (sc : bool) : lstate :=
  mkL (conns s) (done s) (closed s) (acc s) (pclosed s) (dp s) (upd (ap s) j ADone) (cp s)
      (EvAccept j sc None :: lhist s).

Definition lstep (s : lstate) (l : llabel) : option lstate :=
  match l with
  (* ---- DialWithLocalAddr ---- *)
  | LDStart i => match dp s i with DFresh => Some (set_dp s i (DLock (done s))) | _ => None end
  | LDLockClosed i => match dp s i with DLock sc => if closed s then Some (d_fail s i sc) else None | _ => None end
  | LDLockOpen i => match dp s i with DLock sc => if closed s then None else Some (set_dp s i DChk2) | _ => None end
  | LDChk2Done i => match dp s i with DChk2 => if done s then Some (d_fail s i false) else None | _ => None end
  | LDChk2Open i => match dp s i with DChk2 => if done s then None else Some (set_dp s i DSend) | _ => None end
  | LDSendOk i => match dp s i with
                  | DSend => if N.of_nat (length (conns s)) <? conns_cap
                             then Some (mkL (conns s ++ [i]) (done s) (closed s) (acc s) (pclosed s) (upd (dp s) i DWait1) (ap s) (cp s) (lhist s))
                             else None
                  | _ => None end
  | LDSendDone i => match dp s i with DSend => if done s then Some (d_fail s i false) else None | _ => None end
  | LDWait1Acc i => match dp s i with DWait1 => if acc s i then Some (d_ok s i) else None | _ => None end
  | LDWait1Default i => match dp s i with DWait1 => if acc s i then None else Some (set_dp s i DWait2) | _ => None end
  | LDWait2Acc i => match dp s i with DWait2 => if acc s i then Some (d_ok s i) else None | _ => None end
  | LDWait2Done i => match dp s i with DWait2 => if done s then Some (set_dp s i DWait3) else None | _ => None end
  | LDWait3Acc i => match dp s i with DWait3 => if acc s i then Some (d_ok s i) else None | _ => None end
  | LDWait3Fail i => match dp s i with DWait3 => if acc s i then None else Some (d_fail s i false) | _ => None end
  (* ---- Accept ---- *)
  | LAStart j => match ap s j with ANone => Some (set_ap s j (AChk (done s))) | _ => None end
  | LAChkDone j => match ap s j with AChk sc => if done s then Some (a_fail s j sc) else None | _ => None end
  | LAChkOpen j => match ap s j with AChk sc => if done s then None else Some (set_ap s j ASel) | _ => None end
  | LASelTake j => match ap s j, conns s with
                   | ASel, c :: rest => Some (mkL rest (done s) (closed s) (acc s) (pclosed s) (dp s) (upd (ap s) j (AGot c)) (cp s) (lhist s))
                   | _, _ => None end
  | LASelDone j => match ap s j with ASel => if done s then Some (a_fail s j false) else None | _ => None end
  | LAGotDone j => match ap s j with
                   | AGot c => if done s
                               then Some (mkL (conns s) (done s) (closed s) (acc s) (upd (pclosed s) c true) (dp s) (upd (ap s) j ADone) (cp s)
                                              (EvAccept j false None :: lhist s))
                               else None
                   | _ => None end
  | LAGotOpen j => match ap s j with AGot c => if done s then None else Some (set_ap s j (AMark c)) | _ => None end
  | LAMark j => match ap s j with
                | AMark c => Some (mkL (conns s) (done s) (closed s) (upd (acc s) c true) (pclosed s) (dp s) (upd (ap s) j ADone) (cp s)
                                       (EvAccept j false (Some c) :: lhist s))
                | _ => None end
  (* ---- Close ---- *)
  | LCStart k => match cp s k with CNone => Some (set_cp s k CLock) | _ => None end
  | LCLockFirst k => match cp s k with
                     | CLock => if closed s then None
                                else Some (mkL (conns s) true true (acc s) (pclosed s) (dp s) (ap s) (upd (cp s) k CDrain) (lhist s))
                     | _ => None end
  | LCLockAgain k => match cp s k with
                     | CLock => if closed s
                                then Some (mkL (conns s) (done s) (closed s) (acc s) (pclosed s) (dp s) (ap s) (upd (cp s) k CDone) (EvClose k false :: lhist s))
                                else None
                     | _ => None end
  | LCDrainTake k => match cp s k, conns s with
                     | CDrain, c :: rest => Some (mkL rest (done s) (closed s) (acc s) (upd (pclosed s) c true) (dp s) (ap s) (cp s) (lhist s))
                     | _, _ => None end
  | LCDrainEnd k => match cp s k, conns s with
                    | CDrain, [] => Some (mkL [] (done s) (closed s) (acc s) (pclosed s) (dp s) (ap s) (upd (cp s) k CDone) (EvClose k true :: lhist s))
                    | _, _ => None end
  end.

Fixpoint lrun (s : lstate) (tr : list llabel) : option lstate :=
  match tr with
  | [] => Some s
  | l :: tr' => match lstep s l with Some s' => lrun s' tr' | None => None end
  end.
Definition lreach (tr : list llabel) (s : lstate) : Prop := lrun linit tr = Some s.

(* ---- reading the log ---- *)
Definition is_accept_of (i : N) (e : lev) : bool := match e with EvAccept _ _ (Some c) => c =? i | _ => false end.
Definition is_dial_ok (i : N) (e : lev) : bool := match e with EvDial d _ true => d =? i | _ => false end.
Definition is_dial_fail (i : N) (e : lev) : bool := match e with EvDial d _ false => d =? i | _ => false end.
Definition acount (i : N) (h : list lev) : nat := length (filter (is_accept_of i) h).
Definition dcount (i : N) (h : list lev) : nat := length (filter (is_dial_ok i) h).

(* ======================================================================================
   Controlled schedule used by the sequential replay: the controller starts Dial i in a goroutine
   and waits until it is queued (or has returned), calls Accept and Close itself, and lets parked
   Dial goroutines run whenever something they wait for happened (settle). *)
Definition first_some {A} (l : list (option A)) : option A :=
  fold_right (fun o r => match o with Some a => Some a | None => r end) None l.
Fixpoint drive (fuel : nat) (s : lstate) (ls : list llabel) : lstate :=
  match fuel with
  | O => s
  | S f => match first_some (map (lstep s) ls) with Some s' => drive f s' ls | None => s end
  end.

(* run Dial i until it returns or parks in DWait2 *)
Definition ex_dial (s : lstate) (i : N) : lstate :=
  match lstep s (LDStart i) with
  | None => s
  | Some s1 => drive 8 s1 [LDLockClosed i; LDLockOpen i; LDChk2Done i; LDChk2Open i; LDSendOk i; LDWait1Acc i; LDWait1Default i]
  end.
(* let a parked Dial i see accepted / done *)
Definition settle (s : lstate) (i : N) : lstate :=
  drive 4 s [LDWait1Acc i; LDWait2Acc i; LDWait2Done i; LDWait3Acc i; LDWait3Fail i].
Definition ex_accept (s : lstate) (j : N) : lstate :=
  match lstep s (LAStart j) with
  | None => s
  | Some s1 => drive 8 s1 [LAChkDone j; LAChkOpen j; LASelTake j; LAGotDone j; LAGotOpen j; LAMark j]
  end.
Definition ex_close (s : lstate) (k : N) : lstate :=
  match lstep s (LCStart k) with
  | None => s
  | Some s1 => drive (3 + length (conns s)) s1 [LCLockFirst k; LCLockAgain k; LCDrainTake k; LCDrainEnd k]
  end.
