(* Multipart.v — C35.
   Part A: a Gallina multipart/form-data writer and reader standing for mime/multipart as driven by
           fasthttp's WriteMultipartForm / readMultipartForm (http.go).
   Part B: the temporary files of a request as a resource, over the request histories of one
           connection (server.go serveConn loop, Request.Reset / ResetBody / Set*Body /
           RemoveMultipartFormFiles / MultipartForm, ContinueReadBody pre-parse).
   No proofs in this file. *)
From FH Require Import Model.Base Gen.GenC35.
Open Scope N_scope.

(* ================================================================== *)
(* Part A — the codec                                                  *)
(* ================================================================== *)
Definition crlf : bytes := [13; 10].
Definition dashes : bytes := [45; 45].

Fixpoint prefixb (p s : bytes) : bool :=
  match p, s with
  | [], _ => true
  | x :: p', y :: s' => (x =? y) && prefixb p' s'
  | _ :: _, [] => false
  end.

Definition lower (c : N) : N := if (65 <=? c) && (c <=? 90) then c + 32 else c.
Definition lower_s (s : bytes) : bytes := map lower s.
Definition is_lwsp (c : N) : bool := (c =? 32) || (c =? 9).
Fixpoint skip_lwsp (s : bytes) : bytes :=
  match s with c :: r => if is_lwsp c then skip_lwsp r else s | [] => [] end.
Definition trim_lwsp (s : bytes) : bytes := rev (skip_lwsp (rev (skip_lwsp s))).

(* ---- a form as the Go maps hold it (association lists in iteration order) ---- *)
Record mfile := { fl_name : bytes; fl_ctype : bytes; fl_data : bytes }.   (* Filename, Content-Type header, content *)
Record mform := { fm_values : list (bytes * list bytes); fm_files : list (bytes * list mfile) }.

(* ---- multipart.Writer.SetBoundary ---- *)
Definition is_bchar (c : N) : bool :=
  ((65 <=? c) && (c <=? 90)) || ((97 <=? c) && (c <=? 122)) || ((48 <=? c) && (c <=? 57)) ||
  existsb (N.eqb c) [39; 40; 41; 43; 95; 44; 45; 46; 47; 58; 61; 63].   (* '()+_,-./:=? *)
Fixpoint bchars_ok (b : bytes) : bool :=
  match b with
  | [] => true
  | [c] => is_bchar c                                   (* a space is not allowed in last position *)
  | c :: r => (is_bchar c || (c =? 32)) && bchars_ok r
  end.
Definition valid_boundary (b : bytes) : bool :=
  (1 <=? N.of_nat (length b)) && (N.of_nat (length b) <=? 70) && bchars_ok b.

(* ---- writer: WriteField / CreatePart / Close ---- *)
Definition esc_c (c : N) : bytes := if c =? 92 then [92; 92] else if c =? 34 then [92; 34] else [c].
Definition esc (s : bytes) : bytes := flat_map esc_c s.                       (* escapeQuotes *)
Definition disp_field (n : bytes) : bytes := s2b "form-data; name=""" ++ esc n ++ [34].
Definition disp_file (n f : bytes) : bytes :=
  s2b "form-data; name=""" ++ esc n ++ s2b """; filename=""" ++ esc f ++ [34].
Definition hdr_line (kv : bytes * bytes) : bytes := fst kv ++ s2b ": " ++ snd kv ++ crlf.

(* one part as CreatePart + body writes it: (headers sorted by key, data) *)
Definition wpart := (list (bytes * bytes) * bytes)%type.
Definition part_bytes (first : bool) (b : bytes) (p : wpart) : bytes :=
  (if first then [] else crlf) ++ dashes ++ b ++ crlf ++ flat_map hdr_line (fst p) ++ crlf ++ snd p.
Fixpoint parts_bytes (first : bool) (b : bytes) (ps : list wpart) : bytes :=
  match ps with [] => [] | p :: r => part_bytes first b p ++ parts_bytes false b r end.
Definition close_bytes (b : bytes) : bytes := crlf ++ dashes ++ b ++ dashes ++ crlf.

Definition value_parts (vs : list (bytes * list bytes)) : list wpart :=
  flat_map (fun kv => map (fun v => ([(s2b "Content-Disposition", disp_field (fst kv))], v)) (snd kv)) vs.
Definition file_parts (fs : list (bytes * list mfile)) : list wpart :=
  flat_map (fun kv => map (fun f => ([(s2b "Content-Disposition", disp_file (fst kv) (fl_name f));
                                      (s2b "Content-Type", fl_ctype f)], fl_data f)) (snd kv)) fs.
Definition form_parts (f : mform) : list wpart := value_parts (fm_values f) ++ file_parts (fm_files f).

Inductive wresult := WOk (out : bytes) | WErrEmptyBoundary | WErrBadBoundary.

(* WriteMultipartForm: empty boundary and SetBoundary failures are errors; values first, then files *)
Definition write_form (b : bytes) (f : mform) : wresult :=
  match b with
  | [] => WErrEmptyBoundary
  | _ => if valid_boundary b then WOk (parts_bytes true b (form_parts f) ++ close_bytes b) else WErrBadBoundary
  end.

(* ---- reader: multipart.Reader.NextPart / Part.Read / ReadForm (CRLF line ends) ---- *)
(* bufio.ReadSlice('\n'): the line including LF and what follows; None when no LF is left *)
Fixpoint read_slice (s : bytes) : option (bytes * bytes) :=
  match s with
  | [] => None
  | c :: r => if c =? 10 then Some ([c], r)
              else match read_slice r with Some (l, rest) => Some (c :: l, rest) | None => None end
  end.

Definition dash_b (b : bytes) : bytes := dashes ++ b.
Definition nl_dash_b (b : bytes) : bytes := crlf ++ dashes ++ b.

Definition is_final (b line : bytes) : bool :=
  let p := dash_b b ++ dashes in
  if prefixb p line then (let rest := skip_lwsp (skipn (length p) line) in beq rest [] || beq rest crlf) else false.
Definition is_delim (b line : bytes) : bool :=
  let p := dash_b b in
  if prefixb p line then beq (skip_lwsp (skipn (length p) line)) crlf else false.

Inductive np_result := NPPart (rest : bytes) | NPEof | NPErr.

Fixpoint next_part (fuel : nat) (b : bytes) (parts_read expect_new : bool) (s : bytes) : np_result :=
  match fuel with
  | O => NPErr
  | S fuel' =>
      match read_slice s with
      | None => if is_final b s then NPEof else NPErr
      | Some (line, rest) =>
          if is_delim b line then NPPart rest
          else if is_final b line then NPEof
          else if expect_new then NPErr
          else if negb parts_read then next_part fuel' b false false rest
          else if beq line crlf then next_part fuel' b true true rest
          else NPErr
      end
  end.

(* textproto.ReadLine: up to LF, one trailing CR dropped; at the end of the input the unterminated rest is the line *)
Definition strip_cr (l : bytes) : bytes :=
  match rev l with 13 :: r => rev r | _ => l end.
Definition read_line (s : bytes) : bytes * bytes :=
  match read_slice s with
  | Some (l, rest) => (strip_cr (removelast l), rest)
  | None => (s, [])
  end.

Fixpoint split_colon (l : bytes) : option (bytes * bytes) :=
  match l with
  | [] => None
  | c :: r => if c =? 58 then Some ([], r)
              else match split_colon r with Some (k, v) => Some (c :: k, v) | None => None end
  end.

(* token characters of mime (RFC 2045) *)
Definition is_tspecial (c : N) : bool :=
  existsb (N.eqb c) [40; 41; 60; 62; 64; 44; 59; 58; 92; 34; 47; 91; 93; 63; 61].   (* the tspecials of RFC 2045 *)
Definition is_token_char (c : N) : bool := (32 <? c) && (c <? 127) && negb (is_tspecial c).
(* textproto: header field bytes (RFC 7230 token) — a space is tolerated — and header value bytes *)
Definition is_field_char (c : N) : bool := (is_token_char c && negb ((c =? 123) || (c =? 125))) || (c =? 32).
Definition is_value_char (c : N) : bool := (c =? 9) || ((32 <=? c) && negb (c =? 127)).

(* readContinuedLineSlice: following lines that start with SP / HT are folded in with one space *)
Fixpoint fold_cont (fuel : nat) (acc rest : bytes) : bytes * bytes :=
  match fuel with
  | O => (acc, rest)
  | S fuel' =>
      match rest with
      | c :: _ => if is_lwsp c
                  then let (l, rest') := read_line (skip_lwsp rest) in fold_cont fuel' (acc ++ [32] ++ trim_lwsp l) rest'
                  else (acc, rest)
      | [] => (acc, rest)
      end
  end.

(* readMIMEHeader: the header block of a part; HEof = the input ended inside it (io.EOF) *)
Inductive hres := HOk (hs : list (bytes * bytes)) (rest : bytes) | HEof | HErr.

Fixpoint read_headers (fuel : nat) (s : bytes) : hres :=
  match fuel with
  | O => HErr
  | S fuel' =>
      match s with
      | [] => HEof
      | _ =>
          let (l, rest) := read_line s in
          match l with
          | [] => HOk [] rest
          | _ =>
              let (l', rest') := fold_cont fuel' (trim_lwsp l) rest in
              match l' with
              | [] => HOk [] rest'
              | _ =>
                  match split_colon l' with
                  | None => HErr
                  | Some (k, v) =>
                      if (match k with [] => true | _ => false end) || negb (forallb is_field_char k)
                         || negb (forallb is_value_char v) then HErr
                      else match read_headers fuel' rest' with
                           | HOk hs r => HOk ((k, trim_lwsp v) :: hs) r
                           | o => o
                           end
                  end
              end
          end
      end
  end.

(* matchAfterPrefix with the whole remaining input in hand: true = +1 (a boundary), false = -1 *)
Definition match_after (after : bytes) : bool :=
  match after with
  | [] => true
  | c :: r =>
      if (c =? 32) || (c =? 9) || (c =? 13) || (c =? 10) then true
      else if c =? 45 then match r with d :: _ => d =? 45 | [] => false end
      else false
  end.

Definition at_boundary (p s : bytes) : bool := prefixb p s && match_after (skipn (length p) s).

(* the part body: up to the first nl--boundary that is followed by LWSP / newline / "--" *)
Fixpoint scan_rest (p s : bytes) : option (bytes * bytes) :=
  match s with
  | [] => None
  | c :: r => if at_boundary p s then Some ([], s)
              else match scan_rest p r with Some (d, rem) => Some (c :: d, rem) | None => None end
  end.
(* scanUntilBoundary's total == 0 case: a body that begins with --boundary is empty *)
Definition scan_body (b s : bytes) : option (bytes * bytes) :=
  if at_boundary (dash_b b) s then Some ([], s) else scan_rest (nl_dash_b b) s.

Definition rawpart := (list (bytes * bytes) * bytes)%type.

Fixpoint read_parts (fuel : nat) (b : bytes) (parts_read : bool) (s : bytes) : option (list rawpart) :=
  match fuel with
  | O => None
  | S fuel' =>
      match next_part (S (length s)) b parts_read false s with
      | NPErr => None
      | NPEof => Some []
      | NPPart rest =>
          if (match rest with c :: _ => is_lwsp c | [] => false end) then None   (* malformed initial line *)
          else
          match read_headers (S (length rest)) rest with
          | HErr => None
          | HEof => Some []                        (* ReadForm takes io.EOF from the header block as the end of the form *)
          | HOk hs body =>
              match scan_body b body with
              | None => None
              | Some (d, rem) =>
                  match read_parts fuel' b true rem with
                  | Some ps => Some ((hs, d) :: ps)
                  | None => None
                  end
              end
          end
      end
  end.

(* ---- mime.ParseMediaType on a Content-Disposition value ---- *)
Fixpoint take_token (s : bytes) : bytes * bytes :=
  match s with
  | c :: r => if is_token_char c then (let (t, rest) := take_token r in (c :: t, rest)) else ([], s)
  | [] => ([], [])
  end.
Fixpoint skip_sp (s : bytes) : bytes :=      (* strings.TrimLeftFunc(unicode.IsSpace) on ASCII *)
  match s with c :: r => if (c =? 32) || ((9 <=? c) && (c <=? 13)) then skip_sp r else s | [] => [] end.

(* consumeValue, quoted-string branch (after the opening quote) *)
Fixpoint take_quoted (s : bytes) : option (bytes * bytes) :=
  match s with
  | [] => None
  | c :: r =>
      if c =? 34 then Some ([], r)
      else if c =? 92 then
        match r with
        | d :: r' => if is_tspecial d
                     then match take_quoted r' with Some (v, rest) => Some (d :: v, rest) | None => None end
                     else match take_quoted r with Some (v, rest) => Some (c :: v, rest) | None => None end
        | [] => None
        end
      else if (c =? 13) || (c =? 10) then None
      else match take_quoted r with Some (v, rest) => Some (c :: v, rest) | None => None end
  end.

Definition take_value (s : bytes) : option (bytes * bytes) :=
  match s with
  | 34 :: r => take_quoted r
  | _ => let (t, rest) := take_token s in match t with [] => None | _ => Some (t, rest) end
  end.

Fixpoint cut_semi (s : bytes) : bytes * bytes :=         (* strings.Cut(v, ";") keeping the ';' in rest *)
  match s with
  | [] => ([], [])
  | c :: r => if c =? 59 then ([], s) else let (a, rest) := cut_semi r in (c :: a, rest)
  end.

Definition assoc (k : bytes) (m : list (bytes * bytes)) : option bytes :=
  match find (fun kv => beq (fst kv) k) m with Some kv => Some (snd kv) | None => None end.

(* the parameter loop; None = ErrInvalidMediaParameter / duplicate parameter *)
Fixpoint parse_params (fuel : nat) (s : bytes) (acc : list (bytes * bytes)) : option (list (bytes * bytes)) :=
  match fuel with
  | O => None
  | S fuel' =>
      match skip_sp s with
      | [] => Some acc
      | 59 :: r =>
          let (k, r1) := take_token (skip_sp r) in
          match k with
          | [] => if beq (skip_sp r) [] then Some acc else None        (* a trailing ";" ends the list *)
          | _ =>
              match skip_sp r1 with
              | 61 :: r2 =>
                  match take_value (skip_sp r2) with
                  | Some (v, r3) =>
                      let k' := lower_s k in
                      match assoc k' acc with
                      | Some v0 => if beq v0 v then parse_params fuel' r3 acc else None
                      | None => parse_params fuel' r3 (acc ++ [(k', v)])
                      end
                  | None => None
                  end
              | _ => None
              end
          end
      | _ => None
      end
  end.

Definition parse_disposition (v : bytes) : option (bytes * list (bytes * bytes)) :=
  let (base, rest) := cut_semi v in
  let mt := lower_s (trim_lwsp base) in
  if (match mt with [] => true | _ => false end) || negb (forallb is_token_char mt) then None
  else match parse_params (S (length rest)) rest [] with
       | Some ps => Some (mt, ps)
       | None => None
       end.

Definition header_get (k : bytes) (hs : list (bytes * bytes)) : bytes :=
  match find (fun kv => beq (lower_s (fst kv)) (lower_s k)) hs with Some kv => snd kv | None => [] end.

(* filepath.Base on a non-empty name (unix): what follows the last '/', trailing slashes dropped *)
Fixpoint drop_trailing_slash (r : bytes) : bytes :=          (* on the reversed string *)
  match r with c :: r' => if c =? 47 then drop_trailing_slash r' else r | [] => [] end.
Fixpoint take_until_slash (r : bytes) : bytes :=
  match r with [] => [] | c :: r' => if c =? 47 then [] else c :: take_until_slash r' end.
Definition path_base (f : bytes) : bytes :=
  match drop_trailing_slash (rev f) with
  | [] => [47]
  | r => rev (take_until_slash r)
  end.

(* Part.FormName / Part.FileName *)
Definition part_names (hs : list (bytes * bytes)) : bytes * bytes :=
  match parse_disposition (header_get (s2b "Content-Disposition") hs) with
  | Some (mt, ps) =>
      let fname := match assoc (s2b "filename") ps with Some [] | None => [] | Some f => path_base f end in
      if beq mt (s2b "form-data")
      then (match assoc (s2b "name") ps with Some n => n | None => [] end, fname)
      else ([], fname)
  | None => ([], [])
  end.

(* form.Value[name] = append(form.Value[name], v) on an association list *)
Fixpoint add_to {A} (k : bytes) (v : A) (m : list (bytes * list A)) : list (bytes * list A) :=
  match m with
  | [] => [(k, [v])]
  | (k', vs) :: r => if beq k' k then (k', vs ++ [v]) :: r else (k', vs) :: add_to k v r
  end.

Fixpoint collect (ps : list rawpart) (f : mform) : mform :=
  match ps with
  | [] => f
  | (hs, d) :: r =>
      let (name, fname) := part_names hs in
      match name with
      | [] => collect r f                                   (* parts without a form name are skipped *)
      | _ =>
          match fname with
          | [] => collect r (Build_mform (add_to name d (fm_values f)) (fm_files f))
          | _ => collect r (Build_mform (fm_values f)
                              (add_to name (Build_mfile fname (header_get (s2b "Content-Type") hs) d) (fm_files f)))
          end
      end
  end.

(* readMultipartForm(r, boundary, size, _): size <= 0 is an error; the parser sees at most size bytes
   (io.LimitedReader); after a successful parse the rest of the size bytes is discarded, and a body that
   ends before size bytes were delivered is an unexpected EOF (the form's files are removed) *)
Definition read_form (b : bytes) (size : Z) (s : bytes) : option mform :=
  if (size <=? 0)%Z then None
  else let s' := firstn (Z.to_nat size) s in
       match b with
       | [] => None                                          (* "multipart: boundary is empty" *)
       | _ => match read_parts (S (length s')) b false s' with
              | Some ps => if (Z.of_nat (length s) <? size)%Z then None
                           else Some (collect ps (Build_mform [] []))
              | None => None
              end
       end.

(* ================================================================== *)
(* Part B — temporary files of the requests of one connection          *)
(* ================================================================== *)
Open Scope Z_scope.

(* mime/multipart ReadForm(maxMemory): a file part larger than the memory still available goes to
   disk; all spilled parts of one form share ONE temporary file (size = sum of the spilled parts) *)
Fixpoint spilled (avail : Z) (sizes : list Z) : list Z :=
  match sizes with
  | [] => []
  | n :: r => if n >? avail then n :: spilled avail r else spilled (avail - n) r
  end.
Definition tmpfiles_of (max_mem : Z) (sizes : list Z) : list Z :=
  match spilled max_mem sizes with [] => [] | l => [fold_right Z.add 0 l] end.

(* the argument of mr.ReadForm in MultipartFormWithLimit: 4th integer constant of the function body
   (maxBodySize > 0, <= 0 x2 and + 1 come before it), regenerated from the source by the translator *)
Definition stream_max_memory : Z := nth 3 mpfl_ints 0.

Record scfg := { sc_stream : bool;       (* Server.StreamRequestBody *)
                 sc_preparse : bool }.   (* !Server.DisablePreParseMultipartForm *)

(* what arrives: is it multipart/form-data with a usable boundary, is
   Content-Length > 0, the sizes of its file parts in order, does the body parse *)
Record reqd := { rq_multipart : bool; rq_clpos : bool; rq_files : list Z; rq_wellformed : bool;
                 rq_len : Z;       (* length of the body *)
                 rq_close : Z;     (* length of its closing delimiter CRLF--boundary--CRLF *)
                 rq_short : bool;  (* Content-Length promises more bytes than the peer sends (it closes after the body) *)
                 rq_enc : Z }.     (* Content-Encoding: 0 none, 1 gzip, 2 anything else; rq_len / rq_files describe the decoded body *)

(* the pre-parse on read needs a boundary and NO Content-Encoding; MultipartFormWithLimit decodes gzip itself
   (gzip.NewReader over the stream / gunzipData) and refuses every other Content-Encoding *)
Definition preparse_ok (d : reqd) : bool := rq_multipart d && (rq_enc d =? 0).
Definition parsable (d : reqd) : bool := rq_multipart d && negb (rq_enc d =? 2).

Record rstate := {
  r_desc : reqd;
  r_form : option (list Z);     (* req.multipartForm: Some fs = parsed, fs = its temporary files (sizes) *)
  r_stream : bool;              (* req.bodyStream != nil *)
  r_consumed : bool             (* the body stream was already read by a parse *)
}.

Inductive cphase := CIdle | CHandling (r : rstate) | CClosed.

Record cstate := {
  c_ph : cphase;
  c_disk : list Z;              (* temporary files present in TMPDIR *)
  c_detached : list Z           (* of those, files owned by a timed-out RequestCtx (excepted) *)
}.

Inductive hop :=
| OForm                          (* ctx.MultipartForm() *)
| OFormLimit (l : Z)             (* ctx.Request.MultipartFormWithLimit(l) *)
| ODrop                          (* SetBody / SetBodyString / AppendBody / ResetBody / SetBodyRaw / SetBodyStream: new body *)
| ORemove                        (* RemoveMultipartFormFiles: the body stays *)
| OUserRemove                    (* the handler deletes / moves the files of the parsed form itself *)
| ONone.                         (* anything that does not touch the body *)

Inductive cevent :=
| VDispatch (d : reqd)           (* the server reads the next request and calls the handler *)
| VOp (o : hop)
| VTimeout                       (* ctx.TimeoutError: the RequestCtx stays with the handler *)
| VReturn (keep : bool)          (* handler returns; response written; keep = connection stays open *)
| VClose.                        (* the peer closes / read error between requests *)

Fixpoint remove_one (x : Z) (l : list Z) : list Z :=           (* os.Remove of one file *)
  match l with [] => [] | y :: t => if y =? x then t else y :: remove_one x t end.
Fixpoint remove_all (xs : list Z) (l : list Z) : list Z :=     (* Form.RemoveAll *)
  match xs with [] => l | x :: r => remove_all r (remove_one x l) end.

Definition form_files (r : rstate) : list Z := match r_form r with Some fs => fs | None => [] end.

(* Request.Reset / resetSkipHeader / ResetBody -> RemoveMultipartFormFiles *)
Definition reset_request (r : rstate) (disk : list Z) : list Z := remove_all (form_files r) disk.

(* readMultipartForm(r, boundary, size, maxInMemoryFileSize) as far as temporary files go:
   (the form handed to the caller, the TMPDIR after the call).
   - mr.ReadForm fails: it has removed what it created; error;
   - ReadForm succeeds (files spilled) but the rest of the size bytes cannot be read (the peer sent less than
     Content-Length): f.RemoveAll(), error — nobody else will ever hold f;
   - otherwise f is returned and owns its files. *)
Definition rmf (max_mem : Z) (sizes : list Z) (wellformed short : bool) (disk : list Z) : option (list Z) * list Z :=
  if negb wellformed then (None, disk)
  else let fs := tmpfiles_of max_mem sizes in
       if short then (None, remove_all fs (disk ++ fs))
       else (Some fs, disk ++ fs).

(* How far the io.LimitedReader{N: maxBodySize+1} lets the parser get on a well-formed body of rq_len
   bytes that ends with its closing delimiter: LFull = the whole form is parsed (all of the body fits,
   or only the final CRLF is cut off: "--boundary--" at EOF is still the final boundary);
   LFail = the cut falls inside the closing delimiter or the data of the last part: ReadForm fails
   (and removes what it spilled); LUnknown = cut further up (not modelled) *)
Inductive lcut := LFull | LFail | LUnknown.
Definition limit_cut (l : Z) (d : reqd) : lcut :=
  let cut := rq_len d - (l + 1) in
  if (cut <=? 0) || (cut =? 2) then LFull
  else if cut <=? rq_close d + last (rq_files d) 0 then LFail
  else LUnknown.

(* Request.MultipartFormWithLimit(l) (MultipartForm() = limit 0) *)
Definition form_with_limit (l : Z) (r : rstate) (s : cstate) : option cstate :=
  match r_form r with
  | Some _ => Some s                                                         (* already parsed: returned as is *)
  | None =>
      if negb (parsable (r_desc r)) then Some s                              (* ErrNoMultipartForm / unsupported content-encoding *)
      else if r_stream r then
        (* req.bodyStream != nil: mr.ReadForm(8*1024) over the stream, behind a LimitedReader when l > 0 *)
        if r_consumed r then Some s                                          (* nothing left to read: error *)
        else if negb (rq_wellformed (r_desc r)) then                         (* parse error: ReadForm keeps nothing *)
          Some (Build_cstate (CHandling (Build_rstate (r_desc r) None true true)) (c_disk s) (c_detached s))
        else
          let fs := tmpfiles_of stream_max_memory (rq_files (r_desc r)) in
          let kept := Build_rstate (r_desc r) (Some fs) true true in
          if l <=? 0 then
            Some (Build_cstate (CHandling kept) (c_disk s ++ fs) (c_detached s))
          else
            match limit_cut l (r_desc r) with
            | LFull =>
                if rq_len (r_desc r) <=? l then                              (* lr.N > 0: the form is kept *)
                  Some (Build_cstate (CHandling kept) (c_disk s ++ fs) (c_detached s))
                else
                  (* ReadForm succeeded but lr.N <= 0: req.RemoveMultipartFormFiles(); ErrBodyTooLarge *)
                  Some (Build_cstate (CHandling (Build_rstate (r_desc r) None true true))
                                     (reset_request kept (c_disk s ++ fs)) (c_detached s))
            | LFail =>                                                       (* err != nil: ReadForm removed its files *)
                Some (Build_cstate (CHandling (Build_rstate (r_desc r) None true true)) (c_disk s) (c_detached s))
            | LUnknown => None
            end
      else
        (* buffered body: len(body) > maxBodySize is refused before parsing *)
        if (0 <? l) && (l <? rq_len (r_desc r)) then Some s
        else if negb (rq_wellformed (r_desc r)) then Some s
        else
          (* readMultipartForm(body, boundary, len(body), len(body)): nothing can exceed the memory limit *)
          Some (Build_cstate (CHandling (Build_rstate (r_desc r) (Some []) false false)) (c_disk s) (c_detached s))
  end.

Definition cstep (c : scfg) (s : cstate) (e : cevent) : option cstate :=
  match e, c_ph s with
  | VDispatch d, CIdle =>
      if sc_preparse c && rq_clpos d && preparse_ok d then
        (* ContinueReadBody[Stream]: readMultipartForm(r, boundary, contentLength, defaultMaxInMemoryFileSize) *)
        match rmf defaultMaxInMemoryFileSize (rq_files d) (rq_wellformed d) (rq_short d) (c_disk s) with
        | (Some fs, disk') =>
            Some (Build_cstate (CHandling (Build_rstate d (Some fs) false false)) disk' (c_detached s))
        | (None, disk') =>
            (* req.Reset(); error response; connection closed *)
            Some (Build_cstate CClosed disk' (c_detached s))
        end
      else if rq_short d then
        (* the body is read as bytes: it ends early, the request is refused (buffered mode; not modelled when streaming) *)
        if sc_stream c then None else Some (Build_cstate CClosed (c_disk s) (c_detached s))
      else
        Some (Build_cstate (CHandling (Build_rstate d None (sc_stream c) false)) (c_disk s) (c_detached s))
  | VOp OForm, CHandling r => form_with_limit 0 r s
  | VOp (OFormLimit l), CHandling r => form_with_limit l r s
  | VOp ODrop, CHandling r =>
      Some (Build_cstate (CHandling (Build_rstate (Build_reqd false false [] false 0 0 false 0) None false false))
                         (reset_request r (c_disk s)) (c_detached s))
  | VOp ORemove, CHandling r =>
      Some (Build_cstate (CHandling (Build_rstate (r_desc r) None (r_stream r) (r_consumed r)))
                         (reset_request r (c_disk s)) (c_detached s))
  | VOp OUserRemove, CHandling r =>
      Some (Build_cstate (CHandling r) (remove_all (form_files r) (c_disk s)) (c_detached s))
  | VOp ONone, CHandling r => Some s
  | VTimeout, CHandling r =>
      (* the handler keeps the old ctx and its request; the server goes on with a fresh ctx *)
      Some (Build_cstate (CHandling (Build_rstate (r_desc r) None false false)) (c_disk s) (c_detached s ++ form_files r))
  | VReturn keep, CHandling r =>
      (* keep-alive: ctx.Request.Reset() at the end of the iteration; otherwise break -> releaseCtx -> ctx.reset() *)
      Some (Build_cstate (if keep then CIdle else CClosed) (reset_request r (c_disk s)) (c_detached s))
  | VClose, CIdle => Some (Build_cstate CClosed (c_disk s) (c_detached s))
  | _, _ => None
  end.

Fixpoint crun (c : scfg) (s : cstate) (tr : list cevent) : option cstate :=
  match tr with
  | [] => Some s
  | e :: r => match cstep c s e with Some s' => crun c s' r | None => None end
  end.

(* the TMPDIR listing after each event of a history (None once the history leaves the model) *)
Fixpoint ctrace (c : scfg) (s : cstate) (tr : list cevent) : list (option (list Z)) :=
  match tr with
  | [] => []
  | e :: r => match cstep c s e with
              | Some s' => Some (c_disk s') :: ctrace c s' r
              | None => [None]
              end
  end.

Definition cinit : cstate := Build_cstate CIdle [] [].

Inductive creach (c : scfg) : cstate -> Prop :=
| creach_init : creach c cinit
| creach_step s e s' : creach c s -> cstep c s e = Some s' -> creach c s'.
