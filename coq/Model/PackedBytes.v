(* Compact byte-string literals for case files (C05/C06): a list of primitive 63-bit integers, the first is the
   length, each following word carries up to 7 bytes, most significant first.  Coq elaborates these several times
   faster than `h "hex"` string literals; the decoded value is an ordinary `bytes`. *)
From FH Require Import Model.Base.
From Coq Require Import Uint63.
Open Scope uint63_scope.

Fixpoint wbytes (k : nat) (w : int) (acc : list N) : list N :=
  match k with
  | O => acc
  | S k' => wbytes k' (w >> 8) (Z.to_N (to_Z (w land 255)) :: acc)
  end.
Fixpoint ub_go (n : nat) (ws : list int) : list N :=
  match ws with
  | [] => []
  | [w] => wbytes n w []
  | w :: r => wbytes 7 w [] ++ ub_go (n - 7) r
  end.
Definition ub (ws : list int) : bytes :=
  match ws with
  | [] => []
  | n :: r => ub_go (Z.to_nat (to_Z n)) r
  end.

Example ub_ex : ub [9; 20358919422423342; 12576] = h "485454502f312e3120" /\ ub [0] = [] /\ ub [1; 13] = [13%N].
Proof. vm_compute. repeat split; reflexivity. Qed.
