(* PathNorm.v — model of uri.go:normalizePath (non-Windows build), uri_unix.go:addLeadingSlash and
   args.go:decodeArgAppendNoPlus, as the code is written.

   Conventions: []byte = bytes (list N); Go ints that index a slice = nat; a search result
   "-1" = None.  The in-place `copy(b[i:], b[j:]); b = b[:len(b)-j+i]` steps are modelled by value
   (`firstn i b ++ skipn j b`): the bytes left behind the new length are never read again.
   Search loops carry explicit fuel (the length of the buffer + 1); None = out of fuel, which never
   happens (Proof/PathNormProof.v: normalizePath_opt_total).

   INTERFACE for other models (URI, FS):
     normalizePath      : bytes -> bytes            (* normalizePath(dst, src): value of the returned slice; dst is irrelevant *)
     normalizePath_opt  : bytes -> option bytes     (* the same with the fuel visible *)
     norm_tail          : bytes -> option bytes     (* the passes after percent-decoding *)
     addLeadingSlash, decodeArgAppendNoPlus : bytes -> bytes -> bytes
     hasPrefix, hasSuffix, index, indexByte, lastIndex, lastIndexByte  (* package bytes *)
   Importers must list "C26" in their props "gen" (this file reads Gen/GenC26.v). *)
From FH Require Import Model.Base Gen.GenC26.
Open Scope N_scope.

(* ---- package bytes ---- *)

(* bytes.HasPrefix(s, pat) *)
Fixpoint hasPrefix (s pat : bytes) : bool :=
  match pat, s with
  | [], _ => true
  | p :: pat', c :: s' => (c =? p) && hasPrefix s' pat'
  | _ :: _, [] => false
  end.

(* bytes.HasSuffix(s, pat): len(s) >= len(pat) && Equal(s[len(s)-len(pat):], pat) *)
Definition hasSuffix (s pat : bytes) : bool :=
  Nat.leb (length pat) (length s) && beq (skipn (length s - length pat) s) pat.

(* bytes.Index(s, pat): first n with s[n:] starting with pat; None = -1 *)
Fixpoint index (s pat : bytes) : option nat :=
  if hasPrefix s pat then Some O
  else match s with
       | [] => None
       | _ :: r => match index r pat with Some n => Some (S n) | None => None end
       end.

(* bytes.IndexByte(s, c) *)
Fixpoint indexByte (s : bytes) (c : N) : option nat :=
  match s with
  | [] => None
  | x :: r => if x =? c then Some O
              else match indexByte r c with Some n => Some (S n) | None => None end
  end.

(* bytes.LastIndex(s, pat) *)
Fixpoint lastIndex (s pat : bytes) : option nat :=
  match s with
  | [] => if hasPrefix [] pat then Some O else None
  | _ :: r => match lastIndex r pat with
              | Some n => Some (S n)
              | None => if hasPrefix s pat then Some O else None
              end
  end.

(* bytes.LastIndexByte(s, c) *)
Fixpoint lastIndexByte (s : bytes) (c : N) : option nat :=
  match s with
  | [] => None
  | x :: r => match lastIndexByte r c with
              | Some n => Some (S n)
              | None => if x =? c then Some O else None
              end
  end.

(* ---- uri_unix.go ---- *)

(* func addLeadingSlash(dst, src []byte) []byte *)
Definition addLeadingSlash (dst src : bytes) : bytes :=
  match src with
  | [] => dst ++ [SLASH]                               (* len(src) == 0 *)
  | c :: _ => if c =? SLASH then dst else dst ++ [SLASH]
  end.

(* ---- args.go ---- *)

(* the slow-path loop of decodeArgAppendNoPlus on src[i:]; returns what is appended to dst *)
Fixpoint decodeNoPlus_loop (src : bytes) : bytes :=
  match src with
  | [] => []
  | c :: r =>
      if c =? PCT then
        match r with
        | c1 :: c2 :: r' =>
            let x2 := tbl hex2intTable c2 in
            let x1 := tbl hex2intTable c1 in
            if (x1 =? 16) || (x2 =? 16) then PCT :: decodeNoPlus_loop r          (* dst = append(dst, '%') *)
            else (N.lor (N.shiftl x1 4 mod 256) x2) :: decodeNoPlus_loop r'       (* x1<<4|x2 ; i += 2 *)
        | _ => src                                          (* end > len(src): return append(dst, src[i:]...) *)
        end
      else c :: decodeNoPlus_loop r
  end.

(* func decodeArgAppendNoPlus(dst, src []byte) []byte *)
Definition decodeArgAppendNoPlus (dst src : bytes) : bytes :=
  match indexByte src PCT with
  | None => dst ++ src                                                      (* fast path *)
  | Some idx => (dst ++ firstn idx src) ++ decodeNoPlus_loop (skipn idx src)
  end.

(* ---- uri.go:normalizePath ---- *)

(* "remove duplicate slashes":  `pre` is dst[:len(dst)-len(b)-garbage], i.e. the part of dst in front of
   the window b; the result is dst[:bSize].
     n := Index(b, "//"); b = b[n:]; copy(b, b[1:]); b = b[:len(b)-1]; bSize-- *)
Fixpoint slashLoop (fuel : nat) (pre b : bytes) : option bytes :=
  match fuel with
  | O => None
  | S f =>
      match index b strSlashSlash with
      | None => Some (pre ++ b)
      | Some n => slashLoop f (pre ++ firstn n b) (tl (skipn n b))
      end
  end.

(* "remove /./ parts":  nn := n + len("/./") - 1; copy(b[n:], b[nn:]); b = b[:len(b)-nn+n] *)
Fixpoint dotLoop (fuel : nat) (b : bytes) : option bytes :=
  match fuel with
  | O => None
  | S f =>
      match index b strSlashDotSlash with
      | None => Some b
      | Some n => let nn := (n + length strSlashDotSlash - 1)%nat in
                  dotLoop f (firstn n b ++ skipn nn b)
      end
  end.

(* "remove trailing /." : b = b[:len(b)-1] *)
Definition trailingDot (b : bytes) : bytes :=
  if hasSuffix b strSlashDot then firstn (length b - 1) b else b.

(* "remove /foo/../ parts":
     nn := max(LastIndexByte(b[:n], '/'), 0); n += len("/../") - 1; copy(b[nn:], b[n:]); b = b[:len(b)-n+nn] *)
Fixpoint dotDotLoop (fuel : nat) (b : bytes) : option bytes :=
  match fuel with
  | O => None
  | S f =>
      match index b strSlashDotDotSlash with
      | None => Some b
      | Some n =>
          let nn := match lastIndexByte (firstn n b) SLASH with Some k => k | None => O end in
          let n' := (n + length strSlashDotDotSlash - 1)%nat in
          dotDotLoop f (firstn nn b ++ skipn n' b)
      end
  end.

(* "remove trailing /foo/.." *)
Definition trailingDotDot (b : bytes) : bytes :=
  match lastIndex b strSlashDotDot with
  | Some n =>
      if Nat.eqb (n + length strSlashDotDot) (length b) then
        match lastIndexByte (firstn n b) SLASH with
        | None => strSlash                               (* return append(dst[:0], strSlash...) *)
        | Some nn => firstn (nn + 1) b
        end
      else b
  | None => b
  end.

(* everything in normalizePath after `dst = decodeArgAppendNoPlus(dst, src)`; d = dst at that point.
   filepath.Separator == '/' (the `== '\\'` block is dead on non-Windows builds) *)
Definition norm_tail (d : bytes) : option bytes :=
  match slashLoop (S (length d)) [] d with
  | None => None
  | Some b =>
      match indexByte b DOT with
      | None => Some b                                    (* no '.': nothing to remove *)
      | Some _ =>
          match dotLoop (S (length b)) b with
          | None => None
          | Some b =>
              let b := trailingDot b in
              match dotDotLoop (S (length b)) b with
              | None => None
              | Some b => Some (trailingDotDot b)
              end
          end
      end
  end.

(* func normalizePath(dst, src []byte) []byte *)
Definition normalizePath_opt (src : bytes) : option bytes :=
  let dst := addLeadingSlash [] src in
  let dst := decodeArgAppendNoPlus dst src in
  norm_tail dst.

Definition normalizePath (src : bytes) : bytes :=
  match normalizePath_opt src with Some r => r | None => [] end.
