(* Model of fasthttputil/pipeconns.go (property C33): one DIRECTION of a PipeConns pair as a
   labelled transition system, and the pair as the product of two directions synchronised on Close.

   A direction is: the channel (`wCh` of the writing end = `rCh` of the reading end, capacity
   chan_cap), the reader's current buffer `bb` (cur), the shared stop flag (stopCh closed), the
   write deadline of the writing end and the read deadline of the reading end.

   One label = one channel operation / select of the Go code, followed by the goroutine-local
   computation up to its next channel operation:

     Write(p) = WStart p ; (WChkClosed | WChkOpen ; (WSendFast | WSendDefault ; (WSendSlow | WDlTimeout | WStopClosed)))
     Read(p)  = RStart n ; loop { cur non-empty: copy (local)
                                | cur empty: RTakeFast
                                           | RTakeDefault (first iteration: park; later: return what we have)
                                             ; (RTakeSlow | RDlWake ; (RDlTake | RDlTimeout) | RStopWake ; (RStopTake | RStopEof)) }
     Close    = Close                      (idempotent: close(stopCh) once)
     SetWriteDeadline / SetReadDeadline = SetWDl d / SetRDl d    (zero time -> DNone, past -> DFired, future -> DArmed)
     timers   = WDlFire / RDlFire          (an armed timer may fire at any moment: logical time)

   One writer goroutine and one reader goroutine per direction (PipeConns is documented as not safe for
   concurrent use of ONE end by several goroutines); deadlines are set by the goroutine that owns the end
   while it is not inside Write/Read.  Close may come from anybody at any time.

   `hist` is the log of completed calls, newest first (what a caller observes): the theorems are
   statements about the hist of every reachable state.  `sc` in a write pc records whether stopCh was
   already closed when the call started (used only to STATE "writes after Close fail").

   No proofs in this file. *)
From FH Require Import Model.Base Gen.GenC33.
Open Scope N_scope.

(* make(chan *byteBuffer, 4) in NewPipeConns: the integer constants of the function body, regenerated from the
   source (Gen.GenC33.npc_ints = the two channel capacities); the harness also reads cap(rCh) from the real
   object on every run and C33Check compares both channels. *)
Definition chan_cap : N := Z.to_N (nth 0 npc_ints 0%Z).

Inductive dl := DNone | DArmed | DFired.
Inductive wres := WOk | WClosed | WTimeout.
Inductive rres := ROk | REof | RTimeout.

Inductive ev :=
| EvW (p : bytes) (sc : bool) (r : wres)      (* Write(p) returned: (len p, nil) | (0, ErrConnectionClosed) | (0, ErrTimeout) *)
| EvR (n : N) (d : bytes) (r : rres).         (* Read(buf of n bytes) returned len d bytes d and nil | io.EOF | ErrTimeout *)

Inductive wpc :=
| WIdle
| WChk (p : bytes) (sc : bool)     (* buffer filled, before `select { case <-stopCh … default }` *)
| WSel (p : bytes) (sc : bool)     (* before `select { case wCh <- b: default: … }` *)
| WBlk (p : bytes) (sc : bool).    (* inside the blocking select *)

Inductive rpc :=
| RIdle
| RNeed (n rem : N) (acc : bytes) (mb : bool)  (* readNextByteBuffer(mb): before `select { case b = <-rCh: default: }` *)
| RWait (n rem : N)                            (* parked in the blocking select (first iteration only) *)
| RAfterDl (n rem : N)                         (* woken by the deadline: before `select { case b = <-rCh: default: ErrTimeout }` *)
| RAfterStop (n rem : N).                      (* woken by stopCh:       before `select { case b = <-rCh: default: io.EOF }` *)

Record dstate := mkD {
  chan : list bytes;      (* queued buffers, oldest first *)
  cur : bytes;            (* c.bb of the reading end *)
  stopped : bool;         (* pc.stopCh closed *)
  wdl : dl;               (* writeDeadlineCh of the writing end *)
  rdl : dl;               (* readDeadlineCh of the reading end *)
  wp : wpc;
  rp : rpc;
  hist : list ev
}.

Definition dinit : dstate := mkD [] [] false DNone DNone WIdle RIdle [].

Inductive label :=
| LWStart (p : bytes) | LWChkClosed | LWChkOpen | LWSendFast | LWSendDefault | LWSendSlow | LWDlTimeout | LWStopClosed
| LRStart (n : N) | LRTakeFast | LRTakeDefault | LRTakeSlow | LRDlWake | LRStopWake
| LRDlTake | LRDlTimeout | LRStopTake | LRStopEof
| LClose | LSetWDl (d : dl) | LSetRDl (d : dl) | LWDlFire | LRDlFire.

Definition lenN {A} (l : list A) : N := N.of_nat (length l).

Definition set_wp (s : dstate) (w : wpc) : dstate :=
  mkD (chan s) (cur s) (stopped s) (wdl s) (rdl s) w (rp s) (hist s).
Definition set_rp (s : dstate) (r : rpc) : dstate :=
  mkD (chan s) (cur s) (stopped s) (wdl s) (rdl s) (wp s) r (hist s).

(* Write returns *)
Definition w_finish (s : dstate) (p : bytes) (sc : bool) (r : wres) : dstate :=
  mkD (chan s) (cur s) (stopped s) (wdl s) (rdl s) WIdle (rp s) (EvW p sc r :: hist s).
(* `c.wCh <- b` then `return len(p), nil` *)
Definition w_send (s : dstate) (p : bytes) (sc : bool) : dstate :=
  mkD (chan s ++ [p]) (cur s) (stopped s) (wdl s) (rdl s) WIdle (rp s) (EvW p sc WOk :: hist s).

(* Read returns *)
Definition r_finish (s : dstate) (n : N) (d : bytes) (r : rres) : dstate :=
  mkD (chan s) (cur s) (stopped s) (wdl s) (rdl s) (wp s) RIdle (EvR n d r :: hist s).

(* pipeConn.read after c.bb is known to be usable: `n := copy(p, c.bb); c.bb = c.bb[n:]`, then back in
   Read: `nn += n; p = p[n:]; mayBlock = false` and the loop condition.  If p is not full afterwards
   then the whole of bb was copied, so the next iteration calls readNextByteBuffer(false). *)
Definition r_copy (s : dstate) (n rem : N) (acc : bytes) : dstate :=
  let k := N.min rem (lenN (cur s)) in
  let acc' := acc ++ firstn (N.to_nat k) (cur s) in
  let s' := mkD (chan s) (skipn (N.to_nat k) (cur s)) (stopped s) (wdl s) (rdl s) (wp s) (rp s) (hist s) in
  if rem - k =? 0 then r_finish s' n acc' ROk
  else set_rp s' (RNeed n (rem - k) acc' false).

(* head of `for len(p) > 0 { n, err := c.read(p, mayBlock) …` *)
Definition r_head (s : dstate) (n rem : N) (acc : bytes) (mb : bool) : dstate :=
  if rem =? 0 then r_finish s n acc ROk
  else match cur s with
       | [] => set_rp s (RNeed n rem acc mb)
       | _ => r_copy s n rem acc
       end.

(* `c.b = <-c.rCh; c.bb = c.b.b` then the copy *)
Definition r_take (s : dstate) (n rem : N) (acc : bytes) : option dstate :=
  match chan s with
  | [] => None
  | b :: rest => Some (r_copy (mkD rest b (stopped s) (wdl s) (rdl s) (wp s) (rp s) (hist s)) n rem acc)
  end.

Definition is_nil {A} (l : list A) : bool := match l with [] => true | _ => false end.
Definition dl_fired (d : dl) : bool := match d with DFired => true | _ => false end.
Definition has_room (s : dstate) : bool := lenN (chan s) <? chan_cap.

Definition step (s : dstate) (l : label) : option dstate :=
  match l, wp s, rp s with
  (* ---- Write ---- *)
  | LWStart p, WIdle, _ => Some (set_wp s (WChk p (stopped s)))
  | LWChkClosed, WChk p sc, _ => if stopped s then Some (w_finish s p sc WClosed) else None
  | LWChkOpen, WChk p sc, _ => if stopped s then None else Some (set_wp s (WSel p sc))
  | LWSendFast, WSel p sc, _ => if has_room s then Some (w_send s p sc) else None
  | LWSendDefault, WSel p sc, _ => if has_room s then None else Some (set_wp s (WBlk p sc))
  | LWSendSlow, WBlk p sc, _ => if has_room s then Some (w_send s p sc) else None
  | LWDlTimeout, WBlk p sc, _ => if dl_fired (wdl s) then Some (w_finish s p sc WTimeout) else None
  | LWStopClosed, WBlk p sc, _ => if stopped s then Some (w_finish s p sc WClosed) else None
  (* ---- Read ---- *)
  | LRStart n, _, RIdle => Some (r_head s n n [] true)
  | LRTakeFast, _, RNeed n rem acc mb => r_take s n rem acc
  | LRTakeDefault, _, RNeed n rem acc mb =>
      if is_nil (chan s) then
        if mb then Some (set_rp s (RWait n rem))
        else Some (r_finish s n acc ROk)               (* errWouldBlock -> nil *)
      else None
  | LRTakeSlow, _, RWait n rem => r_take s n rem []
  | LRDlWake, _, RWait n rem => if dl_fired (rdl s) then Some (set_rp s (RAfterDl n rem)) else None
  | LRStopWake, _, RWait n rem => if stopped s then Some (set_rp s (RAfterStop n rem)) else None
  | LRDlTake, _, RAfterDl n rem => r_take s n rem []
  | LRDlTimeout, _, RAfterDl n rem => if is_nil (chan s) then Some (r_finish s n [] RTimeout) else None
  | LRStopTake, _, RAfterStop n rem => r_take s n rem []
  | LRStopEof, _, RAfterStop n rem => if is_nil (chan s) then Some (r_finish s n [] REof) else None
  (* ---- environment ---- *)
  | LClose, _, _ => Some (mkD (chan s) (cur s) true (wdl s) (rdl s) (wp s) (rp s) (hist s))
  | LSetWDl d, WIdle, _ => Some (mkD (chan s) (cur s) (stopped s) d (rdl s) (wp s) (rp s) (hist s))
  | LSetRDl d, _, RIdle => Some (mkD (chan s) (cur s) (stopped s) (wdl s) d (wp s) (rp s) (hist s))
  | LWDlFire, _, _ => match wdl s with DArmed => Some (mkD (chan s) (cur s) (stopped s) DFired (rdl s) (wp s) (rp s) (hist s)) | _ => None end
  | LRDlFire, _, _ => match rdl s with DArmed => Some (mkD (chan s) (cur s) (stopped s) (wdl s) DFired (wp s) (rp s) (hist s)) | _ => None end
  | _, _, _ => None
  end.

(* reachability: traces are lists of labels, oldest first *)
Fixpoint run (s : dstate) (tr : list label) : option dstate :=
  match tr with
  | [] => Some s
  | l :: tr' => match step s l with Some s' => run s' tr' | None => None end
  end.
Definition reach (tr : list label) (s : dstate) : Prop := run dinit tr = Some s.

(* ---- what callers observed (hist is newest first) ---- *)
Fixpoint written_h (h : list ev) : bytes :=
  match h with
  | [] => []
  | EvW p _ WOk :: h' => written_h h' ++ p
  | _ :: h' => written_h h'
  end.
Fixpoint read_h (h : list ev) : bytes :=
  match h with
  | [] => []
  | EvR _ d _ :: h' => read_h h' ++ d
  | _ :: h' => read_h h'
  end.
(* bytes a Read in progress has already copied into the caller's buffer *)
Definition racc (r : rpc) : bytes := match r with RNeed _ _ acc _ => acc | _ => [] end.
(* everything sitting between the two ends *)
Definition in_flight (s : dstate) : bytes := racc (rp s) ++ cur s ++ concat (chan s).

(* ---- the pair: conn1 and conn2 of one PipeConns ---- *)
Record pstate := mkP { ab : dstate;    (* written at Conn1, read at Conn2 *)
                       ba : dstate }.  (* written at Conn2, read at Conn1 *)
Inductive plabel := PA (l : label) | PB (l : label) | PClose.
Definition pinit : pstate := mkP dinit dinit.
Definition is_close (l : label) : bool := match l with LClose => true | _ => false end.
Definition pstep (s : pstate) (l : plabel) : option pstate :=
  match l with
  | PA l => if is_close l then None else match step (ab s) l with Some d => Some (mkP d (ba s)) | None => None end
  | PB l => if is_close l then None else match step (ba s) l with Some d => Some (mkP (ab s) d) | None => None end
  | PClose => match step (ab s) LClose, step (ba s) LClose with
              | Some d1, Some d2 => Some (mkP d1 d2)
              | _, _ => None
              end
  end.
Fixpoint prun (s : pstate) (tr : list plabel) : option pstate :=
  match tr with
  | [] => Some s
  | l :: tr' => match pstep s l with Some s' => prun s' tr' | None => None end
  end.
Definition preach (tr : list plabel) (s : pstate) : Prop := prun pinit tr = Some s.

(* ======================================================================================
   Call-level scheduler used by the correspondence check and by the drain theorem: runs ONE call
   of the controller goroutine on the LTS up to its return or up to the point where it parks,
   and lets parked calls of other goroutines continue ("settle").  Every function returns ALL
   states the LTS allows (Go's select picks at random among ready cases; a parked writer that
   gets room may complete its send at any point of a concurrent Read loop).
   `soon` = the harness armed a timer that fires within a few ms: a parked call is woken by it
   (WDlFire / RDlFire are then taken); a timer an hour away leaves the call parked. *)
Inductive obs :=
| ObW (n : N) (r : wres)
| ObR (d : bytes) (r : rres)
| ObNil
| ObParked            (* the call is parked in its blocking select (split-phase calls of the harness) *)
| ObBlocked.          (* the call never returned (watchdog) *)

Definition olist {A} (o : option A) : list A := match o with Some a => [a] | None => [] end.
Definition wres_n (p : bytes) (r : wres) : N := match r with WOk => lenN p | _ => 0 end.
Fixpoint last_w (h : list ev) : obs :=
  match h with [] => ObNil | EvW p _ r :: _ => ObW (wres_n p r) r | _ :: h' => last_w h' end.
Fixpoint last_r (h : list ev) : obs :=
  match h with [] => ObNil | EvR _ d r :: _ => ObR d r | _ :: h' => last_r h' end.
Definition w_parked (s : dstate) : bool := match wp s with WBlk _ _ => true | _ => false end.
Definition r_parked (s : dstate) : bool := match rp s with RWait _ _ => true | _ => false end.

(* Write up to its return or up to the blocking select *)
Definition write_start (s : dstate) (p : bytes) : list dstate :=
  match step s (LWStart p) with
  | None => []
  | Some s1 =>
      match step s1 LWChkClosed with
      | Some s2 => [s2]
      | None =>
          match step s1 LWChkOpen with
          | None => []
          | Some s2 =>
              match step s2 LWSendFast with
              | Some s3 => [s3]
              | None => olist (step s2 LWSendDefault)
              end
          end
      end
  end.
(* a parked Write wakes up: every ready case of the select is a possible outcome; [] = stays parked *)
Definition write_resume (s : dstate) (soon : bool) : list dstate :=
  let fired := match step s LWDlFire with Some s' => if soon then s' else s | None => s end in
  olist (step s LWSendSlow) ++ olist (step fired LWDlTimeout) ++ olist (step s LWStopClosed).

(* the non-blocking part of the Read loop (mayBlock = false) *)
Fixpoint read_loop (fuel : nat) (s : dstate) : list dstate :=
  match rp s with
  | RIdle => [s]
  | RNeed _ _ _ false =>
      match fuel with
      | O => []
      | S f =>
          (match step s LRTakeFast with
           | Some s' => read_loop f s'
           | None => match step s LRTakeDefault with Some s' => read_loop f s' | None => [] end
           end)
          ++ (match step s LWSendSlow with Some s' => read_loop f s' | None => [] end)
      end
  | _ => []
  end.
Definition loop_fuel (s : dstate) : nat := 8 + 2 * length (chan s).
Definition loop_from (o : option dstate) : list dstate :=
  match o with Some s => read_loop (loop_fuel s) s | None => [] end.

Definition read_start (s : dstate) (n : N) : list dstate :=
  match step s (LRStart n) with
  | None => []
  | Some s1 =>
      match rp s1 with
      | RNeed _ _ _ true =>
          match step s1 LRTakeFast with
          | Some s2 => loop_from (Some s2)
          | None => olist (step s1 LRTakeDefault)          (* parked *)
          end
      | _ => loop_from (Some s1)
      end
  end.
Definition read_resume (s : dstate) (soon : bool) : list dstate :=
  let fired := match step s LRDlFire with Some s' => if soon then s' else s | None => s end in
  let via_dl := match step fired LRDlWake with
                | Some s3 => loop_from (step s3 LRDlTake) ++ olist (step s3 LRDlTimeout)
                | None => [] end in
  let via_stop := match step s LRStopWake with
                  | Some s3 => loop_from (step s3 LRStopTake) ++ olist (step s3 LRStopEof)
                  | None => [] end in
  loop_from (step s LRTakeSlow) ++ via_dl ++ via_stop.

Definition or_stay (s : dstate) (l : list dstate) : list dstate := match l with [] => [s] | _ => l end.
Definition settle_w (soon : bool) (s : dstate) : list dstate :=
  if w_parked s then or_stay s (write_resume s soon) else [s].
Definition settle_r (soon : bool) (s : dstate) : list dstate :=
  if r_parked s then or_stay s (read_resume s soon) else [s].
(* parked calls continue as far as they can *)
Definition settle_dir (wsoon rsoon : bool) (s : dstate) : list dstate :=
  flat_map (settle_w wsoon) (flat_map (settle_r rsoon) (settle_w wsoon s)).

(* a whole call from a state where nothing is parked *)
Definition exec_write (s : dstate) (soon : bool) (p : bytes) : list dstate :=
  flat_map (settle_w soon) (write_start s p).
Definition exec_read (s : dstate) (soon : bool) (n : N) : list dstate :=
  flat_map (settle_r soon) (read_start s n).
