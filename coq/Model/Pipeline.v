(* Pipeline.v — labelled transition system of one pipelineConnClient (client.go), shared by C38 and (later) C04.

   Modelled code:
     pipelineConnClient.DoDeadline   -> LCall (Some d) / LEnqOk / LEnqTimeout / LWaitDone / LWaitTimeout
     pipelineConnClient.Do           -> LCall None / LEnqOk / LSubst / LSubstFail / LWaitDone
     pipelineConnClient.writer       -> LWPop / LWPush / LWExit
     pipelineConnClient.reader       -> LRPop / LRRead / LRExit
     pipelineConnClient.worker       -> LDial / LDrainOne / LDrainEnd      (pipelineWorker: the restart loop)
     acquirePipelineConnChannels     -> cap = MaxPendingRequests (DefaultMaxPendingRequests when <= 0): see eff_cap
   Time is a logical clock; timers (w.t, the writer's deadline test) fire exactly at their deadline: LTick is disabled while a caller whose
   deadline has been reached is still in one of its two selects.  The goroutine scheduler, the server and the network are the
   environment: any interleaving of labels, any outcome [ok] of a dial / write / response read.

   A work item (pipelineWork) is identified by the number of the call that created it. *)
From FH Require Import Model.Base.
Open Scope N_scope.

Inductive result := RResp | RTimeout | ROverflow | RConnErr.

(* where a caller is *)
Inductive pc :=
| PNone                         (* call not made yet *)
| PEnq                          (* in the "put the request to outgoing queue" select *)
| PSubst                        (* Do only: substituted the oldest queued item, retrying the put *)
| PWait                         (* in the "wait for the response" select *)
| PRet (r : result) (at_ : N).  (* returned r at logical time at_ *)

Record item := {
  i_dl : option N;        (* DoDeadline: Some deadline; Do: None *)
  i_called : N;           (* time of the call *)
  i_pc : pc;
  i_sent : bool;          (* w.req.Write(bw) was called on it *)
  i_done : option result; (* w.err, valid once a token is in w.done *)
  i_signals : N           (* tokens ever sent to w.done (capacity 1) *)
}.

Inductive mode := Up | Stopping | Down.            (* worker: connection running / tearing down / no connection *)
Inductive wstate := WIdle | WHold (id : nat) | WDown.   (* writer: selecting on chW / wrote id, pushing it to chR / not running *)
Inductive rstate := RIdle | RHold (id : nat) | RDown.   (* reader: selecting on chR / reading the response for id / not running *)

Record st := {
  cap : nat;                 (* cap(chW) = cap(chR) *)
  now : N;
  nitems : nat;
  items : nat -> item;
  chW : list nat;
  chR : list nat;
  wr : wstate;
  rd : rstate;
  md : mode;
  wlog : list nat;           (* requests written on the current connection, in order *)
  rlog : list nat            (* items whose response was read from the current connection, in order *)
}.

Inductive label :=
| LCall (dl : option N)
| LEnqOk (id : nat)          (* chs.chW <- w *)
| LEnqTimeout (id : nat)     (* <-w.t.C in the put select: releasePipelineWork, ErrTimeout *)
| LSubst (id : nat)          (* Do, queue full: wOld := <-chs.chW; wOld.err = ErrPipelineOverflow; wOld.done <- *)
| LSubstFail (id : nat)      (* Do, still full: ErrPipelineOverflow *)
| LWaitDone (id : nat)       (* <-w.done *)
| LWaitTimeout (id : nat)    (* <-w.t.C in the wait select: ErrTimeout, the item stays where it is *)
| LWPop (ok : bool)          (* w = <-chW; deadline test; w.req.Write(bw) succeeded (ok) or failed *)
| LWPush                     (* chR <- w *)
| LWExit                     (* writer returns: stop signal, idle stop, flush error *)
| LRPop                      (* w = <-chR *)
| LRRead (ok : bool)         (* w.resp.Read(br) *)
| LRExit                     (* reader returns on the stop signal *)
| LDrainOne                  (* worker: w := <-chs.chR; w.err = errPipelineConnStopped; w.done <- *)
| LDrainEnd                  (* worker returns; pipelineWorker loops *)
| LDial (ok : bool)          (* worker: dialAddr, start writer and reader *)
| LTick.

Definition default_item : item :=
  {| i_dl := None; i_called := 0; i_pc := PNone; i_sent := false; i_done := None; i_signals := 0 |}.

Definition init (c : nat) : st :=
  {| cap := c; now := 0; nitems := 0; items := fun _ => default_item; chW := []; chR := [];
     wr := WDown; rd := RDown; md := Down; wlog := []; rlog := [] |}.

(* ---- updates ---- *)
Definition upd_item (s : st) (id : nat) (f : item -> item) : st :=
  {| cap := cap s; now := now s; nitems := nitems s;
     items := fun j => if Nat.eqb j id then f (items s j) else items s j;
     chW := chW s; chR := chR s; wr := wr s; rd := rd s; md := md s; wlog := wlog s; rlog := rlog s |}.

Definition set_pc (p : pc) (it : item) : item :=
  {| i_dl := i_dl it; i_called := i_called it; i_pc := p; i_sent := i_sent it; i_done := i_done it; i_signals := i_signals it |}.
Definition set_sent (it : item) : item :=
  {| i_dl := i_dl it; i_called := i_called it; i_pc := i_pc it; i_sent := true; i_done := i_done it; i_signals := i_signals it |}.
(* w.err = e; w.done <- struct{}{} *)
Definition signal (e : result) (it : item) : item :=
  {| i_dl := i_dl it; i_called := i_called it; i_pc := i_pc it; i_sent := i_sent it; i_done := Some e; i_signals := i_signals it + 1 |}.

Definition with_queues (s : st) (w r : list nat) : st :=
  {| cap := cap s; now := now s; nitems := nitems s; items := items s; chW := w; chR := r;
     wr := wr s; rd := rd s; md := md s; wlog := wlog s; rlog := rlog s |}.
Definition with_wr (s : st) (x : wstate) : st :=
  {| cap := cap s; now := now s; nitems := nitems s; items := items s; chW := chW s; chR := chR s;
     wr := x; rd := rd s; md := md s; wlog := wlog s; rlog := rlog s |}.
Definition with_rd (s : st) (x : rstate) : st :=
  {| cap := cap s; now := now s; nitems := nitems s; items := items s; chW := chW s; chR := chR s;
     wr := wr s; rd := x; md := md s; wlog := wlog s; rlog := rlog s |}.
Definition with_md (s : st) (x : mode) : st :=
  {| cap := cap s; now := now s; nitems := nitems s; items := items s; chW := chW s; chR := chR s;
     wr := wr s; rd := rd s; md := x; wlog := wlog s; rlog := rlog s |}.
Definition with_logs (s : st) (w r : list nat) : st :=
  {| cap := cap s; now := now s; nitems := nitems s; items := items s; chW := chW s; chR := chR s;
     wr := wr s; rd := rd s; md := md s; wlog := w; rlog := r |}.
Definition stopping (s : st) : st := with_md s (match md s with Up => Stopping | m => m end).

Definition reached (dl : option N) (t : N) : bool :=      (* the timer / deadline test: time.Since(deadline) >= 0 *)
  match dl with Some d => d <=? t | None => false end.

(* a caller sitting in a select that includes its timer, whose deadline has been reached *)
Definition urgent (t : N) (it : item) : bool :=
  match i_pc it with
  | PEnq | PWait => reached (i_dl it) t
  | _ => false
  end.

Definition full (s : st) (q : list nat) : bool := Nat.leb (cap s) (length q).

(* ---- the transition function ---- *)
Definition step (s : st) (l : label) : option st :=
  match l with
  | LCall dl =>
      let id := nitems s in
      let p := if reached dl (now s) then PRet RTimeout (now s) else PEnq in     (* timeout <= 0 -> ErrTimeout *)
      let it := {| i_dl := dl; i_called := now s; i_pc := p; i_sent := false; i_done := None; i_signals := 0 |} in
      Some {| cap := cap s; now := now s; nitems := S id;
              items := fun j => if Nat.eqb j id then it else items s j;
              chW := chW s; chR := chR s; wr := wr s; rd := rd s; md := md s; wlog := wlog s; rlog := rlog s |}
  | LEnqOk id =>
      match i_pc (items s id) with
      | PEnq | PSubst =>
          if full s (chW s) then None
          else Some (upd_item (with_queues s (chW s ++ [id]) (chR s)) id (set_pc PWait))
      | _ => None
      end
  | LEnqTimeout id =>
      match i_pc (items s id) with
      | PEnq => if reached (i_dl (items s id)) (now s)
                then Some (upd_item s id (set_pc (PRet RTimeout (now s)))) else None
      | _ => None
      end
  | LSubst id =>
      match i_pc (items s id), i_dl (items s id), chW s with
      | PEnq, None, old :: rest =>
          if full s (chW s)
          then Some (upd_item (upd_item (with_queues s rest (chR s)) old (signal ROverflow)) id (set_pc PSubst))
          else None
      | _, _, _ => None
      end
  | LSubstFail id =>
      match i_pc (items s id) with
      | PSubst => if full s (chW s) then Some (upd_item s id (set_pc (PRet ROverflow (now s)))) else None
      | _ => None
      end
  | LWaitDone id =>
      match i_pc (items s id), i_done (items s id) with
      | PWait, Some r => Some (upd_item s id (set_pc (PRet r (now s))))
      | _, _ => None
      end
  | LWaitTimeout id =>
      match i_pc (items s id) with
      | PWait => if reached (i_dl (items s id)) (now s)
                 then Some (upd_item s id (set_pc (PRet RTimeout (now s)))) else None
      | _ => None
      end
  | LWPop ok =>
      match wr s, chW s with
      | WIdle, id :: rest =>
          let s1 := with_queues s rest (chR s) in
          if reached (i_dl (items s id)) (now s)
          then Some (upd_item s1 id (signal RTimeout))                       (* expired in the queue: not written *)
          else if ok
          then Some (with_logs (with_wr (upd_item s1 id set_sent) (WHold id)) (wlog s ++ [id]) (rlog s))
          else Some (stopping (with_wr (upd_item s1 id (fun it => signal RConnErr (set_sent it))) WDown))
      | _, _ => None
      end
  | LWPush =>
      match wr s with
      | WHold id => if full s (chR s) then None
                    else Some (with_wr (with_queues s (chW s) (chR s ++ [id])) WIdle)
      | _ => None
      end
  | LWExit =>
      match wr s with
      | WIdle => Some (stopping (with_wr s WDown))
      | WHold id => Some (stopping (with_wr (upd_item s id (signal RConnErr)) WDown))
      | WDown => None
      end
  | LRPop =>
      match rd s, chR s with
      | RIdle, id :: rest => Some (with_rd (with_queues s (chW s) rest) (RHold id))
      | _, _ => None
      end
  | LRRead ok =>
      match rd s with
      | RHold id =>
          if ok then Some (with_logs (with_rd (upd_item s id (signal RResp)) RIdle) (wlog s) (rlog s ++ [id]))
          else Some (stopping (with_rd (upd_item s id (signal RConnErr)) RDown))
      | _ => None
      end
  | LRExit =>
      match rd s with
      | RIdle => Some (stopping (with_rd s RDown))
      | _ => None
      end
  | LDrainOne =>
      match md s, wr s, rd s, chR s with
      | Stopping, WDown, RDown, id :: rest => Some (upd_item (with_queues s (chW s) rest) id (signal RConnErr))
      | _, _, _, _ => None
      end
  | LDrainEnd =>
      match md s, wr s, rd s, chR s with
      | Stopping, WDown, RDown, [] => Some (with_md s Down)
      | _, _, _, _ => None
      end
  | LDial ok =>
      match md s with
      | Down => if ok then Some (with_logs (with_md (with_rd (with_wr s WIdle) RIdle) Up) [] []) else Some s
      | _ => None
      end
  | LTick =>
      if existsb (fun id => urgent (now s) (items s id)) (seq 0 (nitems s)) then None
      else Some {| cap := cap s; now := now s + 1; nitems := nitems s; items := items s; chW := chW s; chR := chR s;
                   wr := wr s; rd := rd s; md := md s; wlog := wlog s; rlog := rlog s |}
  end.

(* ---- traces ---- *)
Fixpoint run (s : st) (tr : list label) : option st :=
  match tr with
  | [] => Some s
  | l :: rest => match step s l with Some s1 => run s1 rest | None => None end
  end.

Inductive reach (c : nat) : st -> Prop :=
| reach_init : reach c (init c)
| reach_step : forall s l s1, reach c s -> step s l = Some s1 -> reach c s1.

(* acquirePipelineConnChannels: maxPendingRequests <= 0 -> DefaultMaxPendingRequests *)
Definition eff_cap (maxPending defaultMax : Z) : nat :=
  Z.to_nat (if (maxPending <=? 0)%Z then defaultMax else maxPending).
