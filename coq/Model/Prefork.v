(* Prefork.v — model of prefork/prefork.go: Prefork.prefork (master supervision loop),
   startWait (per-child Wait goroutine), doCommand (CommandProducer seam), shutdownChildren,
   killChild, as a labelled transition system.

   The master is sequential; its program counter is `phase`.  Every child the master started
   has a record (`kid`) holding the state of the OS process and of its Wait goroutine.
   `procs` is the Go map childProcs (pid -> *exec.Cmd); a *exec.Cmd is identified by the
   spawn index `cid` of the child it belongs to.  Labels are
     - what the master observes / does:   ESpawn, EHook, EReady, ERecoverCb, ERecv, EGrace, EDrain
     - what the environment does:         EDie (OS), EReap (cmd.Wait returns), ETimer (backoff over)
   `step` is a partial function: None = the label is not enabled in that state.
   Non-Windows path only (runtime.GOOS != "windows").  No proofs in this file. *)
From FH Require Import Model.Base Gen.GenC39.
Open Scope Z_scope.

(* ---- configuration (fields of Prefork that prefork() reads) ---- *)
Record cfg := {
  G : nat;               (* runtime.GOMAXPROCS(0) *)
  T : Z;                 (* RecoverThreshold *)
  backoff : bool;        (* RecoverInterval > 0 *)
  hook_spawn : bool;     (* OnChildSpawn != nil *)
  hook_ready : bool;     (* OnMasterReady != nil *)
  hook_recover : bool    (* OnChildRecover != nil *)
}.

(* error classes prefork() can return *)
Inductive err := ErrProducer | ErrNilCmd | ErrNotStarted | ErrHookSpawn | ErrHookReady | ErrOverRecovery | ErrPanic.

Definition err_eqb (a b : err) : bool :=
  match a, b with
  | ErrProducer, ErrProducer | ErrNilCmd, ErrNilCmd | ErrNotStarted, ErrNotStarted
  | ErrHookSpawn, ErrHookSpawn | ErrHookReady, ErrHookReady | ErrOverRecovery, ErrOverRecovery
  | ErrPanic, ErrPanic => true
  | _, _ => false
  end.

(* result of p.CommandProducer(p.files) as doCommand classifies it *)
Inductive prod_result := PStarted (pid : Z) | PError | PNilCmd | PNotStarted.

(* doCommand: Some pid = started command, or the error returned *)
Definition doCommand (r : prod_result) : Z + err :=
  match r with
  | PError => inr ErrProducer
  | PNilCmd => inr ErrNilCmd
  | PNotStarted => inr ErrNotStarted
  | PStarted pid => inl pid
  end.

Inductive outcome := HOk | HErr | HPanic.       (* a user hook returns nil / an error / panics *)
Inductive death := DSelf | DTerm | DKill.       (* exits by itself / dies of SIGTERM / dies of SIGKILL *)

Inductive ostate := Running | Zombie | Reaped.
Inductive gstate :=
| GWait      (* blocked in cmd.Wait() *)
| GBackoff   (* Wait returned; sleeping RecoverInterval (select timer / ctx.Done) *)
| GQueued    (* sending childExit on sigCh (buffered or blocked in the select) *)
| GDone.     (* goroutine returned: wg slot released *)

Record kid := {
  cid : nat; cpid : Z;
  os : ostate; gor : gstate;
  sig : bool;        (* SIGTERM delivered by shutdownChildren *)
  kil : bool;        (* SIGKILL delivered by killChild *)
  processed : bool;  (* ghost: its childExit was received by the supervision loop *)
  early : bool;      (* ghost: already reaped when shutdownChildren ran its SIGTERM loop *)
  atgrace : bool     (* ghost: not yet reaped when the grace timer fired *)
}.

Definition set_os (o : ostate) (k : kid) : kid :=
  Build_kid (cid k) (cpid k) o (gor k) (sig k) (kil k) (processed k) (early k) (atgrace k).
Definition set_gor (g : gstate) (k : kid) : kid :=
  Build_kid (cid k) (cpid k) (os k) g (sig k) (kil k) (processed k) (early k) (atgrace k).
Definition set_processed (k : kid) : kid :=
  Build_kid (cid k) (cpid k) (os k) GDone (sig k) (kil k) true (early k) (atgrace k).

Inductive phase :=
| PInitSpawn (k : nat)          (* `for range goMaxProcs`: about to doCommand for initial child k *)
| PInitHook (k : nat)           (* initial child k started and startWait done; calling OnChildSpawn *)
| PReady                        (* calling OnMasterReady *)
| PIdle                         (* `for sig := range sigCh`: blocked receiving *)
| PRecSpawn (old : Z)           (* an exit below threshold was processed; about to doCommand *)
| PRecHook (old new : Z)        (* replacement started; calling OnChildSpawn *)
| PRecCb (old new : Z)          (* calling OnChildRecover *)
| PGrace (e : err)              (* shutdownChildren: cancel + SIGTERM loop done; select graceful / timer *)
| PKilled (e : err)             (* grace timer fired, killChild loop done; wg.Wait() *)
| PReturned (e : err).          (* prefork returned e (or re-panicked for ErrPanic) *)

Definition tearing (p : phase) : bool :=
  match p with PGrace _ | PKilled _ | PReturned _ => true | _ => false end.

Record state := {
  ph : phase;
  procs : list (Z * nat);     (* childProcs *)
  kids : list kid;            (* every child started so far, in spawn order *)
  exited : Z                  (* exitedProcs *)
}.

Inductive event :=
| ESpawn (r : prod_result)
| EHook (o : outcome)
| EReady (o : outcome)
| ERecoverCb (old new : Z)
| ERecv (pid : Z)
| EDie (c : nat) (d : death)
| EReap (c : nat)
| ETimer (c : nat)
| EGrace
| EDrain
| ERecoverPanic.      (* OnChildRecover panics: the deferred shutdownChildren runs, the panic goes on to the caller *)

(* ---- Go map operations on childProcs ---- *)
Definition map_delete (pid : Z) (m : list (Z * nat)) : list (Z * nat) :=
  filter (fun e => negb (fst e =? pid)) m.
Definition map_set (pid : Z) (c : nat) (m : list (Z * nat)) : list (Z * nat) :=
  (pid, c) :: map_delete pid m.
Definition in_procs (m : list (Z * nat)) (k : kid) : bool :=
  existsb (fun e => (fst e =? cpid k) && Nat.eqb (snd e) (cid k)) m.

Definition upd (c : nat) (f : kid -> kid) (ks : list kid) : list kid :=
  map (fun k => if Nat.eqb (cid k) c then f k else k) ks.
Definition find_kid (c : nat) (ks : list kid) : option kid :=
  find (fun k => Nat.eqb (cid k) c) ks.

(* ---- shutdownChildren, first half: cancel(); SIGTERM every entry of childProcs ---- *)
(* cancel() releases every Wait goroutine that is past cmd.Wait(); Process.Signal on a process
   whose Wait already returned yields os.ErrProcessDone and sends nothing. *)
Definition term_kid (m : list (Z * nat)) (k : kid) : kid :=
  let g := match gor k with GWait => GWait | _ => GDone end in
  match os k with
  | Reaped => Build_kid (cid k) (cpid k) (os k) g (sig k) (kil k) (processed k) true (atgrace k)
  | _ => Build_kid (cid k) (cpid k) (os k) g (in_procs m k) (kil k) (processed k) (early k) (atgrace k)
  end.

Definition begin_teardown (e : err) (s : state) : state :=
  Build_state (PGrace e) (procs s) (map (term_kid (procs s)) (kids s)) (exited s).

(* second half after the grace timer fired: killChild on every entry of childProcs *)
Definition kill_kid (m : list (Z * nat)) (k : kid) : kid :=
  match os k with
  | Reaped => k
  | _ => Build_kid (cid k) (cpid k) (os k) (gor k) (sig k) (in_procs m k) (processed k) (early k) true
  end.

Definition all_done (ks : list kid) : bool :=
  forallb (fun k => match gor k with GDone => true | _ => false end) ks.

(* ---- the initial spawn loop and what follows a started child ---- *)
Definition next_init (c : cfg) (k : nat) : phase :=
  if Nat.ltb k (G c) then PInitSpawn k else if hook_ready c then PReady else PIdle.

Definition new_kid (c : nat) (pid : Z) : kid :=
  Build_kid c pid Running GWait false false false false false.

(* The two statements that follow a successful doCommand, in code order, both BEFORE the OnChildSpawn hook:
     childProcs[pid] = cmd      (record_child: from now on shutdownChildren reaches the child)
     startWait(cmd, pid)        (start_wait: its Wait goroutine exists and holds a wg slot)
   add_child is their composition (C39_add_child_order); a child with a Wait goroutine that is not
   recorded would be waited for by wg.Wait() but never signalled. *)
Definition record_child (pid : Z) (c : nat) (s : state) : state :=
  Build_state (ph s) (map_set pid c (procs s)) (kids s) (exited s).
Definition start_wait (pid : Z) (c : nat) (s : state) : state :=
  Build_state (ph s) (procs s) (kids s ++ [new_kid c pid]) (exited s).
Definition add_child (pid : Z) (s : state) (p : phase) : state :=
  let c := length (kids s) in
  Build_state p (map_set pid c (procs s)) (kids s ++ [new_kid c pid]) (exited s).

Definition with_ph (p : phase) (s : state) : state := Build_state p (procs s) (kids s) (exited s).
Definition with_kids (ks : list kid) (s : state) : state := Build_state (ph s) (procs s) ks (exited s).

Definition hook_result (o : outcome) (e : err) (ok : phase) (s : state) : state :=
  match o with
  | HOk => with_ph ok s
  | HErr => begin_teardown e s
  | HPanic => begin_teardown ErrPanic s
  end.

Definition after_rec_hook (c : cfg) (old new : Z) : phase :=
  if hook_recover c then PRecCb old new else PIdle.

Definition init (c : cfg) : state := Build_state (next_init c 0) [] [] 0.

Definition step (c : cfg) (s : state) (e : event) : option state :=
  match e with
  | ESpawn r =>
      match ph s with
      | PInitSpawn k =>
          match doCommand r with
          | inl pid => Some (add_child pid s (if hook_spawn c then PInitHook k else next_init c (S k)))
          | inr er => Some (begin_teardown er s)
          end
      | PRecSpawn old =>
          match doCommand r with
          | inl pid => Some (add_child pid s (if hook_spawn c then PRecHook old pid else after_rec_hook c old pid))
          | inr er => Some (begin_teardown er s)
          end
      | _ => None
      end
  | EHook o =>
      match ph s with
      | PInitHook k => Some (hook_result o ErrHookSpawn (next_init c (S k)) s)
      | PRecHook old new => Some (hook_result o ErrHookSpawn (after_rec_hook c old new) s)
      | _ => None
      end
  | EReady o =>
      match ph s with
      | PReady => Some (hook_result o ErrHookReady PIdle s)
      | _ => None
      end
  | ERecoverCb old new =>
      match ph s with
      | PRecCb o n => if (o =? old) && (n =? new) then Some (with_ph PIdle s) else None
      | _ => None
      end
  | ERecv pid =>
      match ph s with
      | PIdle =>
          match find (fun k => (cpid k =? pid) && match gor k with GQueued => true | _ => false end) (kids s) with
          | Some k =>
              let s1 := Build_state PIdle (map_delete pid (procs s)) (upd (cid k) set_processed (kids s)) (exited s + 1) in
              if exited s1 >? T c then Some (begin_teardown ErrOverRecovery s1)
              else Some (with_ph (PRecSpawn pid) s1)
          | None => None
          end
      | _ => None
      end
  | EDie ci d =>
      match find_kid ci (kids s) with
      | Some k =>
          match os k with
          | Running =>
              if match d with DSelf => true | DTerm => sig k | DKill => kil k end
              then Some (with_kids (upd ci (set_os Zombie) (kids s)) s) else None
          | _ => None
          end
      | None => None
      end
  | EReap ci =>
      match find_kid ci (kids s) with
      | Some k =>
          match os k, gor k with
          | Zombie, GWait =>
              let g := if tearing (ph s) then GDone else if backoff c then GBackoff else GQueued in
              Some (with_kids (upd ci (fun k => set_gor g (set_os Reaped k)) (kids s)) s)
          | _, _ => None
          end
      | None => None
      end
  | ETimer ci =>
      match find_kid ci (kids s) with
      | Some k =>
          match gor k with
          | GBackoff => if tearing (ph s) then None else Some (with_kids (upd ci (set_gor GQueued) (kids s)) s)
          | _ => None
          end
      | None => None
      end
  | EGrace =>
      match ph s with
      | PGrace er => Some (Build_state (PKilled er) (procs s) (map (kill_kid (procs s)) (kids s)) (exited s))
      | _ => None
      end
  | EDrain =>
      match ph s with
      | PGrace er | PKilled er => if all_done (kids s) then Some (with_ph (PReturned er) s) else None
      | _ => None
      end
  | ERecoverPanic =>
      match ph s with
      | PRecCb _ _ => Some (begin_teardown ErrPanic s)
      | _ => None
      end
  end.

Fixpoint run (c : cfg) (s : state) (tr : list event) : option state :=
  match tr with
  | [] => Some s
  | e :: tr' => match step c s e with Some s' => run c s' tr' | None => None end
  end.

(* The named OS assumption: a pid handed out by the OS for a new child is not a key of childProcs,
   i.e. it is not the pid of a child that was reaped but whose exit is not processed yet
   (an unreaped child's pid cannot be reused at all). *)
Definition fresh_ok (s : state) (e : event) : Prop :=
  match e with ESpawn (PStarted pid) => ~ In pid (map fst (procs s)) | _ => True end.
Definition fresh_okb (s : state) (e : event) : bool :=
  match e with ESpawn (PStarted pid) => negb (existsb (Z.eqb pid) (map fst (procs s))) | _ => true end.

(* index of the first event violating the assumption along a run (None = assumption holds) *)
Fixpoint run_fresh (c : cfg) (s : state) (tr : list event) : bool :=
  match tr with
  | [] => true
  | e :: tr' => fresh_okb s e && match step c s e with Some s' => run_fresh c s' tr' | None => true end
  end.

Inductive reach (c : cfg) : state -> Prop :=
| reach_init : reach c (init c)
| reach_step s e s' : reach c s -> fresh_ok s e -> step c s e = Some s' -> reach c s'.

(* reachability with the assumption dropped (to show what it protects) *)
Inductive reach_any (c : cfg) : state -> Prop :=
| reacha_init : reach_any c (init c)
| reacha_step s e s' : reach_any c s -> step c s e = Some s' -> reach_any c s'.
