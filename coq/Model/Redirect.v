(* Redirect.v — model of fasthttp's redirect-following client calls (property C20).

   Modelled code, function by function (client.go unless said otherwise):
     StatusCodeIsRedirect                     -> StatusCodeIsRedirect      (the five constants come from Gen)
     splitHostPortBytes                       -> splitHostPortBytes
     hostnameFromHostPortBytes                -> hostnameFromHostPortBytes
     uri.go splitHostURI (host == nil)        -> splitHostURI
     hostnameFromURLString                    -> hostnameFromURLString
     asciiEqualFold                           -> asciiEqualFold (byte-wise toLowerTable comparison)
     isSensitiveRedirectHeader                -> isSensitiveRedirectHeader
     isDomainOrSubdomainBytes                 -> isDomainOrSubdomainBytes
     shouldStripSensitiveHeadersOnRedirect    -> shouldStrip
     header.go normalizeHeaderKey (valid keys)-> normKey
     header.go RequestHeader.Del / del + args.go delAllArgsStable -> hdel
     args.go setArg                           -> setArg
     stripSensitiveHeadersOnRedirect          -> stripSensitiveHeadersOnRedirect (the six Del calls, in source order, then the case-insensitive sweep of h.h)
     http.go Request.ResetBody                -> ResetBody;  postArgs.Reset / parsedPostArgs = false -> reset_postargs
     http.go Request.bodyBytes / onlyMultipartForm / the postArgs fallback -> body_to_send (every body SOURCE: buffer, bodyRaw,
                                                 multipart form, post args; the body stream is write's first branch)
     http.go Request.Write / writeBodyStream + header.go SetContentLength / AppendBytes -> write
                                                 (only what decides: method, generic headers, Content-Length / Content-Type /
                                                  Transfer-Encoding presence, number of body bytes; userinfo -> Authorization)
     the switch at the end of the loop        -> rewrite
     doRequestFollowRedirects                 -> follow / run

   What is NOT modelled and comes in as data (an oracle recorded by the harness through the real code):
     for every Location followed, redirectURI.Host() after getRedirectURL (a_rhost) and whether the next URL can be sent
     (a_ok: req.parseURI succeeds and Client.Do gets as far as writing the request);  for the initial URL the same two values
     (host0, ok0) and the Authorization value Request.Write derives from its userinfo (uinfo0).  The model sends hop i to
     hostnameFromHostPortBytes of that host: "the host the next request is dialled to is the host the trust decision looked at"
     is the one property of the URI layer the theorems rely on; corr_ok compares it with the dialled address on every hop. *)
From FH Require Import Model.Base Gen.GenC20.
Open Scope N_scope.

(* ---- bytes.IndexByte / LastIndexByte / Index -------------------------------------------- *)
Fixpoint index_byte_from (i : Z) (b : N) (s : bytes) : Z :=
  match s with
  | [] => (-1)%Z
  | x :: r => if x =? b then i else index_byte_from (i + 1)%Z b r
  end.
Definition index_byte (b : N) (s : bytes) : Z := index_byte_from 0%Z b s.

Fixpoint last_index_byte_from (i : Z) (b : N) (s : bytes) (acc : Z) : Z :=
  match s with
  | [] => acc
  | x :: r => last_index_byte_from (i + 1)%Z b r (if x =? b then i else acc)
  end.
Definition last_index_byte (b : N) (s : bytes) : Z := last_index_byte_from 0%Z b s (-1)%Z.

Fixpoint has_prefix (p s : bytes) : bool :=
  match p, s with
  | [], _ => true
  | x :: p', y :: s' => (x =? y) && has_prefix p' s'
  | _ :: _, [] => false
  end.
Fixpoint index_sub_from (i : Z) (p s : bytes) : Z :=
  if has_prefix p s then i else
  match s with
  | [] => (-1)%Z
  | _ :: r => index_sub_from (i + 1)%Z p r
  end.
Definition index_sub (p s : bytes) : Z := index_sub_from 0%Z p s.

Definition slice_to (n : Z) (s : bytes) : bytes := firstn (Z.to_nat n) s.      (* s[:n] *)
Definition slice_from (n : Z) (s : bytes) : bytes := skipn (Z.to_nat n) s.     (* s[n:] *)
Definition blen (s : bytes) : Z := Z.of_nat (length s).
Definition at_ (s : bytes) (n : Z) : N := nth (Z.to_nat n) s 0.                 (* s[n], n in range *)
Definition has_byte (b : N) (s : bytes) : bool := (0 <=? index_byte b s)%Z.

(* ---- StatusCodeIsRedirect ---------------------------------------------------------------- *)
Definition StatusCodeIsRedirect (c : Z) : bool :=
  ((c =? StatusMovedPermanently) || (c =? StatusFound) || (c =? StatusSeeOther) ||
   (c =? StatusTemporaryRedirect) || (c =? StatusPermanentRedirect))%Z.

(* ---- splitHostPortBytes / hostnameFromHostPortBytes --------------------------------------- *)
Definition splitHostPortBytes (hp : bytes) : bytes * bytes :=
  match hp with
  | [] => (hp, [])
  | c0 :: _ =>
      if c0 =? LBR then
        let n := last_index_byte RBR hp in
        if ((0 <=? n) && (n + 1 <? blen hp))%Z && (at_ hp (n + 1) =? COLON)
        then (slice_to (n + 1) hp, slice_from (n + 2) hp)
        else (hp, [])
      else
        let n := last_index_byte COLON hp in
        if ((n <? 0) || (0 <=? index_byte COLON (slice_to n hp)))%Z then (hp, [])
        else (slice_to n hp, slice_from (n + 1) hp)
  end.

Definition hostnameFromHostPortBytes (hp : bytes) : bytes :=
  let host := fst (splitHostPortBytes hp) in
  if (2 <=? blen host)%Z && (at_ host 0 =? LBR) && (at_ host (blen host - 1) =? RBR)
  then slice_to (blen host - 2) (slice_from 1 host)
  else host.

(* ---- uri.go splitHostURI with host == nil: (scheme, host, uri) ----------------------------- *)
Definition splitHostURI (uri : bytes) : bytes * bytes * bytes :=
  let n := index_sub strSlashSlash uri in
  if (n <? 0)%Z then (strHTTP, [], uri) else
  let scheme := slice_to n uri in
  if has_byte SLASH scheme then (strHTTP, [], uri) else
  let scheme := match rev scheme with c :: r => if c =? COLON then rev r else scheme | [] => scheme end in
  let uri := slice_from (n + blen strSlashSlash) uri in
  let n := index_byte SLASH uri in
  let nq := index_byte QM uri in
  let n := if ((0 <=? nq) && ((n <? 0) || (nq <? n)))%Z then nq else n in
  let nh := index_byte HASH uri in
  let n := if ((0 <=? nh) && ((n <? 0) || (nh <? n)))%Z then nh else n in
  if (n <? 0)%Z then (scheme, uri, strSlash) else (scheme, slice_to n uri, slice_from n uri).

Definition hostnameFromURLString (url : bytes) : bytes :=
  let host := snd (fst (splitHostURI url)) in
  let n := last_index_byte AT host in
  let host := if (0 <=? n)%Z then slice_from (n + 1) host else host in
  hostnameFromHostPortBytes host.

(* ---- asciiEqualFold ---------------------------------------------------------------------------- *)
(* equal length and toLowerTable[a[i]] == toLowerTable[b[i]] for every i *)
Fixpoint asciiEqualFold (a b : bytes) : bool :=
  match a, b with
  | [], [] => true
  | x :: a', y :: b' => (tbl toLowerTable x =? tbl toLowerTable y) && asciiEqualFold a' b'
  | _, _ => false
  end.

(* ---- isDomainOrSubdomainBytes / shouldStripSensitiveHeadersOnRedirect ----------------------- *)
Definition isDomainOrSubdomainBytes (sub parent : bytes) : bool :=
  if asciiEqualFold sub parent then true
  else match parent with
  | [] => false                                        (* an empty parent must not match every sub ending with '.' *)
  | _ :: _ =>
      if (length sub <=? length parent)%nat || has_byte COLON sub || has_byte PCT sub then false
      else
        let k := (length sub - length parent)%nat in
        if negb (asciiEqualFold (skipn k sub) parent) then false
        else nth (k - 1) sub 0 =? DOT
  end.

Definition shouldStrip (initialHost redirectHostPort : bytes) : bool :=
  negb (isDomainOrSubdomainBytes (hostnameFromHostPortBytes redirectHostPort) initialHost).

(* ---- request header state --------------------------------------------------------------------- *)
Definition hdr := (bytes * bytes)%type.

Record req := mkReq {
  r_method : bytes;          (* RequestHeader.Method() *)
  r_h : list hdr;            (* h.h, with the cookie jar shown as one ("Cookie", value) entry as VisitAll does *)
  r_dn : bool;               (* disableNormalizing *)
  r_ct : bool;               (* len(h.contentType) > 0 *)
  r_cl : Z;                  (* h.contentLength *)
  r_clb : bool;              (* len(h.contentLengthBytes) > 0 *)
  (* the body SOURCES of a Request, as Request.Write consults them *)
  r_body : Z;                (* len(req.body.B): the body buffer (SetBody, BodyWriter, AppendBody) *)
  r_stream : option Z;       (* req.bodyStream != nil (set with bodySize -1): bytes it will yield *)
  r_raw : option Z;          (* req.bodyRaw != nil (SetBodyRaw): its length *)
  r_mpart : option Z;        (* req.multipartForm != nil: length of marshalMultipartForm(form, boundary) *)
  r_pargs : Z;               (* len(req.postArgs.QueryString()) *)
  r_parsed : bool            (* req.parsedPostArgs *)
}.

(* a request whose only body sources are the buffer and/or a stream *)
Definition mkReqB (m : bytes) (h : list hdr) (dn ct : bool) (cl : Z) (clb : bool) (body : Z) (stream : option Z) : req :=
  mkReq m h dn ct cl clb body stream None None 0%Z false.

(* field updates *)
Definition set_method (r : req) (m : bytes) : req :=
  mkReq m (r_h r) (r_dn r) (r_ct r) (r_cl r) (r_clb r) (r_body r) (r_stream r) (r_raw r) (r_mpart r) (r_pargs r) (r_parsed r).
Definition set_h (r : req) (h : list hdr) : req :=
  mkReq (r_method r) h (r_dn r) (r_ct r) (r_cl r) (r_clb r) (r_body r) (r_stream r) (r_raw r) (r_mpart r) (r_pargs r) (r_parsed r).
Definition set_framing (r : req) (h : list hdr) (ct : bool) (cl : Z) (clb : bool) : req :=
  mkReq (r_method r) h (r_dn r) ct cl clb (r_body r) (r_stream r) (r_raw r) (r_mpart r) (r_pargs r) (r_parsed r).
Definition drop_stream (r : req) : req :=
  mkReq (r_method r) (r_h r) (r_dn r) (r_ct r) (r_cl r) (r_clb r) (r_body r) None (r_raw r) (r_mpart r) (r_pargs r) (r_parsed r).
(* req.ResetBody(): bodyRaw = nil, multipart form removed, body stream closed and dropped, body buffer emptied *)
Definition ResetBody (r : req) : req :=
  mkReq (r_method r) (r_h r) (r_dn r) (r_ct r) (r_cl r) (r_clb r) 0%Z None None None (r_pargs r) (r_parsed r).
(* req.postArgs.Reset(); req.parsedPostArgs = false *)
Definition reset_postargs (r : req) : req :=
  mkReq (r_method r) (r_h r) (r_dn r) (r_ct r) (r_cl r) (r_clb r) (r_body r) (r_stream r) (r_raw r) (r_mpart r) 0%Z false.

(* normalizeHeaderKey on a key made of valid header-field bytes *)
Fixpoint normKey_go (upper : bool) (k : bytes) : bytes :=
  match k with
  | [] => []
  | c :: r => let c' := if upper then tbl toUpperTable c else tbl toLowerTable c in
              c' :: normKey_go (c' =? DASH) r
  end.
Definition valid_key (k : bytes) : bool := forallb (fun c => (c <? 128) && (tbl validHeaderFieldByteTable c =? 1)) k.
Definition normKey (dn : bool) (k : bytes) : bytes :=
  if dn then k else if valid_key k then normKey_go true k else k.

(* delAllArgsStable: every entry whose key is byte-equal to key goes (order is not observable here) *)
Definition delAllArgs (h : list hdr) (key : bytes) : list hdr :=
  filter (fun kv => negb (beq (fst kv) key)) h.

(* setArg: replace the value of the first entry with that exact key, else append *)
Fixpoint setArg (h : list hdr) (key value : bytes) : list hdr :=
  match h with
  | [] => [(key, value)]
  | kv :: r => if beq (fst kv) key then (key, value) :: r else kv :: setArg r key value
  end.

(* RequestHeader.Del: key normalised unless disabled; special fields; then delAllArgs *)
Definition hdel (key : bytes) (r : req) : req :=
  let k := normKey (r_dn r) key in
  let ct := if beq k HeaderContentType then false else r_ct r in
  let cl := if beq k HeaderContentLength then 0%Z else r_cl r in
  let clb := if beq k HeaderContentLength then false else r_clb r in
  set_framing r (delAllArgs (r_h r) k) ct cl clb.

(* the six Del calls of stripSensitiveHeadersOnRedirect, in source order *)
Definition sensitive_names : list bytes :=
  [HeaderAuthorization; HeaderCookie; HeaderCookie2; HeaderProxyAuthenticate; HeaderProxyAuthorization; HeaderWWWAuthenticate].

(* the name list inside isSensitiveRedirectHeader is the same six constants *)
Definition isSensitiveRedirectHeader (key : bytes) : bool := existsb (fun n => asciiEqualFold key n) sensitive_names.

Definition stripSensitiveHeadersOnRedirect (r : req) (initialHost redirectHostPort : bytes) : req :=
  if negb (shouldStrip initialHost redirectHostPort) then r
  else
    let r1 := fold_left (fun r k => hdel k r) sensitive_names r in
    (* whether or not normalizing is disabled right now: every entry of h.h whose key is any spelling of the six names goes *)
    set_h r1 (filter (fun kv => negb (isSensitiveRedirectHeader (fst kv))) (r_h r1)).

(* ---- what one written request looks like on the wire ---------------------------------------- *)
Definition lower_ascii (b : N) : N := if (65 <=? b) && (b <=? 90) then b + 32 else b.
Definition lower (s : bytes) : bytes := map lower_ascii s.
Definition is_sens_name (k : bytes) : bool := existsb (fun n => beq (lower k) (lower n)) sensitive_names.

Record sent := mkSent {
  s_method : bytes;
  s_sens : list hdr;        (* header lines whose name is, case-insensitively, one of the six *)
  s_body : Z;               (* body bytes written *)
  s_cl : bool; s_ct : bool; s_te : bool   (* Content-Length / Content-Type / Transfer-Encoding line present *)
}.

Definition ignoreBody (m : bytes) : bool := beq m MethodGet || beq m MethodHead.
Definition has_key (k : bytes) (h : list hdr) : bool := existsb (fun kv => beq (fst kv) k) h.

Definition mk_sent (r : req) (body : Z) : sent :=
  mkSent (r_method r) (filter (fun kv => is_sens_name (fst kv)) (r_h r)) body
         (r_clb r) (r_ct r || (0 <? r_cl r)%Z) (has_key HeaderTransferEncoding (r_h r)).

(* the body Request.Write sends when there is no body stream, in its fallback order:
     body := bodyBytes()                       -- bodyRaw if non-nil, else the body buffer
     if onlyMultipartForm() { body = marshalMultipartForm(...) }   -- a multipart form and an EMPTY body buffer
     if len(body) == 0 { body = postArgs.QueryString() }
   second component: the multipart branch was taken (it also sets the multipart Content-Type) *)
Definition body_to_send (r : req) : Z * bool :=
  let body := match r_raw r with Some n => n | None => r_body r end in
  let only_mp := match r_mpart r with Some _ => (r_body r =? 0)%Z | None => false end in
  let body := if only_mp then match r_mpart r with Some n => n | None => body end else body in
  let body := if (body =? 0)%Z then r_pargs r else body in
  (body, only_mp).

(* Request.Write *)
Definition write (uinfo : option bytes) (r : req) : req * sent :=
  let h1 := match uinfo with
            | Some v => setArg (r_h r) (normKey (r_dn r) HeaderAuthorization) v   (* SetBytesKV(strAuthorization, "Basic …") *)
            | None => r_h r
            end in
  match r_stream r with
  | Some n =>
      (* writeBodyStream, size unknown: SetContentLength(-1), chunked body, stream closed and dropped; no other source is looked at *)
      let r' := drop_stream (set_framing r (setArg h1 HeaderTransferEncoding strChunked) (r_ct r) (-1)%Z false) in
      (r', mk_sent r' n)
  | None =>
      let (body, mp) := body_to_send r in
      let ct := r_ct r || mp in                                            (* SetMultipartFormBoundary sets Content-Type *)
      if negb (body =? 0)%Z || negb (ignoreBody (r_method r)) then
        (* hasBody: SetContentLength(len(body)) *)
        let r' := set_framing r (delAllArgs h1 HeaderTransferEncoding) ct body true in
        (r', mk_sent r' body)
      else
        (* nothing but the header goes out.  Observable convention: -1 = a (stale) Transfer-Encoding line announces a body
           that never comes, 0 = no body *)
        let r' := set_framing r h1 ct (r_cl r) (r_clb r) in
        (r', mk_sent r' (if has_key HeaderTransferEncoding h1 then (-1)%Z else 0%Z))
  end.

(* the switch after stripSensitiveHeadersOnRedirect *)
Definition rewrite_req (status : Z) (r : req) : req :=
  if (status =? StatusSeeOther)%Z then
    let m := if ignoreBody (r_method r) then r_method r else MethodGet in
    let r1 := set_method r m in
    let r2 := hdel HeaderTrailer (hdel HeaderTransferEncoding (hdel HeaderContentType (hdel HeaderContentLength r1))) in
    reset_postargs (ResetBody r2)                  (* req.ResetBody(); req.postArgs.Reset(); req.parsedPostArgs = false *)
  else if beq (r_method r) MethodPost && ((status =? StatusMovedPermanently) || (status =? StatusFound))%Z then
    set_method r MethodGet
  else r.

(* ---- the loop ----------------------------------------------------------------------------------- *)
Record answer := mkAns {
  a_status : Z;
  a_loc : bytes;            (* resp.Header.peek(strLocation); [] = missing/empty *)
  a_rhost : bytes;          (* oracle: redirectURI.Host() after getRedirectURL(url, location) *)
  a_ok : bool               (* oracle: the resulting URL parses and Client.Do can send it *)
}.

Record hop := mkHop {
  h_host : bytes;           (* host name the request is sent to (no port, no brackets) *)
  h_via : Z;                (* ghost: status of the redirect that led here (0 for the first request) *)
  h_prev : bytes;           (* ghost: method of the previous request ([] for the first) *)
  h_sent : sent
}.

Inductive result := RDone | RTooMany | RMissingLocation | RErr.

Fixpoint follow (maxr : Z) (init : bytes) (cnt : Z) (r : req) (uinfo : option bytes) (ok : bool) (rhost : bytes)
                (via : Z) (prev : bytes) (chain : list answer) : list hop * result :=
  if negb ok then ([], RErr) else                                    (* parseURI error or c.Do error: nothing sent *)
  let (r1, s) := write uinfo r in
  let hp := mkHop (hostnameFromHostPortBytes rhost) via prev s in
  match chain with
  | [] => ([hp], RDone)                                              (* the server answers with a non-redirect *)
  | a :: rest =>
      if negb (StatusCodeIsRedirect (a_status a)) then ([hp], RDone) else
      let cnt' := (cnt + 1)%Z in
      if (cnt' >? maxr)%Z then ([hp], RTooMany) else
      match a_loc a with
      | [] => ([hp], RMissingLocation)
      | _ :: _ =>
          let r2 := stripSensitiveHeadersOnRedirect r1 init (a_rhost a) in
          let r3 := rewrite_req (a_status a) r2 in
          let (hs, res) := follow maxr init cnt' r3 None (a_ok a) (a_rhost a) (a_status a) (r_method r1) rest in
          (hp :: hs, res)
      end
  end.

Definition run (maxr : Z) (url0 host0 : bytes) (ok0 : bool) (uinfo0 : option bytes) (r0 : req) (chain : list answer)
  : list hop * result :=
  follow maxr (hostnameFromURLString url0) 0%Z r0 uinfo0 ok0 host0 0%Z [] chain.
