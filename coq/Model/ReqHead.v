(* ReqHead.v — model of RequestHeader head parsing (header.go), owner C09/C08.

   INTERFACE FOR IMPORTERS
     hcfg                       parser configuration (DisableHeaderNamesNormalizing, disableSpecialHeader,
                                secureErrorLogMessage)
     herr                       error classes (no strings)
     hres A                     HOk a | HNeedMore | HErr e | HPanic | HOutOfFuel
                                (HPanic / HOutOfFuel are unreachable: Proof.HeadProof.req_head_total)
     req_head                   the fields RequestHeader holds after a successful parse
     req_head_parse cfg b       RequestHeader.parse + validate over b = "everything currently buffered":
                                HOk (head, n): accepted, n = bytes consumed (mustDiscard(r, n));
                                HNeedMore: ErrNeedMore; HErr e: rejected
     peek_err, try_res, req_try_read cfg n b perr
                                RequestHeader.tryRead after r.Peek(n) returned error perr with b buffered
     req_read cfg bsize input final
                                RequestHeader.Read over a bufio.Reader of size bsize whose source yields all of
                                input in one Read call and then fails with [final]

   content_length encoding: -2 none ("identity"), -1 chunked, n >= 0 Content-Length.
   On every error path the Go code also sets h.connectionClose = true; Read then resets the header, so the
   model reports the error class only. *)
From FH Require Import Model.Base Gen.GenC09 Gen.GenC30 Gen.GenC32 Model.ByteClassModel Model.Ints Model.Lines.
Open Scope nat_scope.

Record hcfg := { disable_norm : bool; disable_special : bool; secure_err : bool }.
Definition default_cfg : hcfg := {| disable_norm := false; disable_special := false; secure_err := false |}.

Inductive herr :=
| EMissingMethod        (* cannot find http request method *)
| EUnsupportedMethod
| ENoSpaceFirstLine     (* cannot find whitespace in the first line of request / response *)
| EBadVersion           (* unsupported http version *)
| EEmptyURI
| EInvalidURI
| EBadStatus            (* response: invalid status code *)
| EStartSpace           (* headers cannot start with space or tab *)
| EBadBlockEnd          (* the header block must end with an empty CRLF line (request side) *)
| EMissingColon         (* malformed mime header: missing colon *)
| EBadKeyLine           (* malformed mime header line (invalid key bytes) *)
| EInvalidKey           (* invalid header key (space before colon / empty) *)
| EInvalidValue
| EDupCL                (* ErrDuplicateContentLength *)
| EBadCL                (* cannot parse content-length *)
| EUnsupportedTE        (* ErrUnsupportedTransferEncoding / unsupported transfer-encoding: %q *)
| ETooManyTE            (* too many transfer-encoding headers (non-secure message) *)
| ETooManyHost
| EBadTrailer           (* ErrBadTrailer *)
| EHostRequired.        (* errRequestHostRequired *)

Inductive hres (A : Type) : Type := HOk (a : A) | HNeedMore | HErr (e : herr) | HPanic | HOutOfFuel.
Arguments HOk {A} a. Arguments HNeedMore {A}. Arguments HErr {A} e. Arguments HPanic {A}. Arguments HOutOfFuel {A}.

Definition of_scan_err (e : scan_err) : herr :=
  match e with SMissingColon => EMissingColon | SBadKey => EBadKeyLine end.

(* ---------- parseContentLength ---------- *)
(* Some v | None = error.  parseUintBuf at the 64-bit word size of the harness platform. *)
Definition parseContentLength (b : bytes) : option Z :=
  match parseUintBuf 64 b with
  | (v, n, err) =>
      match err with
      | Some _ => None
      | None => if Z.eqb n (Z.of_nat (length b)) then Some v else None
      end
  end.

(* ---------- validateRequestURI (header.go), isValidScheme / stringContainsCTLByte (uri.go) ---------- *)
Definition stringContainsCTLByte (s : bytes) : bool := existsb (fun b => N.ltb b 32 || N.eqb b 127) s.
Definition is_alpha (c : N) : bool := (N.leb 97 c && N.leb c 122) || (N.leb 65 c && N.leb c 90).
Definition isValidScheme (scheme : bytes) : bool :=
  match scheme with
  | [] => false
  | first :: rest =>
      is_alpha first &&
      forallb (fun c => is_alpha c || is_digit c || N.eqb c PLUS || N.eqb c DASH || N.eqb c DOT) rest
  end.
(* bytes.Cut(requestURI, "://") — the part before the first occurrence *)
Definition validateRequestURI (method requestURI : bytes) : bool :=
  if stringContainsCTLByte requestURI then false
  else if beq requestURI [42%N] then true                                       (* len == 1 && uri[0] == '*' *)
  else if match requestURI with c :: _ => N.eqb c SLASH | [] => false end then true
  else match index_sub strColonSlashSlash requestURI with
       | Some i => isValidScheme (firstn i requestURI)
       | None => beq method strConnect
       end.

(* ---------- RequestHeader.parseFirstLine ---------- *)
Record req_line := { rl_len : nat; rl_method : bytes; rl_uri : bytes; rl_proto : bytes; rl_noHTTP11 : bool }.
Inductive fl_res (A : Type) := FLNeedMore | FLErr (e : herr) | FLOk (a : A).
Arguments FLNeedMore {A}. Arguments FLErr {A} e. Arguments FLOk {A} a.

(* the part of parseFirstLine after the first non-blank line b has been found; consumed = len(buf) - len(bNext) *)
Definition req_line_parse (b : bytes) (consumed : nat) : R (fl_res req_line) :=
  match index_byte b SP with
  | None => Ok (FLErr EMissingMethod)
  | Some O => Ok (FLErr EMissingMethod)
  | Some n =>
      do meth <- slice b 0 n;
      if negb (isValidMethod meth) then Ok (FLErr EUnsupportedMethod)
      else
        do b1 <- slice b (n + 1) (length b);
        match index_byte b1 SP with
        | None => Ok (FLErr ENoSpaceFirstLine)
        | Some n2 =>
            do protoStr <- slice b1 (n2 + 1) (length b1);
            do okv <- isHTTPVersion protoStr;
            if negb okv then Ok (FLErr EBadVersion)
            else if n2 =? 0 then Ok (FLErr EEmptyURI)
            else
              do uri <- slice b1 0 n2;
              if negb (validateRequestURI meth uri) then Ok (FLErr EInvalidURI)
              else Ok (FLOk {| rl_len := consumed; rl_method := meth; rl_uri := uri;
                               rl_proto := protoStr; rl_noHTTP11 := negb (beq protoStr strHTTP11) |})
        end
  end.

Definition req_parseFirstLine (buf : bytes) : R (fl_res req_line) :=
  do r <- firstLine_loop (S (length buf)) buf;
  match r with
  | None => Ok FLNeedMore
  | Some (b, bNext) => req_line_parse b (length buf - length bNext)
  end.

(* ---------- RequestHeader.parseHeaders ---------- *)
Record rqst := {
  q_cl : Z; q_clb : bytes; q_close : bool; q_hh : kvs;
  q_host : bytes; q_ua : bytes; q_ct : bytes; q_trailer : list bytes;
  q_clSeen : bool; q_teSeen : bool; q_hostSeen : bool; q_closeAfter : bool }.

Definition rq_init : rqst :=
  {| q_cl := (-2)%Z; q_clb := []; q_close := false; q_hh := []; q_host := []; q_ua := []; q_ct := [];
     q_trailer := []; q_clSeen := false; q_teSeen := false; q_hostSeen := false; q_closeAfter := false |}.

Definition set_hh (s : rqst) (x : kvs) : rqst :=
  {| q_cl := q_cl s; q_clb := q_clb s; q_close := q_close s; q_hh := x; q_host := q_host s; q_ua := q_ua s; q_ct := q_ct s;
     q_trailer := q_trailer s; q_clSeen := q_clSeen s; q_teSeen := q_teSeen s; q_hostSeen := q_hostSeen s; q_closeAfter := q_closeAfter s |}.
Definition set_cl (s : rqst) (v : Z) (vb : bytes) : rqst :=
  {| q_cl := v; q_clb := vb; q_close := q_close s; q_hh := q_hh s; q_host := q_host s; q_ua := q_ua s; q_ct := q_ct s;
     q_trailer := q_trailer s; q_clSeen := q_clSeen s; q_teSeen := q_teSeen s; q_hostSeen := q_hostSeen s; q_closeAfter := q_closeAfter s |}.
Definition set_close (s : rqst) (x : bool) : rqst :=
  {| q_cl := q_cl s; q_clb := q_clb s; q_close := x; q_hh := q_hh s; q_host := q_host s; q_ua := q_ua s; q_ct := q_ct s;
     q_trailer := q_trailer s; q_clSeen := q_clSeen s; q_teSeen := q_teSeen s; q_hostSeen := q_hostSeen s; q_closeAfter := q_closeAfter s |}.
Definition set_host (s : rqst) (x : bytes) : rqst :=
  {| q_cl := q_cl s; q_clb := q_clb s; q_close := q_close s; q_hh := q_hh s; q_host := x; q_ua := q_ua s; q_ct := q_ct s;
     q_trailer := q_trailer s; q_clSeen := q_clSeen s; q_teSeen := q_teSeen s; q_hostSeen := true; q_closeAfter := q_closeAfter s |}.
Definition set_ua (s : rqst) (x : bytes) : rqst :=
  {| q_cl := q_cl s; q_clb := q_clb s; q_close := q_close s; q_hh := q_hh s; q_host := q_host s; q_ua := x; q_ct := q_ct s;
     q_trailer := q_trailer s; q_clSeen := q_clSeen s; q_teSeen := q_teSeen s; q_hostSeen := q_hostSeen s; q_closeAfter := q_closeAfter s |}.
Definition set_ct (s : rqst) (x : bytes) : rqst :=
  {| q_cl := q_cl s; q_clb := q_clb s; q_close := q_close s; q_hh := q_hh s; q_host := q_host s; q_ua := q_ua s; q_ct := x;
     q_trailer := q_trailer s; q_clSeen := q_clSeen s; q_teSeen := q_teSeen s; q_hostSeen := q_hostSeen s; q_closeAfter := q_closeAfter s |}.
Definition set_trailer (s : rqst) (x : list bytes) : rqst :=
  {| q_cl := q_cl s; q_clb := q_clb s; q_close := q_close s; q_hh := q_hh s; q_host := q_host s; q_ua := q_ua s; q_ct := q_ct s;
     q_trailer := x; q_clSeen := q_clSeen s; q_teSeen := q_teSeen s; q_hostSeen := q_hostSeen s; q_closeAfter := q_closeAfter s |}.
Definition set_clSeen (s : rqst) : rqst :=
  {| q_cl := q_cl s; q_clb := q_clb s; q_close := q_close s; q_hh := q_hh s; q_host := q_host s; q_ua := q_ua s; q_ct := q_ct s;
     q_trailer := q_trailer s; q_clSeen := true; q_teSeen := q_teSeen s; q_hostSeen := q_hostSeen s; q_closeAfter := q_closeAfter s |}.
Definition set_teSeen (s : rqst) : rqst :=
  {| q_cl := q_cl s; q_clb := q_clb s; q_close := q_close s; q_hh := q_hh s; q_host := q_host s; q_ua := q_ua s; q_ct := q_ct s;
     q_trailer := q_trailer s; q_clSeen := q_clSeen s; q_teSeen := true; q_hostSeen := q_hostSeen s; q_closeAfter := q_closeAfter s |}.
Definition set_closeAfter (s : rqst) : rqst :=
  {| q_cl := q_cl s; q_clb := q_clb s; q_close := q_close s; q_hh := q_hh s; q_host := q_host s; q_ua := q_ua s; q_ct := q_ct s;
     q_trailer := q_trailer s; q_clSeen := q_clSeen s; q_teSeen := q_teSeen s; q_hostSeen := q_hostSeen s; q_closeAfter := true |}.

Inductive step_res (S : Type) := StOk (s : S) | StErr (e : herr).
Arguments StOk {S} s. Arguments StErr {S} e.

(* body of the `for s.next()` loop for one (key, value, keyHasSpace) *)
Definition req_header_step (cfg : hcfg) (noHTTP11 : bool) (st : rqst) (k v : bytes) (inner : bool)
  : R (step_res rqst) :=
  let key := trimTrailingSpace k in
  if negb (length key =? length k) then Ok (StErr EInvalidKey)
  else match key with
  | [] => Ok (StErr EInvalidKey)
  | _ =>
    let key := normalizeHeaderKeyValidated key (disable_norm cfg || inner) in
    if negb (validValue v) then Ok (StErr EInvalidValue)
    else
    let c0 := first_lower key in
    (* first switch: framing headers are checked even with disableSpecialHeader *)
    let isCL := N.eqb c0 (ch "c") && cic key strContentLength in
    let isTE := N.eqb c0 (ch "t") && cic key strTransferEncoding in
    let pre : step_res (rqst * Z) :=
      if isCL then
        if q_clSeen st then StErr EDupCL
        else match parseContentLength v with
             | None => StErr EBadCL
             | Some n => StOk (set_clSeen st, n)
             end
      else if isTE then
        if noHTTP11 then StErr EUnsupportedTE
        else if q_teSeen st then StErr (if secure_err cfg then EUnsupportedTE else ETooManyTE)
        else StOk (set_teSeen st, 0%Z)
      else StOk (st, 0%Z) in
    match pre with
    | StErr e => Ok (StErr e)
    | StOk (st, contentLength) =>
      let other := Ok (StOk (set_hh st (appendArg (q_hh st) key v))) in
      if disable_special cfg then other
      else if N.eqb c0 (ch "h") then
        if cic key strHost then
          if q_hostSeen st then Ok (StErr ETooManyHost) else Ok (StOk (set_host st v))
        else other
      else if N.eqb c0 (ch "u") then
        if cic key strUserAgent then Ok (StOk (set_ua st v)) else other
      else if N.eqb c0 (ch "c") then
        if cic key strContentType then Ok (StOk (set_ct st v))
        else if isCL then
          Ok (StOk (if Z.eqb (q_cl st) (-1) then st else set_cl st contentLength v))
        else if cic key strConnection then
          if hasHeaderValue v strClose then Ok (StOk (set_close st true))  (* list-aware, case-insensitive *)
          else Ok (StOk (set_hh st (appendArg (q_hh st) key v)))   (* 0c9b9fb: does not undo an earlier close *)
        else other
      else if N.eqb c0 (ch "t") then
        if isTE then
          let isIdentity := cic v strIdentity in
          let isChunked := cic v strChunked in
          if negb isIdentity && negb isChunked then Ok (StErr EUnsupportedTE)
          else if isChunked
               then Ok (StOk (set_hh (set_cl st (-1)%Z (q_clb st)) (setArg (q_hh st) strTransferEncoding strChunked)))
               else Ok (StOk (set_closeAfter st))
        else if cic key strTrailer then
          do tr <- SetTrailerBytes (disable_norm cfg) v;
          let '(tl, bad) := tr in
          if bad then Ok (StErr EBadTrailer) else Ok (StOk (set_trailer st tl))
        else other
      else other
    end
  end.

(* the loop over scanner.next(); returns the final state and s.r *)
Fixpoint req_headers_loop (fuel : nat) (cfg : hcfg) (noHTTP11 : bool) (b : bytes) (r : nat) (st : rqst)
  : R (step_res (rqst * nat)) :=
  match fuel with
  | O => OutOfFuel
  | S f =>
      do nx <- scan_next b r;
      match nx with
      | NStop None r1 => Ok (StOk (st, r1))
      | NStop (Some e) _ => Ok (StErr (of_scan_err e))
      | NKV k v inner r1 =>
          do sr <- req_header_step cfg noHTTP11 st k v inner;
          match sr with
          | StErr e => Ok (StErr e)
          | StOk st' => req_headers_loop f cfg noHTTP11 b r1 st'
          end
      end
  end.

(* what follows the loop in parseHeaders *)
Definition req_finish (noHTTP11 : bool) (st : rqst) : rqst :=
  let st := if Z.ltb (q_cl st) 0 then set_cl st (q_cl st) [] else st in
  let st := if q_closeAfter st || (q_clSeen st && q_teSeen st) then set_close st true else st in
  if noHTTP11 && negb (q_close st)
  then set_close st (negb (hasHeaderValue (peekArgBytes (q_hh st) strConnection) strKeepAlive))
  else st.

Inductive ph_res := PHNeedMore | PHErr (e : herr) | PHOk (st : rqst) (n : nat).

Definition req_parseHeaders (cfg : hcfg) (noHTTP11 : bool) (buf : bytes) (blockEnd : nat) : R ph_res :=
  do ir <- scan_init buf blockEnd;
  match ir with
  | IEmpty => Ok (PHOk (req_finish noHTTP11 rq_init) 2)
  | INeedMore => Ok PHNeedMore
  | IStartSpace => Ok (PHErr EStartSpace)
  | IBadBlockEnd => Ok (PHErr EBadBlockEnd)
  | IReady b =>
      do lr <- req_headers_loop (S (length b)) cfg noHTTP11 b 0 rq_init;
      match lr with
      | StErr e => Ok (PHErr e)
      | StOk (st, r) => Ok (PHOk (req_finish noHTTP11 st) r)
      end
  end.

(* ---------- the parsed head ---------- *)
Record req_head := {
  meth : bytes; target : bytes; proto : bytes; http11 : bool;
  fields : kvs;                 (* h.h in order (Cookie lines included: cookies are collected lazily) *)
  host : bytes; ctype : bytes; ua : bytes;
  content_length : Z;           (* -2 | -1 | n *)
  cl_bytes : bytes;             (* contentLengthBytes *)
  conn_close : bool;
  trailer : list bytes;
  raw_headers : bytes }.        (* h.rawHeaders = the block readRawHeaders delimited (RawHeaders()) *)

Definition cookies_raw (h : req_head) : list bytes :=
  map snd (filter (fun kv => cic (fst kv) strCookie) (fields h)).

Definition mk_req_head (l : req_line) (st : rqst) (raw : bytes) : req_head :=
  {| meth := rl_method l; target := rl_uri l; proto := rl_proto l; http11 := negb (rl_noHTTP11 l);
     fields := q_hh st; host := q_host st; ctype := q_ct st; ua := q_ua st;
     content_length := q_cl st; cl_bytes := q_clb st; conn_close := q_close st; trailer := q_trailer st;
     raw_headers := raw |}.

(* RequestHeader.Host() *)
Definition Host (cfg : hcfg) (h : req_head) : bytes :=
  if disable_special cfg then peekArgBytes (fields h) strHost else host h.

(* RequestHeader.parse followed by validate, as tryRead runs them on the peeked buffer *)
Definition req_parse_R (cfg : hcfg) (buf : bytes) : R (hres (req_head * nat)) :=
  do fl <- req_parseFirstLine buf;
  match fl with
  | FLNeedMore => Ok HNeedMore
  | FLErr e => Ok (HErr e)
  | FLOk l =>
      let m := rl_len l in
      do rest <- slice buf m (length buf);
      do raw <- readRawHeaders rest;
      match raw with
      | None => Ok HNeedMore
      | Some (raw, rawEnd) =>
          do ph <- req_parseHeaders cfg (rl_noHTTP11 l) rest rawEnd;
          match ph with
          | PHNeedMore => Ok HNeedMore
          | PHErr e => Ok (HErr e)
          | PHOk st n =>
              let hd := mk_req_head l st raw in
              if http11 hd && (length (Host cfg hd) =? 0) then Ok (HErr EHostRequired)
              else Ok (HOk (hd, m + n))
          end
      end
  end.

Definition req_head_parse (cfg : hcfg) (buf : bytes) : hres (req_head * nat) :=
  match req_parse_R cfg buf with
  | Ok r => r
  | Panic => HPanic
  | OutOfFuel => HOutOfFuel
  end.

(* ---------- tryRead / Read ---------- *)
(* the error r.Peek(n) returned *)
Inductive peek_err := PENil | PEEof | PEBufferFull | PEOther.

Inductive try_res (A : Type) : Type :=
| TOk (a : A) (n : nat)    (* parsed; n bytes discarded *)
| TNeedMore                (* ErrNeedMore: the caller peeks for more *)
| TEOF                     (* io.EOF *)
| TNothingRead             (* ErrNothingRead (request) *)
| TSmallBuffer             (* ErrSmallBuffer *)
| TIoErr                   (* the reader's error, wrapped *)
| TErr (e : herr)
| TBug.                    (* model Panic / OutOfFuel / "Peek returned nil, nil" — unreachable *)
Arguments TOk {A} a n. Arguments TNeedMore {A}. Arguments TEOF {A}. Arguments TNothingRead {A}.
Arguments TSmallBuffer {A}. Arguments TIoErr {A}. Arguments TErr {A} e. Arguments TBug {A}.

(* headerError for errParse = ErrNeedMore *)
Definition need_more_class {A} (b : bytes) (perr : peek_err) : try_res A :=
  match perr with
  | PENil => TNeedMore
  | _ => if isOnlyCRLF b then TEOF
         else match perr with PEBufferFull => TSmallBuffer | _ => TIoErr end
  end.

(* b = mustPeekBuffered(r) after r.Peek(n) returned perr *)
Definition req_try_read (cfg : hcfg) (n : nat) (b : bytes) (perr : peek_err) : try_res req_head :=
  match b with
  | [] => match perr with
          | PEEof => TEOF
          | PENil => TBug
          | PEBufferFull => TSmallBuffer
          | PEOther => if n =? 1 then TNothingRead else TIoErr
          end
  | _ => match req_head_parse cfg b with
         | HOk (hd, k) => TOk hd k
         | HNeedMore => need_more_class b perr
         | HErr e => TErr e
         | HPanic | HOutOfFuel => TBug
         end
  end.

(* Read over a bufio.Reader of size bsize: the first Peek(1) buffers min(bsize, |input|) bytes; after
   ErrNeedMore the second Peek(buffered+1) fails with ErrBufferFull when the buffer is full, otherwise it
   pulls the rest (nothing, when everything was buffered) and then [final]. Modelled for inputs that
   either fit in the buffer or whose head does not: enough for one message per call. *)
Definition req_read (cfg : hcfg) (bsize : nat) (input : bytes) (final : peek_err) : try_res req_head :=
  let b := firstn bsize input in
  match b with
  | [] => req_try_read cfg 1 [] final
  | _ =>
    match req_try_read cfg 1 b PENil with
    | TNeedMore =>
        if bsize <? length b + 1 then req_try_read cfg (length b + 1) b PEBufferFull
        else req_try_read cfg (length b + 1) b final
    | r => r
    end
  end.

(* ---------- Read over a source that delivers its bytes in pieces ---------- *)
(* bufio.Reader.Peek(n) over a source that yields at most k bytes per Read call (k = 0: everything it has) and
   fails with [final] once exhausted ([final] <> PENil).  buf = bytes buffered and not yet discarded (the head
   readers discard nothing before they succeed), src = bytes the source still holds.  Result: the new buf/src
   and the error Peek returns. *)
Fixpoint peek_fill (fuel n bsize k : nat) (buf src : bytes) : bytes * bytes * bool (* source exhausted *) :=
  match fuel with
  | O => (buf, src, false)
  | S f =>
      if (length buf <? n) && (length buf <? bsize) then
        match src with
        | [] => (buf, src, true)
        | _ => let m := Nat.min (if k =? 0 then length src else k) (Nat.min (bsize - length buf) (length src)) in
               peek_fill f n bsize k (buf ++ firstn m src) (skipn m src)
        end
      else (buf, src, false)
  end.

Definition peek (n bsize k : nat) (buf src : bytes) (final : peek_err) : bytes * bytes * peek_err :=
  let '(buf', src', exhausted) := peek_fill (S (length src)) n bsize k buf src in
  let perr := if bsize <? n then PEBufferFull
              else if length buf' <? n then (if exhausted then final else PEBufferFull)
              else PENil in
  (buf', src', perr).

(* the loop of RequestHeader.Read / ResponseHeader.Read around a tryRead function *)
Fixpoint read_loop {A} (try : nat -> bytes -> peek_err -> try_res A)
         (fuel n bsize k : nat) (buf src : bytes) (final : peek_err) : try_res A :=
  match fuel with
  | O => TBug
  | S f =>
      let '(buf', src', perr) := peek n bsize k buf src final in
      match try n buf' perr with
      | TNeedMore => read_loop try f (length buf' + 1) bsize k buf' src' final
      | r => r
      end
  end.

(* RequestHeader.Read over a bufio.Reader of size bsize on a source that yields input k bytes at a time *)
Definition req_read_chunks (cfg : hcfg) (bsize k : nat) (input : bytes) (final : peek_err) : try_res req_head :=
  read_loop (req_try_read cfg) (length input + 2) 1 bsize k [] input final.

(* ---------- Read over a connection that delivers the input by a schedule and then stays IDLE ---------- *)
(* The read loops of RequestHeader.readLoop(r, true) and ResponseHeader.Read: n := 1; after ErrNeedMore
   n = r.Buffered() + 1.  Nothing is discarded before success, so n = len(buffered) + 1 in every iteration
   (the first included), and Peek(n) needs exactly one successful underlying Read when the buffer has room:
       for buffered < n && buffered < size && err == nil { fill() }.
   [chunks] is the delivery schedule: the i-th Read call on the connection returns the i-th chunk (cut to the free
   buffer space; the remainder is returned by the next call); when the schedule is exhausted the connection is
   IDLE — a Read would block for ever.  Result:
     Answered r k : the loop returned r after k successful Read calls, without attempting another one;
     AsksMore k   : after k successful Read calls the loop issued a Read on the idle connection (it hangs);
     IdleBug      : model artefact (fuel) — unreachable. *)
Inductive idle_res (A : Type) : Type := Answered (r : try_res A) (reads : nat) | AsksMore (reads : nat) | IdleBug.
Arguments Answered {A} r reads. Arguments AsksMore {A} reads. Arguments IdleBug {A}.

Fixpoint read_idle {A} (try : nat -> bytes -> peek_err -> try_res A)
         (fuel bsize : nat) (buf : bytes) (chunks : list bytes) (reads : nat) : idle_res A :=
  match fuel with
  | O => IdleBug
  | S f =>
      let n := length buf + 1 in                        (* 1 at the start, r.Buffered() + 1 afterwards *)
      if length buf <? bsize then
        match chunks with
        | [] => AsksMore reads                          (* fill() on the idle connection *)
        | c :: rest =>
            let m := Nat.min (length c) (bsize - length buf) in
            let buf' := buf ++ firstn m c in
            let chunks' := match skipn m c with [] => rest | c' => c' :: rest end in
            match try n buf' PENil with
            | TNeedMore => read_idle try f bsize buf' chunks' (S reads)
            | r => Answered r (S reads)
            end
        end
      else                                              (* buffer full: Peek(size + 1) = ErrBufferFull, no Read *)
        match try n buf PEBufferFull with
        | TNeedMore => IdleBug
        | r => Answered r reads
        end
  end.

Definition nonempty_chunks (chunks : list bytes) : list bytes :=
  filter (fun c => match c with [] => false | _ => true end) chunks.

Definition req_read_idle (cfg : hcfg) (bsize : nat) (chunks : list bytes) : idle_res req_head :=
  read_idle (req_try_read cfg) (length (concat chunks) + 2) bsize [] (nonempty_chunks chunks) 0.
