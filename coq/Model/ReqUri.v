(* Model of the URI object as far as Request.Write puts it on the wire (uri.go): the setters that a caller can reach
   through req.URI() — SetQueryString(Bytes), SetPath(Bytes), SetHost(Bytes), SetUsername/SetPassword(Bytes),
   SetHash(Bytes), SetScheme(Bytes), the DisablePathNormalizing field, QueryArgs().Add/Set — and URI.RequestURI()'s composition:
     path part   = PathOriginal() verbatim when DisablePathNormalizing, else appendQuotedPath(Path())
     query part  = '?' + queryArgs.AppendBytes when QueryArgs() was parsed and is non-empty,
                   else '?' + the RAW queryString when non-empty
   and Request.Write on top of it (RequestWriteU = HeaderWrite.RequestWrite fed from the object).
   URI.parse / Update / Parse are not modelled here: the harness reads the object's fields after such a call and the
   model continues from that observed state (UOObserved).  normalizePath is a parameter (Model/PathNorm.v belongs to
   another property); Args is Model/Args.v, appendQuotedPath / lowercaseBytes are Model/Uri.v. *)
From FH Require Import Model.Base Gen.GenC05 Model.Cookie Model.HeaderWrite.
From FH Require Model.Args Model.Uri.
Open Scope N_scope.

Record uriobj := mkUriObj {
  uo_host : bytes; uo_pathOriginal : bytes; uo_path : bytes; uo_queryString : bytes;
  uo_queryArgs : Args.args; uo_parsedQueryArgs : bool; uo_disablePathNorm : bool;
  uo_username : bytes; uo_password : bytes }.

Definition uw_host u x := mkUriObj x (uo_pathOriginal u) (uo_path u) (uo_queryString u) (uo_queryArgs u) (uo_parsedQueryArgs u) (uo_disablePathNorm u) (uo_username u) (uo_password u).
Definition uw_paths u o p := mkUriObj (uo_host u) o p (uo_queryString u) (uo_queryArgs u) (uo_parsedQueryArgs u) (uo_disablePathNorm u) (uo_username u) (uo_password u).
Definition uw_query u qs parsed := mkUriObj (uo_host u) (uo_pathOriginal u) (uo_path u) qs (uo_queryArgs u) parsed (uo_disablePathNorm u) (uo_username u) (uo_password u).
Definition uw_args u a parsed := mkUriObj (uo_host u) (uo_pathOriginal u) (uo_path u) (uo_queryString u) a parsed (uo_disablePathNorm u) (uo_username u) (uo_password u).
Definition uw_disable u b := mkUriObj (uo_host u) (uo_pathOriginal u) (uo_path u) (uo_queryString u) (uo_queryArgs u) (uo_parsedQueryArgs u) b (uo_username u) (uo_password u).
Definition uw_user u x := mkUriObj (uo_host u) (uo_pathOriginal u) (uo_path u) (uo_queryString u) (uo_queryArgs u) (uo_parsedQueryArgs u) (uo_disablePathNorm u) x (uo_password u).
Definition uw_pass u x := mkUriObj (uo_host u) (uo_pathOriginal u) (uo_path u) (uo_queryString u) (uo_queryArgs u) (uo_parsedQueryArgs u) (uo_disablePathNorm u) (uo_username u) x.

Inductive uop :=
| UOSetQueryString (b : bytes) | UOSetPath (b : bytes) | UOSetHost (b : bytes)
| UOSetUsername (b : bytes) | UOSetPassword (b : bytes) | UOSetHash (b : bytes) | UOSetScheme (b : bytes)
| UODisablePathNormalizing (b : bool)
| UOQueryArgsAdd (k v : bytes) | UOQueryArgsSet (k v : bytes)
| UOObserved (u : uriobj).      (* Update / Parse / SetURI: state read from the real object *)

(* parseQueryArgs: once *)
Definition parseQueryArgs (u : uriobj) : uriobj :=
  if uo_parsedQueryArgs u then u
  else uw_args u (match Args.ParseBytes (uo_queryArgs u) (uo_queryString u) with Some a => a | None => uo_queryArgs u end) true.

Section Steps.
  Variable normalizePath : bytes -> bytes.

  Definition ustep (u : uriobj) (o : uop) : uriobj :=
    match o with
    | UOSetQueryString b => uw_query u b false
    | UOSetPath p => uw_paths u p (normalizePath p)
    | UOSetHost h => uw_host u (Uri.lowercaseBytes h)
    | UOSetUsername b => uw_user u b
    | UOSetPassword b => uw_pass u b
    | UOSetHash _ => u            (* the fragment is never sent *)
    | UOSetScheme _ => u          (* the scheme is never sent *)
    | UODisablePathNormalizing b => uw_disable u b
    | UOQueryArgsAdd k v => let u := parseQueryArgs u in uw_args u (Args.Add (uo_queryArgs u) k v) true
    | UOQueryArgsSet k v => let u := parseQueryArgs u in uw_args u (Args.Set_ (uo_queryArgs u) k v) true
    | UOObserved s => s
    end.
  Definition urun (u0 : uriobj) (ops : list uop) : uriobj := fold_left ustep ops u0.
End Steps.

Definition UPath (u : uriobj) : bytes := match uo_path u with [] => strSlash | p => p end.

(* func (u *URI) RequestURI() []byte *)
Definition URequestURI (u : uriobj) : bytes :=
  let dst := if uo_disablePathNorm u then uo_pathOriginal u else Uri.appendQuotedPath [] (UPath u) in
  if uo_parsedQueryArgs u && (0 <? Args.Len (uo_queryArgs u))%Z then Args.AppendBytes (uo_queryArgs u) (dst ++ [63])
  else match uo_queryString u with
       | [] => dst
       | qs => (dst ++ [63]) ++ qs
       end.

(* Request.Write with the request's URI object in state u (parsedURI says whether Write looks at it at all) *)
Definition RequestWriteU (q : req) (parsedURI useHostHeader : bool) (u : uriobj) (body : bytes) : option (req * bytes) :=
  RequestWrite q parsedURI useHostHeader (uo_host u) (URequestURI u) (uo_username u) (uo_password u) body.
