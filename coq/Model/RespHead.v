(* RespHead.v — model of ResponseHeader head parsing (header.go), owner C09/C08.

   INTERFACE FOR IMPORTERS (types hcfg / herr / hres / peek_err / try_res come from Model.ReqHead)
     resp_head                  the fields ResponseHeader holds after a successful parse
     resp_head_parse cfg b      ResponseHeader.parse over b = "everything currently buffered"
                                (disable_special is ignored by responses)
     resp_try_read cfg n b perr ResponseHeader.tryRead after r.Peek(n) returned perr with b buffered
     resp_read cfg bsize input final   ResponseHeader.Read, same reader model as ReqHead.req_read

   The response side has no readRawHeaders: the scanner searches the whole buffer for CRLFCRLF
   (scan_init with blockEnd = 0). *)
From FH Require Import Model.Base Gen.GenC09 Gen.GenC30 Gen.GenC32 Model.ByteClassModel Model.Ints Model.Lines Model.ReqHead.
Open Scope nat_scope.

(* ---------- ResponseHeader.parseFirstLine ---------- *)
Record resp_line := { sl_len : nat; sl_code : Z; sl_msg : bytes; sl_proto : bytes; sl_noHTTP11 : bool }.

Definition resp_line_parse (b : bytes) (consumed : nat) : R (fl_res resp_line) :=
  match index_byte b SP with
  | None => Ok (FLErr ENoSpaceFirstLine)
  | Some n =>
      do protoStr <- slice b 0 n;
      do b1 <- slice b (n + 1) (length b);
      let b2 := drop_while is_sp b1 in                     (* for len(b) > 0 && b[0] == ' ' *)
      do cm <- (match index_byte b2 SP with
                | Some n2 => do c <- slice b2 0 n2; do m <- slice b2 (n2 + 1) (length b2); Ok (c, m)
                | None => Ok (b2, [])
                end);
      let '(statusCode, statusMessage) := cm in
      if negb (length statusCode =? 3) then Ok (FLErr EBadStatus)
      else match parseUintBuf 64 statusCode with
           | (v, k, err) =>
               match err with
               | Some _ => Ok (FLErr EBadStatus)
               | None =>
                   if negb (Z.eqb k 3) then Ok (FLErr EBadStatus)
                   else
                     do okv <- isHTTPVersion protoStr;
                     if negb okv then Ok (FLErr EBadVersion)
                     else Ok (FLOk {| sl_len := consumed; sl_code := v;
                                      sl_msg := removeNewLines statusMessage;   (* SetStatusMessage, only if non-empty *)
                                      sl_proto := protoStr; sl_noHTTP11 := negb (beq protoStr strHTTP11) |})
               end
           end
  end.

Definition resp_parseFirstLine (buf : bytes) : R (fl_res resp_line) :=
  do r <- firstLine_loop (S (length buf)) buf;
  match r with
  | None => Ok FLNeedMore
  | Some (b, bNext) => resp_line_parse b (length buf - length bNext)
  end.

(* ---------- ResponseHeader.parseHeaders ---------- *)
Record rsst := {
  p_cl : Z; p_clb : bytes; p_close : bool; p_hh : kvs;
  p_ct : bytes; p_ce : bytes; p_server : bytes; p_cookies : kvs; p_trailer : list bytes;
  p_clSeen : bool; p_teSeen : bool }.

Definition rs_init : rsst :=
  {| p_cl := (-2)%Z; p_clb := []; p_close := false; p_hh := []; p_ct := []; p_ce := []; p_server := [];
     p_cookies := []; p_trailer := []; p_clSeen := false; p_teSeen := false |}.

Definition pset_hh (s : rsst) (x : kvs) : rsst :=
  {| p_cl := p_cl s; p_clb := p_clb s; p_close := p_close s; p_hh := x; p_ct := p_ct s; p_ce := p_ce s; p_server := p_server s;
     p_cookies := p_cookies s; p_trailer := p_trailer s; p_clSeen := p_clSeen s; p_teSeen := p_teSeen s |}.
Definition pset_cl (s : rsst) (v : Z) (vb : bytes) : rsst :=
  {| p_cl := v; p_clb := vb; p_close := p_close s; p_hh := p_hh s; p_ct := p_ct s; p_ce := p_ce s; p_server := p_server s;
     p_cookies := p_cookies s; p_trailer := p_trailer s; p_clSeen := p_clSeen s; p_teSeen := p_teSeen s |}.
Definition pset_close (s : rsst) (x : bool) : rsst :=
  {| p_cl := p_cl s; p_clb := p_clb s; p_close := x; p_hh := p_hh s; p_ct := p_ct s; p_ce := p_ce s; p_server := p_server s;
     p_cookies := p_cookies s; p_trailer := p_trailer s; p_clSeen := p_clSeen s; p_teSeen := p_teSeen s |}.
Definition pset_ct (s : rsst) (x : bytes) : rsst :=
  {| p_cl := p_cl s; p_clb := p_clb s; p_close := p_close s; p_hh := p_hh s; p_ct := x; p_ce := p_ce s; p_server := p_server s;
     p_cookies := p_cookies s; p_trailer := p_trailer s; p_clSeen := p_clSeen s; p_teSeen := p_teSeen s |}.
Definition pset_ce (s : rsst) (x : bytes) : rsst :=
  {| p_cl := p_cl s; p_clb := p_clb s; p_close := p_close s; p_hh := p_hh s; p_ct := p_ct s; p_ce := x; p_server := p_server s;
     p_cookies := p_cookies s; p_trailer := p_trailer s; p_clSeen := p_clSeen s; p_teSeen := p_teSeen s |}.
Definition pset_server (s : rsst) (x : bytes) : rsst :=
  {| p_cl := p_cl s; p_clb := p_clb s; p_close := p_close s; p_hh := p_hh s; p_ct := p_ct s; p_ce := p_ce s; p_server := x;
     p_cookies := p_cookies s; p_trailer := p_trailer s; p_clSeen := p_clSeen s; p_teSeen := p_teSeen s |}.
Definition pset_cookies (s : rsst) (x : kvs) : rsst :=
  {| p_cl := p_cl s; p_clb := p_clb s; p_close := p_close s; p_hh := p_hh s; p_ct := p_ct s; p_ce := p_ce s; p_server := p_server s;
     p_cookies := x; p_trailer := p_trailer s; p_clSeen := p_clSeen s; p_teSeen := p_teSeen s |}.
Definition pset_trailer (s : rsst) (x : list bytes) : rsst :=
  {| p_cl := p_cl s; p_clb := p_clb s; p_close := p_close s; p_hh := p_hh s; p_ct := p_ct s; p_ce := p_ce s; p_server := p_server s;
     p_cookies := p_cookies s; p_trailer := x; p_clSeen := p_clSeen s; p_teSeen := p_teSeen s |}.
Definition pset_clSeen (s : rsst) : rsst :=
  {| p_cl := p_cl s; p_clb := p_clb s; p_close := p_close s; p_hh := p_hh s; p_ct := p_ct s; p_ce := p_ce s; p_server := p_server s;
     p_cookies := p_cookies s; p_trailer := p_trailer s; p_clSeen := true; p_teSeen := p_teSeen s |}.
Definition pset_teSeen (s : rsst) : rsst :=
  {| p_cl := p_cl s; p_clb := p_clb s; p_close := p_close s; p_hh := p_hh s; p_ct := p_ct s; p_ce := p_ce s; p_server := p_server s;
     p_cookies := p_cookies s; p_trailer := p_trailer s; p_clSeen := p_clSeen s; p_teSeen := true |}.

(* cookie.go getCookieKey = decodeCookieArg(src[:IndexByte(src,'=')], skipQuotes=false): trims SP on both sides *)
Definition getCookieKey (src : bytes) : bytes :=
  let src := match index_byte src EQS with Some n => firstn n src | None => src end in
  stripSP src.

Definition resp_header_step (cfg : hcfg) (noHTTP11 : bool) (st : rsst) (k v : bytes) (inner : bool)
  : R (step_res rsst) :=
  let key := trimTrailingSpace k in
  match key with
  | [] => Ok (StErr EInvalidKey)
  | _ =>
    let st := if inner then pset_close st true else st in
    let key := normalizeHeaderKeyValidated key (disable_norm cfg || inner) in
    if negb (validValue v) then Ok (StErr EInvalidValue)
    else
    let c0 := first_lower key in
    let other := Ok (StOk (pset_hh st (appendArg (p_hh st) key v))) in
    if N.eqb c0 (ch "c") then
      if cic key strContentType then Ok (StOk (pset_ct st v))
      else if cic key strContentEncoding then Ok (StOk (pset_ce st v))
      else if cic key strContentLength then
        if p_clSeen st then Ok (StErr EDupCL)
        else match parseContentLength v with
             | None => Ok (StErr EBadCL)
             | Some n =>
                 let st := pset_clSeen st in
                 Ok (StOk (if Z.eqb (p_cl st) (-1) then st else pset_cl st n v))
             end
      else if cic key strConnection then
        if hasHeaderValue v strClose then Ok (StOk (pset_close st true))
        else Ok (StOk (pset_hh st (appendArg (p_hh st) key v)))
      else other
    else if N.eqb c0 (ch "s") then
      if cic key strServer then Ok (StOk (pset_server st v))
      else if cic key strSetCookie then Ok (StOk (pset_cookies st (p_cookies st ++ [(getCookieKey v, v)])))
      else other
    else if N.eqb c0 (ch "t") then
      if cic key strTransferEncoding then
        if noHTTP11 then Ok (StOk st)
        else if p_teSeen st then Ok (StErr (if secure_err cfg then EUnsupportedTE else ETooManyTE))
        else if negb (cic v strChunked) then Ok (StErr EUnsupportedTE)
        else Ok (StOk (pset_hh (pset_cl (pset_teSeen st) (-1)%Z (p_clb st)) (setArg (p_hh st) strTransferEncoding strChunked)))
      else if cic key strTrailer then
        do tr <- SetTrailerBytes (disable_norm cfg) v;
        let '(tl, bad) := tr in
        if bad then Ok (StErr EBadTrailer) else Ok (StOk (pset_trailer st tl))
      else other
    else other
  end.

Fixpoint resp_headers_loop (fuel : nat) (cfg : hcfg) (noHTTP11 : bool) (b : bytes) (r : nat) (st : rsst)
  : R (step_res (rsst * nat)) :=
  match fuel with
  | O => OutOfFuel
  | S f =>
      do nx <- scan_next b r;
      match nx with
      | NStop None r1 => Ok (StOk (st, r1))
      | NStop (Some e) _ => Ok (StErr (of_scan_err e))
      | NKV k v inner r1 =>
          do sr <- resp_header_step cfg noHTTP11 st k v inner;
          match sr with
          | StErr e => Ok (StErr e)
          | StOk st' => resp_headers_loop f cfg noHTTP11 b r1 st'
          end
      end
  end.

(* StatusCode(): 0 reads as 200 *)
Definition StatusCode (code : Z) : Z := if Z.eqb code 0 then StatusOK else code.
Definition mustSkipContentLength (code : Z) : bool :=
  let sc := StatusCode code in
  if Z.ltb sc 100 || Z.eqb sc StatusOK then false
  else Z.eqb sc StatusNotModified || Z.eqb sc StatusNoContent || Z.ltb sc 200.
(* ConnectionUpgrade(): h.Peek("Connection") is "close" when connectionClose, else the stored header *)
Definition ConnectionUpgrade (st : rsst) : bool :=
  hasHeaderValue (if p_close st then strClose else peekArgBytes (p_hh st) strConnection) strUpgrade.

Definition resp_finish (noHTTP11 : bool) (code : Z) (st : rsst) : rsst :=
  let st := if Z.ltb (p_cl st) 0 then pset_cl st (p_cl st) [] else st in
  let st := if Z.eqb (p_cl st) (-2) && negb (ConnectionUpgrade st) && negb (mustSkipContentLength code)
            then pset_close st true else st in
  if noHTTP11 && negb (p_close st)
  then pset_close st (negb (hasHeaderValue (peekArgBytes (p_hh st) strConnection) strKeepAlive))
  else st.

Inductive rph_res := RPHNeedMore | RPHErr (e : herr) | RPHOk (st : rsst) (n : nat).

Definition resp_parseHeaders (cfg : hcfg) (noHTTP11 : bool) (code : Z) (buf : bytes) : R rph_res :=
  do ir <- scan_init buf 0;
  match ir with
  | IEmpty => Ok (RPHOk (resp_finish noHTTP11 code rs_init) 2)
  | INeedMore => Ok RPHNeedMore
  | IStartSpace => Ok (RPHErr EStartSpace)
  | IBadBlockEnd => Ok (RPHErr EBadBlockEnd)      (* unreachable: blockEnd = 0 *)
  | IReady b =>
      do lr <- resp_headers_loop (S (length b)) cfg noHTTP11 b 0 rs_init;
      match lr with
      | StErr e => Ok (RPHErr e)
      | StOk (st, r) => Ok (RPHOk (resp_finish noHTTP11 code st) r)
      end
  end.

Record resp_head := {
  status : Z; status_msg : bytes; rproto : bytes; rhttp11 : bool;
  rfields : kvs;                (* h.h in order *)
  rctype : bytes; rcenc : bytes; rserver : bytes;
  rcookies : kvs;               (* (cookie key, whole Set-Cookie value) in order *)
  rcontent_length : Z; rcl_bytes : bytes; rconn_close : bool; rtrailer : list bytes }.

Definition mk_resp_head (l : resp_line) (st : rsst) : resp_head :=
  {| status := sl_code l; status_msg := sl_msg l; rproto := sl_proto l; rhttp11 := negb (sl_noHTTP11 l);
     rfields := p_hh st; rctype := p_ct st; rcenc := p_ce st; rserver := p_server st; rcookies := p_cookies st;
     rcontent_length := p_cl st; rcl_bytes := p_clb st; rconn_close := p_close st; rtrailer := p_trailer st |}.

Definition resp_parse_R (cfg : hcfg) (buf : bytes) : R (hres (resp_head * nat)) :=
  do fl <- resp_parseFirstLine buf;
  match fl with
  | FLNeedMore => Ok HNeedMore
  | FLErr e => Ok (HErr e)
  | FLOk l =>
      let m := sl_len l in
      do rest <- slice buf m (length buf);
      do ph <- resp_parseHeaders cfg (sl_noHTTP11 l) (sl_code l) rest;
      match ph with
      | RPHNeedMore => Ok HNeedMore
      | RPHErr e => Ok (HErr e)
      | RPHOk st n => Ok (HOk (mk_resp_head l st, m + n))
      end
  end.

Definition resp_head_parse (cfg : hcfg) (buf : bytes) : hres (resp_head * nat) :=
  match resp_parse_R cfg buf with
  | Ok r => r
  | Panic => HPanic
  | OutOfFuel => HOutOfFuel
  end.

(* ---------- tryRead / Read ---------- *)
Definition resp_try_read (cfg : hcfg) (n : nat) (b : bytes) (perr : peek_err) : try_res resp_head :=
  match b with
  | [] => if n =? 1 then TEOF
          else match perr with
               | PEEof => TEOF
               | PEBufferFull => TSmallBuffer
               | _ => TIoErr
               end
  | _ => match resp_head_parse cfg b with
         | HOk (hd, k) => TOk hd k
         | HNeedMore => need_more_class b perr
         | HErr e => TErr e
         | HPanic | HOutOfFuel => TBug
         end
  end.

Definition resp_read (cfg : hcfg) (bsize : nat) (input : bytes) (final : peek_err) : try_res resp_head :=
  let b := firstn bsize input in
  match b with
  | [] => resp_try_read cfg 1 [] final
  | _ =>
    match resp_try_read cfg 1 b PENil with
    | TNeedMore =>
        if bsize <? length b + 1 then resp_try_read cfg (length b + 1) b PEBufferFull
        else resp_try_read cfg (length b + 1) b final
    | r => r
    end
  end.

(* ResponseHeader.Read over a source that yields input k bytes at a time (see ReqHead.read_loop) *)
Definition resp_read_chunks (cfg : hcfg) (bsize k : nat) (input : bytes) (final : peek_err) : try_res resp_head :=
  read_loop (resp_try_read cfg) (length input + 2) 1 bsize k [] input final.

(* ResponseHeader.Read over a delivery schedule followed by an idle connection (see ReqHead.read_idle) *)
Definition resp_read_idle (cfg : hcfg) (bsize : nat) (chunks : list bytes) : idle_res resp_head :=
  read_idle (resp_try_read cfg) (length (concat chunks) + 2) bsize [] (nonempty_chunks chunks) 0.
