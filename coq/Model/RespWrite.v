(* RespWrite.v — model of how a server response is built by a handler and put on the wire:
     http.go    Response.SetBody / AppendBody / SetBodyRaw / ResetBody / SetBodyStream (SetBodyStreamWriter) / Reset,
                Response.Write, Response.writeBodyStream, writeBodyFixedSize (copy limited to the declared size, probe
                read), writeBodyChunked (Read loop over the 4096-byte copy buffer, WriteTo shortcut), writeChunk,
                mustSkipBody, CopyTo
     header.go  ResponseHeader.Del / del  (every other header function comes from Model/HeaderWrite.v)
     server.go  RequestCtx.Error, and the part of serveConnCounted around the handler call: what is set on
                ctx.Response before the handler runs, and SkipBody for HEAD / Connection: close / Connection: keep-alive
                for HTTP/1.0 / Server after it returned, then writeResponse; an error from Response.Write closes the
                connection without flushing.
   The connection is reliable here (C03 is about what a handler can make the server write, not about a failing peer:
   that is Model/BodyWrite.v): `w_bytes` is everything Response.Write hands to the bufio.Writer.  When Write succeeds
   all of it reaches the peer; when it fails the peer sees a prefix of it (what bufio flushed on its own) and the
   connection is closed.
   Body streams: `st_pieces` are the non-empty byte slices successive Read calls deliver (a piece longer than the
   buffer it is read into is delivered in several calls), then io.EOF, or a read error when `st_fail`.  The end is either
   reported by a Read of its own (0, io.EOF) / (0, err), or — `st_with`, allowed by the io.Reader contract, e.g.
   iotest.DataErrReader — together with the last bytes: (n > 0, io.EOF) / (n > 0, err); later Reads return (0, same).
   No proofs here (Proof/RespWriteProof.v). *)
From FH Require Import Model.Base Gen.GenC05 Gen.GenC06 Gen.GenC30 Model.Ints Model.ByteClassModel Model.Cookie Model.HeaderWrite.
Open Scope N_scope.

(* ---------- ResponseHeader.Del ---------- *)
Definition RDel (r : resp) (key : bytes) : resp :=
  let k := getHeaderKeyBytes key (hdisableNorm (rh r)) in
  let r1 :=
    if beq k strContentType then with_rh r (with_hct (rh r) [])
    else if beq k strContentEncoding then with_rce r []
    else if beq k strServer then with_rserver r []
    else if beq k strSetCookie then with_rh r (with_hcookies (rh r) [])
    else if beq k strContentLength then with_rh r (with_hclb (with_hcl (rh r) 0%Z) [])
    else if beq k strConnection then with_rh r (with_hclose (rh r) false)
    else if beq k strTrailer then with_rh r (with_htrailer (rh r) [])
    else r in
  with_rh r1 (with_hh (rh r1) (delAllArgsStable (hh (rh r1)) k)).

(* ---------- body streams ---------- *)
Inductive skind :=
| SKReader      (* an io.Reader without WriteTo (this includes the pipe reader of SetBodyStreamWriter) *)
| SKWriterTo    (* *bytes.Reader / *bytes.Buffer: copies itself with one Write (WriteTo) in both body writers *)
| SKGenWriterTo. (* any other io.WriterTo (e.g. *strings.Reader): WriteTo in writeBodyFixedSize, Read loop in writeBodyChunked *)
Record stream := mkStream { st_kind : skind; st_pieces : list bytes; st_fail : bool; st_with : bool }.
Definition st_data (s : stream) : bytes := concat (st_pieces s).

(* ---------- the Response object ---------- *)
Record response := mkR {
  r_hd : resp;                 (* Header *)
  r_body : bytes;              (* body (the ByteBuffer's contents; nil and empty are not distinguished) *)
  r_raw : option bytes;        (* bodyRaw != nil *)
  r_stream : option stream;    (* bodyStream *)
  r_skip : bool                (* SkipBody *)
}.
Definition with_hd R x := mkR x (r_body R) (r_raw R) (r_stream R) (r_skip R).
Definition with_skip R x := mkR (r_hd R) (r_body R) (r_raw R) (r_stream R) x.

Definition bodyBytes (R : response) : bytes := match r_raw R with Some b => b | None => r_body R end.

(* closeBodyStream; bodyBuffer() = { bodyRaw = nil; return body } *)
Definition SetBody (R : response) (b : bytes) : response := mkR (r_hd R) b None None (r_skip R).
(* appendBodyBuffer: a body set with SetBodyRaw is copied into the buffer first *)
Definition AppendBody (R : response) (p : bytes) : response :=
  mkR (r_hd R) ((match r_raw R with Some x => x | None => r_body R end) ++ p) None None (r_skip R).
Definition ResetBody (R : response) : response := mkR (r_hd R) [] None None (r_skip R).
Definition SetBodyRaw (R : response) (b : bytes) : response := mkR (r_hd R) [] (Some b) None (r_skip R).
Definition SetBodyStream (R : response) (s : stream) (size : Z) : response :=
  mkR (RSetContentLength (r_hd R) size) [] None (Some s) (r_skip R).
(* Response.Reset *)
Definition emptyResponse : response := mkR emptyResp [] None None false.
(* RequestCtx.Error(msg, statusCode) *)
Definition CtxError (msg : bytes) (code : Z) : response :=
  mkR (RSetContentTypeBytes (RSetStatusCode emptyResp code) defaultContentType) msg None None false.

Inductive hop :=
| HHdr (o : rop)                       (* any ResponseHeader setter of Model/HeaderWrite.v *)
| HDel (k : bytes)                     (* Header.Del / DelBytes *)
| HSetBody (b : bytes)                 (* SetBody / SetBodyString *)
| HAppendBody (b : bytes)              (* AppendBody / ctx.Write / ctx.WriteString *)
| HSetBodyRaw (b : bytes)              (* SetBodyRaw with a non-nil slice *)
| HResetBody
| HSetBodyStream (size : Z) (s : stream)  (* SetBodyStream(r, size); SetBodyStreamWriter(sw) = size -1, SKReader *)
| HSkipBody (b : bool)                 (* Response.SkipBody = b *)
| HError (msg : bytes) (code : Z)      (* ctx.Error *)
| HReset.                              (* ctx.Response.Reset() (ctx.NotFound = Reset; SetStatusCode(404); SetBodyString) *)

Definition hstep (R : response) (o : hop) : response :=
  match o with
  | HHdr o => with_hd R (rstep (r_hd R) o)
  | HDel k => with_hd R (RDel (r_hd R) k)
  | HSetBody b => SetBody R b
  | HAppendBody b => AppendBody R b
  | HSetBodyRaw b => SetBodyRaw R b
  | HResetBody => ResetBody R
  | HSetBodyStream size s => SetBodyStream R s size
  | HSkipBody b => with_skip R b
  | HError msg code => CtxError msg code
  | HReset => emptyResponse
  end.
Definition hrun (R : response) (prog : list hop) : response := fold_left hstep prog R.

(* ---------- the server around the handler ---------- *)
Record srvcfg := mkCfg {
  c_name : bytes;          (* getServerName(): Server.Name, or "fasthttp", or "" with NoDefaultServerHeader *)
  c_noDate : bool;         (* Server.NoDefaultDate *)
  c_noCT : bool;           (* Server.NoDefaultContentType *)
  c_noNorm : bool;         (* Server.DisableHeaderNamesNormalizing *)
  c_disableKA : bool       (* Server.DisableKeepalive *)
}.
Record reqinfo := mkRq {
  q_head : bool;           (* ctx.IsHead() *)
  q_http11 : bool;         (* ctx.Request.Header.IsHTTP11() *)
  q_close : bool           (* ctx.Request.Header.ConnectionClose(): "Connection: close", or HTTP/1.0 without keep-alive *)
}.

(* ctx.Response when the handler is entered *)
Definition srv_init (c : srvcfg) : response :=
  let h0 := with_rnoDefDate (with_rh emptyResp (with_hnoDefCT (rh emptyResp) (c_noCT c))) (c_noDate c) in
  let h1 := if c_noNorm c then with_rh h0 (with_hdisableNorm (rh h0) true) else h0 in
  let h2 := match c_name c with [] => h1 | n => RSetServerBytes h1 n end in
  mkR h2 [] None None false.

(* after the handler returned: (response to write, connectionClose) *)
Definition srv_finish (c : srvcfg) (q : reqinfo) (R : response) : response * bool :=
  let R1 := if q_head q then with_skip R true else R in
  (* a skipped body on a response that is not to a HEAD request: the peer cannot find the end of the message *)
  let skipped := negb (q_head q) && r_skip R && negb (mustSkipContentLength (r_hd R)) in
  let cc := q_close q || c_disableKA c || skipped || hclose (rh (r_hd R1)) in
  let hd := r_hd R1 in
  let hd := if cc then RSetConnectionClose hd
            else if negb (q_http11 q) then with_rh hd (hsetNonSpecial (rh hd) strConnection strKeepAlive)
            else hd in
  let hd := match c_name c with
            | [] => hd
            | n => match rserver hd with [] => RSetServerBytes hd n | _ => hd end
            end in
  (with_hd R1 hd, cc).

(* ---------- body writers ---------- *)
Definition copyBufSize : nat := 4096.       (* copyBufPool *)
(* how a piece arrives through Read calls into a 4096-byte buffer *)
Fixpoint split_buf (fuel : nat) (p : bytes) : list bytes :=
  match fuel with
  | O => [p]
  | S f => if (length p <=? copyBufSize)%nat then [p]
           else firstn copyBufSize p :: split_buf f (skipn copyBufSize p)
  end.
(* the non-empty results of the Read calls of writeBodyChunked's loop (a Read returning (0, nil) is skipped there) *)
Definition nonempty (c : bytes) : bool := match c with [] => false | _ => true end.
Definition reads_of (s : stream) : list bytes :=
  filter nonempty
    match st_kind s with
    | SKGenWriterTo => let d := st_data s in split_buf (length d) d   (* one contiguous string *)
    | _ => flat_map (fun p => split_buf (length p) p) (st_pieces s)
    end.

Definition hex_of (n : Z) : bytes := match writeHexInt maxHexIntChars64 n with Some d => d | None => [] end.
Definition blen (b : bytes) : Z := Z.of_nat (length b).
(* writeChunk for a non-empty / the empty slice *)
Definition enc_chunk (c : bytes) : bytes := hex_of (blen c) ++ strCRLF ++ c ++ strCRLF.
Definition enc_last : bytes := hex_of 0 ++ strCRLF.

Inductive wres := WrOk | WrErr.
Definition wres_eqb (a b : wres) : bool := match a, b with WrOk, WrOk | WrErr, WrErr => true | _, _ => false end.

(* writeBodyChunked: (bytes, completed) — the trailer is written by the caller when completed *)
Definition chunked_body (s : stream) : bytes * wres :=
  match st_kind s with
  | SKWriterTo =>
      (match st_data s with [] => [] | d => enc_chunk d end ++ enc_last, WrOk)
  | SKReader =>
      let cs := concat (map enc_chunk (reads_of s)) in
      (* n > 0: the chunk is written whatever err is; the end is acted upon by the next Read, which returns (0, err) *)
      if st_fail s then (cs, WrErr) else (cs ++ enc_last, WrOk)
  | SKGenWriterTo => (concat (map enc_chunk (reads_of s)) ++ enc_last, WrOk)
  end.

(* writeBodyFixedSize *)
Definition fixed_body (s : stream) (size : Z) : bytes * wres :=
  let d := st_data s in
  match st_kind s with
  | SKWriterTo | SKGenWriterTo => (d, if (blen d =? size)%Z then WrOk else WrErr)
  | SKReader =>
      (* io.LimitReader(r, size), then one probing Read *)
      let b := firstn (Z.to_nat size) d in
      if (blen d <? size)%Z then (b, WrErr)                  (* copied fewer bytes, or the read error *)
      else if (blen d =? size)%Z then
        (* a read error that arrives with the last declared byte is returned by bufio.Writer.ReadFrom through
           io.LimitedReader: Write fails although every byte was copied; io.EOF arriving with it just ends the copy.
           Otherwise the limit ends the copy and the probe meets io.EOF or the read error: m = 0 *)
        if st_fail s && st_with s && nonempty d then (b, WrErr) else (b, WrOk)
      else (b, WrErr)                                        (* body stream yields more than size bytes *)
  end.

Section Write.
  Variable smsg : bytes.          (* StatusMessage(status code of the response being written) *)
  Variable date : bytes.          (* *serverDate.Load() *)
  Definition head_of (r : resp) : bytes := RespAppendBytes (fun _ => smsg) date r.

  Definition sendBody (R : response) : bool := negb (r_skip R || mustSkipContentLength (r_hd R)).

  (* Response.Write *)
  Definition respWrite (R : response) : bytes * wres :=
    let hd := r_hd R in
    match r_stream R with
    | Some s =>
        let cl := hcl (rh hd) in
        if (cl >=? 0)%Z then
          if sendBody R then let '(b, res) := fixed_body s cl in (head_of hd ++ b, res)
          else (head_of hd, WrOk)
        else
          let hd' := RSetContentLength hd (-1) in
          if sendBody R then
            let '(b, res) := chunked_body s in
            (head_of hd' ++ b ++ match res with WrOk => RespTrailerHeader hd' | WrErr => [] end, res)
          else (head_of hd', WrOk)
    | None =>
        let body := bodyBytes R in
        let hd' := if sendBody R || negb (beq body []) then RSetContentLength hd (blen body) else hd in
        (head_of hd' ++ (if sendBody R then body else []), WrOk)
    end.

  (* one request through the serve loop: bytes handed to the connection's writer, did Write succeed, is the
     connection closed afterwards *)
  Definition serve_one (c : srvcfg) (q : reqinfo) (prog : list hop) : bytes * wres * bool :=
    let '(R, cc) := srv_finish c q (hrun (srv_init c) prog) in
    let '(b, res) := respWrite R in
    (b, res, cc || negb (wres_eqb res WrOk)).
End Write.

(* final status code of a handler program, the one StatusMessage is asked about *)
Definition final_status (c : srvcfg) (prog : list hop) : Z := RStatusCode (r_hd (hrun (srv_init c) prog)).

(* a connection: requests served in order until one closes it.  Each element carries its own StatusMessage text.
   Result: bytes of the completely written responses, the bytes of a final failed Write (the peer sees a prefix),
   and whether the server closed the connection. *)
Fixpoint serve_conn (date : bytes) (c : srvcfg) (reqs : list (reqinfo * list hop * bytes)) : bytes * bytes * bool :=
  match reqs with
  | [] => ([], [], false)
  | (q, prog, smsg) :: rest =>
      match serve_one smsg date c q prog with
      | (b, WrErr, _) => ([], b, true)
      | (b, WrOk, true) => (b, [], true)
      | (b, WrOk, false) => let '(bs, part, cl) := serve_conn date c rest in (b ++ bs, part, cl)
      end
  end.
