(* Model of the retry loop of HostClient.Do (client.go) as a fold over a sequence of per-attempt faults,
   with transport.RoundTrip's (retry, err) result per fault kind, isIdempotent, the RetryIf / RetryIfErr /
   RetryIfErrUpstream callbacks as oracles (tables indexed by the attempt number) and a logical clock. *)
From FH Require Import Model.Base Gen.GenC19.
Open Scope Z_scope.

(* what goes wrong in one call of transport.RoundTrip *)
Inductive fault :=
| FNone                      (* request written, response read *)
| FAcquire                   (* hc.AcquireConn fails (dial error, ErrNoFreeConns) *)
| FSetWDeadline              (* conn.SetWriteDeadline fails *)
| FWrite (partial : bool)    (* req.Write / Flush fails; partial: some request bytes reached the peer *)
| FWriteTimeout              (* the write blocks until the write deadline; no byte accepted *)
| FSetRDeadline              (* conn.SetReadDeadline fails (request fully written) *)
| FRead (eof : bool)         (* reading the response fails: io.EOF before the first byte | malformed response *)
| FReadTimeout               (* no response until the read deadline *)
| FTooLarge.                 (* response body larger than MaxResponseBodySize *)

Inductive errc := ENone | EOther | EEOF | ETimeout | ETooLarge | EConnClosed.

Definition errc_eqb (a b : errc) : bool :=
  match a, b with
  | ENone, ENone | EOther, EOther | EEOF, EEOF | ETimeout, ETimeout | ETooLarge, ETooLarge | EConnClosed, EConnClosed => true
  | _, _ => false
  end.

Record cfg := {
  max_attempts : Z;                              (* HostClient.MaxIdemponentCallAttempts *)
  body_stream : bool;                            (* req.IsBodyStream() *)
  meth : bytes;                                  (* request method as set by the caller *)
  timeout : Z;                                   (* req.timeout in ms, 0 = not set *)
  rwtimeout : Z;                                 (* HostClient.ReadTimeout = WriteTimeout in ms, 0 = not set *)
  retry_if : option bool;                        (* RetryIf: constant answer for this request *)
  retry_if_err : option (list (bool * bool));    (* RetryIfErr: (resetTimeout, retry) for attempts = 1, 2, ... (then (false,false)) *)
  retry_if_err_up : option (list (bool * bool))  (* RetryIfErrUpstream, same *)
}.

(* RequestHeader.Method(): empty means GET *)
Definition method_of (m : bytes) : bytes := match m with [] => MethodGet | _ => m end.

(* isIdempotent is `req.Header.IsGet() || req.Header.IsHead() || req.Header.IsPut()` — an || chain, not a switch,
   so the translator's caseset kind does not apply: the three names are hard-coded here, their spellings
   (MethodGet/MethodHead/MethodPut) are regenerated from methods.go. *)
Definition is_idempotent (m : bytes) : bool :=
  beq (method_of m) MethodGet || beq (method_of m) MethodHead || beq (method_of m) MethodPut.
Definition is_head (m : bytes) : bool := beq (method_of m) MethodHead.

(* transport.RoundTrip: (retry, err, some request bytes reached the peer) *)
Definition roundtrip (head : bool) (f : fault) : bool * errc * bool :=
  match f with
  | FNone => (false, ENone, true)
  | FAcquire => (false, EOther, false)
  | FSetWDeadline => (true, EOther, false)
  | FWrite p => (true, EOther, p)
  | FWriteTimeout => (true, ETimeout, false)
  | FSetRDeadline => (true, EOther, true)
  | FRead eof => (true, if eof then EEOF else EOther, true)
  | FReadTimeout => (true, ETimeout, true)
  | FTooLarge => if head then (false, ENone, true)       (* resp.SkipBody: the body is never read *)
                 else (false, ETooLarge, true)           (* needRetry := err != ErrBodyTooLarge *)
  end.

(* time one attempt takes: timeout faults last until the conn deadline, everything else is instantaneous *)
Definition attempt_dur (c : cfg) (f : fault) (rem : Z) : Z :=
  match f with
  | FWriteTimeout | FReadTimeout =>
      if timeout c >? 0 then (if (rwtimeout c >? 0) && (rwtimeout c <? rem) then rwtimeout c else rem)
      else rwtimeout c
  | _ => 0
  end.

Definition eff_attempts (c : cfg) : Z :=
  if max_attempts c <=? 0 then DefaultMaxIdemponentCallAttempts else max_attempts c.

Definition tbl_at (t : list (bool * bool)) (attempts : Z) : bool * bool :=
  nth (Z.to_nat (attempts - 1)) t (false, false).

(* the switch after `attempts++`: (resetTimeout, retry, a callback was called) *)
Definition ask_callback (c : cfg) (attempts : Z) : bool * bool * bool :=
  match retry_if_err_up c with
  | Some t => (tbl_at t attempts, true)
  | None =>
      match retry_if_err c with
      | Some t => (tbl_at t attempts, true)
      | None =>
          match retry_if c with
          | Some b => ((false, b), true)
          | None => ((false, is_idempotent (meth c)), false)
          end
      end
  end.

Record res := { calls : Z;               (* calls of c.do = of RoundTrip *)
                sent : Z;                (* attempts in which request bytes reached a peer *)
                err : errc;
                cbcalls : Z;             (* callback invocations *)
                starts : list (Z * Z) }. (* per attempt: (time it started, deadline in force) *)

Record lst := { now : Z; deadline : Z; attempts : Z; r : res }.

Definition bump (x : res) (s : bool) (e : errc) (t dl : Z) : res :=
  {| calls := calls x + 1; sent := sent x + (if s then 1 else 0); err := e; cbcalls := cbcalls x; starts := starts x ++ [(t, dl)] |}.
Definition with_err (x : res) (e : errc) : res :=
  {| calls := calls x; sent := sent x; err := e; cbcalls := cbcalls x; starts := starts x |}.
Definition with_cb (x : res) (called : bool) : res :=
  {| calls := calls x; sent := sent x; err := err x; cbcalls := cbcalls x + (if called then 1 else 0); starts := starts x |}.

(* one iteration of the `for` loop: inl = break with this result, inr = next iteration *)
Definition iteration (c : cfg) (f : fault) (s : lst) : res + lst :=
  if (timeout c >? 0) && (deadline s - now s <=? 0) then inl (with_err (r s) ETimeout)       (* req.timeout <= 0 *)
  else
    match roundtrip (is_head (meth c)) f with
    | (retry, e, snt) =>
        let now' := now s + attempt_dur c f (deadline s - now s) in
        let r1 := bump (r s) snt e (now s) (deadline s) in
        if errc_eqb e ENone || negb retry then inl r1
        else if body_stream c then inl r1
        else
          let attempts' := attempts s + 1 in
          if attempts' >=? eff_attempts c then inl r1
          else
            match ask_callback c attempts' with
            | ((reset, retry2), called) =>
                let r2 := with_cb r1 called in
                if negb retry2 then inl r2
                else inr {| now := now';
                            deadline := if (timeout c >? 0) && reset then now' + timeout c else deadline s;
                            attempts := attempts'; r := r2 |}
            end
    end.

(* the loop; when the fault list is exhausted the next attempt succeeds *)
Fixpoint loop (c : cfg) (fs : list fault) (s : lst) : res :=
  match fs with
  | [] => match iteration c FNone s with inl x => x | inr s' => r s' end
  | f :: rest => match iteration c f s with inl x => x | inr s' => loop c rest s' end
  end.

Definition start (c : cfg) : lst :=
  {| now := 0; deadline := timeout c; attempts := 0;
     r := {| calls := 0; sent := 0; err := ENone; cbcalls := 0; starts := [] |} |}.

(* HostClient.Do: `if err == io.EOF { err = ErrConnectionClosed }` *)
Definition Do (c : cfg) (fs : list fault) : res :=
  let x := loop c fs (start c) in
  match err x with EEOF => with_err x EConnClosed | _ => x end.
