(* Scheme.v — model of how fasthttp's clients choose the connection a request is written to (property C21).

   Modelled code (client.go / uri.go / lbclient.go), function by function:
     URI.isHTTPS / URI.isHTTP            -> isHTTPS / isHTTP           (byte comparison with strHTTPS / strHTTP from Gen)
     AddMissingPort                      -> AddMissingPort
     Client.Do                           -> client_do                  (',' check, scheme -> isTLS, unsupported scheme)
     Client.hostClient                   -> inside client_do           (maps m / ms keyed by the URI host, Addr = AddMissingPort host isTLS,
                                            then Client.ConfigureClient(hc), which may rewrite Addr / IsTLS / WriteTimeout or fail)
     HostClient.Do  (retry loop)         -> hc_attempts
     HostClient.doNonNilReqResp          -> hc_once                    (scheme check c.IsTLS != req.URI().isHTTPS())
     transport.RoundTrip + AcquireConn + dialHostHard + ReleaseConn/CloseConn -> hc_once
                                            (pool non-empty: take conns[0] (FIFO, the default); else dial Addr through dialAddr)
     dialAddr / tlsClientHandshake       -> dialAddr / tlsClientHandshake   (isTLS: lazy tls.Client when WriteTimeout == 0, explicit
                                            handshake helper otherwise; both hand back the TLS wrapper, never the raw connection)
     doRequestFollowRedirects            -> follow                     (re-enters the same doer with the next hop)
     LBClient.DoDeadline                 -> CLB: passes the request to one of its HostClients unchanged

   A history is a list of calls executed one after the other on one world (one Client, some stand-alone HostClients, an LBClient
   over them).  What the server does is an input: per attempt a [reply].  Observable: the list of events. *)
From FH Require Import Model.Base Gen.GenC21.
Open Scope N_scope.

(* ---- schemes --------------------------------------------------------------------------- *)
(* uri.go: func (u *URI) isHTTPS() bool { return bytes.Equal(u.scheme, strHTTPS) } *)
Definition isHTTPS (scheme : bytes) : bool := beq scheme strHTTPS.
(* uri.go: func (u *URI) isHTTP() bool { return len(u.scheme) == 0 || bytes.Equal(u.scheme, strHTTP) } *)
Definition isHTTP (scheme : bytes) : bool :=
  match scheme with [] => true | _ => beq scheme strHTTP end.

(* ---- AddMissingPort -------------------------------------------------------------------- *)
(* strings.LastIndexByte: -1 when absent *)
Fixpoint last_index_from (i : Z) (b : N) (s : bytes) (acc : Z) : Z :=
  match s with
  | [] => acc
  | x :: r => last_index_from (i + 1)%Z b r (if x =? b then i else acc)
  end.
Definition last_index_byte (b : N) (s : bytes) : Z := last_index_from 0%Z b s (-1)%Z.

Definition port80 : bytes := s2b ":80".
Definition port443 : bytes := s2b ":443".
Definition default_port (isTLS : bool) : bytes := if isTLS then port443 else port80.

Definition AddMissingPort (addr : bytes) (isTLS : bool) : bytes :=
  match addr with
  | [] => addr                                               (* addrLen == 0 *)
  | c0 :: _ =>
      if c0 =? LBR then                                      (* isIP6 := addr[0] == '[' *)
        if last addr 0 =? RBR then addr ++ default_port isTLS (* isIP6WithoutPort *)
        else addr
      else if (last_index_byte COLON addr >? 0)%Z then addr  (* columnPos > 0 *)
      else addr ++ default_port isTLS
  end.

(* ---- data ------------------------------------------------------------------------------ *)
Inductive via := ViaClient | ViaHost | ViaLB.

Record req := { r_id : N; r_scheme : bytes; r_host : bytes; r_via : via }.

(* what dialAddr hands back to the HostClient (and what is then pooled and written to) *)
Inductive connkind :=
| KRaw              (* the connection returned by the dialer, as it is *)
| KTLSLazy          (* tls.Client(conn, cfg): handshake at the first write *)
| KTLSHandshaked.   (* the tls.Conn on which tlsClientHandshake completed the handshake *)

Definition kind_tls (k : connkind) : bool := match k with KRaw => false | _ => true end.

(* client.go tlsClientHandshake: conn := tls.Client(rawConn, tlsConfig); conn.SetDeadline; conn.Handshake(); ...; return conn, nil
   — the wrapper, not rawConn (handshake errors are dial errors: not modelled) *)
Definition tlsClientHandshake : connkind := KTLSHandshaked.

(* client.go dialAddr, for a dialer that returns plain connections (isTLSAlready = false):
     if isTLS && !isTLSAlready { if writeTimeout == 0 { return tls.Client(conn, tlsConfig) }; return tlsClientHandshake(conn, ...) }
     return conn
   [wt] = (writeTimeout != 0) *)
Definition dialAddr (isTLS wt : bool) : connkind :=
  if isTLS then (if wt then tlsClientHandshake else KTLSLazy) else KRaw.

Record conn := { c_id : N; c_addr : bytes; c_kind : connkind }.
Definition c_tls (c : conn) : bool := kind_tls (c_kind c).

(* HostClient: Addr, IsTLS, WriteTimeout != 0, idle connections c.conns *)
Record hostclient := { hc_addr : bytes; hc_tls : bool; hc_wt : bool; hc_pool : list conn }.

Inductive err := EInvalidHost | EUnsupportedScheme | ESchemeMismatch | EConn | ETooManyRedirects | ENoClient | EOutOfFuel | EConfigure.

Inductive event :=
| EDial (cid : N) (addr : bytes) (k : connkind)  (* dialAddr: conn to addr, of kind k *)
| EWrite (cid : N) (r : req)                     (* req.Write + Flush on connection cid *)
| ERefuse (r : req) (e : err).                   (* request rejected before any connection was chosen *)

(* what the server does with one written request *)
Inductive reply :=
| RKeep     (* answers, connection stays open -> ReleaseConn *)
| RClose    (* answers with Connection: close -> CloseConn *)
| RFail.    (* closes without answering -> read error, CloseConn, retry=true *)

Inductive outcome := OOk | OErr (e : err).

(* ---- HostClient ------------------------------------------------------------------------ *)
(* doNonNilReqResp followed by transport.RoundTrip, one attempt.
   result: (host client after, next conn id, events, outcome, retry flag) *)
Definition hc_once (hc : hostclient) (r : req) (rep : reply) (next : N)
  : hostclient * N * list event * outcome * bool :=
  if negb (Bool.eqb (hc_tls hc) (isHTTPS (r_scheme r))) then            (* c.IsTLS != req.URI().isHTTPS() *)
    (hc, next, [ERefuse r ESchemeMismatch], OErr ESchemeMismatch, false)
  else
    (* AcquireConn *)
    let '(c, pool1, next1, evd) :=
      match hc_pool hc with
      | c :: rest => (c, rest, next, [])                                 (* FIFO: conns[0] *)
      | [] => let k := dialAddr (hc_tls hc) (hc_wt hc) in               (* dialHostHard -> dialAddr(addr, ..., c.IsTLS, ..., c.WriteTimeout) *)
              let c := {| c_id := next; c_addr := hc_addr hc; c_kind := k |} in
              (c, [], next + 1, [EDial next (hc_addr hc) k])
      end in
    let evs := evd ++ [EWrite (c_id c) r] in
    match rep with
    | RKeep  => ({| hc_addr := hc_addr hc; hc_tls := hc_tls hc; hc_wt := hc_wt hc; hc_pool := pool1 ++ [c] |}, next1, evs, OOk, false)
    | RClose => ({| hc_addr := hc_addr hc; hc_tls := hc_tls hc; hc_wt := hc_wt hc; hc_pool := pool1 |}, next1, evs, OOk, false)
    | RFail  => ({| hc_addr := hc_addr hc; hc_tls := hc_tls hc; hc_wt := hc_wt hc; hc_pool := pool1 |}, next1, evs, OErr EConn, true)
    end.

Definition maxAttempts : nat := Z.to_nat DefaultMaxIdemponentCallAttempts.

(* HostClient.Do: the retry loop (requests of the model are GETs: isIdempotent) *)
Fixpoint hc_attempts (fuel : nat) (hc : hostclient) (r : req) (reps : list reply) (next : N)
  : hostclient * N * list event * outcome :=
  match fuel with
  | O => (hc, next, [], OErr EOutOfFuel)
  | S f =>
      let rep := match reps with [] => RKeep | x :: _ => x end in
      let '(hc1, next1, evs, out, retry) := hc_once hc r rep next in
      match out with
      | OOk => (hc1, next1, evs, OOk)
      | OErr e =>
          if negb retry then (hc1, next1, evs, out)
          else match f with
               | O => (hc1, next1, evs, out)               (* attempts >= maxAttempts *)
               | S _ => let '(hc2, next2, evs2, out2) := hc_attempts f hc1 r (tl reps) next1 in
                        (hc2, next2, evs ++ evs2, out2)
               end
      end
  end.

Definition hc_do (hc : hostclient) (r : req) (reps : list reply) (next : N) :=
  hc_attempts maxAttempts hc r reps next.

(* ---- Client ---------------------------------------------------------------------------- *)
Definition hmap := list (bytes * hostclient).

Fixpoint lookup (k : bytes) (m : hmap) : option hostclient :=
  match m with
  | [] => None
  | (k', v) :: r => if beq k k' then Some v else lookup k r
  end.

Fixpoint upd (k : bytes) (v : hostclient) (m : hmap) : hmap :=
  match m with
  | [] => [(k, v)]
  | (k', v') :: r => if beq k k' then (k', v) :: r else (k', v') :: upd k v r
  end.

(* w_cwt: Client.WriteTimeout != 0 (copied into every HostClient the Client creates);
   w_conf: Client.ConfigureClient, applied to every freshly built HostClient before it is stored (None = it returned an error);
           identity when the field is nil *)
Record world := { w_cwt : bool; w_conf : hostclient -> option hostclient;
                  w_m : hmap; w_ms : hmap; w_hcs : list hostclient; w_next : N }.

(* the HostClient Client.hostClient builds for (host, isTLS) before ConfigureClient sees it *)
Definition dflt (host : bytes) (isTLS cwt : bool) : hostclient :=
  {| hc_addr := AddMissingPort host isTLS; hc_tls := isTLS; hc_wt := cwt; hc_pool := [] |}.

Definition contains (b : N) (s : bytes) : bool := existsb (N.eqb b) s.

(* Client.Do + Client.hostClient + HostClient.Do *)
Definition client_do (w : world) (r : req) (reps : list reply) : world * list event * outcome :=
  if contains COMMA (r_host r) then (w, [ERefuse r EInvalidHost], OErr EInvalidHost)
  else
    let isTLS := isHTTPS (r_scheme r) in
    if negb isTLS && negb (isHTTP (r_scheme r)) then (w, [ERefuse r EUnsupportedScheme], OErr EUnsupportedScheme)
    else
      let m := if isTLS then w_ms w else w_m w in
      let found := match lookup (r_host r) m with
                   | Some hc => Some hc
                   | None => match w_conf w (dflt (r_host r) isTLS (w_cwt w)) with       (* c.ConfigureClient(hc) *)
                             | Some hx => Some {| hc_addr := hc_addr hx; hc_tls := hc_tls hx; hc_wt := hc_wt hx; hc_pool := [] |}
                             | None => None
                             end
                   end in
      match found with
      | None => (w, [ERefuse r EConfigure], OErr EConfigure)                            (* return nil, err: nothing stored *)
      | Some hc =>
          let '(hc1, next1, evs, out) := hc_do hc r reps (w_next w) in
          let m1 := upd (r_host r) hc1 m in
          ({| w_cwt := w_cwt w; w_conf := w_conf w; w_m := if isTLS then w_m w else m1; w_ms := if isTLS then m1 else w_ms w;
              w_hcs := w_hcs w; w_next := next1 |}, evs, out)
      end.

(* stand-alone HostClient number i *)
Fixpoint set_nth {A} (i : nat) (x : A) (l : list A) : list A :=
  match l, i with
  | [], _ => []
  | _ :: r, O => x :: r
  | y :: r, S j => y :: set_nth j x r
  end.

Definition host_do (i : nat) (w : world) (r : req) (reps : list reply) : world * list event * outcome :=
  match nth_error (w_hcs w) i with
  | None => (w, [ERefuse r ENoClient], OErr ENoClient)
  | Some hc =>
      let '(hc1, next1, evs, out) := hc_do hc r reps (w_next w) in
      ({| w_cwt := w_cwt w; w_conf := w_conf w; w_m := w_m w; w_ms := w_ms w; w_hcs := set_nth i hc1 (w_hcs w); w_next := next1 |}, evs, out)
  end.

(* ---- redirects ------------------------------------------------------------------------- *)
(* one hop of a redirect chain: the request and the server's replies to its attempts.
   All hops but the last are answered with a redirect to the next hop. *)
Definition hop := (req * list reply)%type.

Definition doer := world -> req -> list reply -> world * list event * outcome.

(* doRequestFollowRedirects *)
Fixpoint follow (d : doer) (w : world) (hops : list hop) (count maxred : Z) : world * list event * outcome :=
  match hops with
  | [] => (w, [], OOk)
  | (r, reps) :: rest =>
      let '(w1, evs, out) := d w r reps in
      match out with
      | OErr _ => (w1, evs, out)                                  (* err = c.Do(req, resp); break *)
      | OOk =>
          match rest with
          | [] => (w1, evs, OOk)                                  (* not a redirect status *)
          | _ => let count1 := (count + 1)%Z in
                 if (count1 >? maxred)%Z then (w1, evs, OErr ETooManyRedirects)
                 else let '(w2, evs2, out2) := follow d w1 rest count1 maxred in
                      (w2, evs ++ evs2, out2)
          end
      end
  end.

(* ---- histories ------------------------------------------------------------------------- *)
Inductive call :=
| CClient (maxred : Z) (hops : list hop)            (* Client.Do / DoTimeout / DoDeadline (one hop) / DoRedirects / Get *)
| CHost (i : nat) (maxred : Z) (hops : list hop)    (* HostClient i: Do / DoRedirects *)
| CLB (i : nat) (h : hop).                          (* LBClient.Do, the balancer having chosen client i *)

Definition run_call (w : world) (c : call) : world * list event * outcome :=
  match c with
  | CClient maxred hops => follow client_do w hops 0%Z maxred
  | CHost i maxred hops => follow (host_do i) w hops 0%Z maxred
  | CLB i (r, reps) => host_do i w r reps
  end.

Fixpoint run (w : world) (cs : list call) : world * list event * list outcome :=
  match cs with
  | [] => (w, [], [])
  | c :: rest =>
      let '(w1, evs, out) := run_call w c in
      let '(w2, evs2, outs) := run w1 rest in
      (w2, evs ++ evs2, out :: outs)
  end.

(* fresh world: empty Client with WriteTimeout != 0 iff cwt, the given stand-alone HostClients (Addr, IsTLS, WriteTimeout != 0) *)
Definition hcfg := (bytes * bool * bool)%type.
Definition mk_hc (p : hcfg) : hostclient :=
  {| hc_addr := fst (fst p); hc_tls := snd (fst p); hc_wt := snd p; hc_pool := [] |}.
Definition conf_id (hc : hostclient) : option hostclient := Some hc.       (* ConfigureClient == nil *)
Definition init_conf (cwt : bool) (conf : hostclient -> option hostclient) (hcs : list hcfg) : world :=
  {| w_cwt := cwt; w_conf := conf; w_m := []; w_ms := []; w_hcs := map mk_hc hcs; w_next := 0 |}.
Definition init (cwt : bool) (hcs : list hcfg) : world := init_conf cwt conf_id hcs.

Definition trace_conf (cwt : bool) (conf : hostclient -> option hostclient) (hcs : list hcfg) (cs : list call) : list event :=
  snd (fst (run (init_conf cwt conf hcs) cs)).
Definition trace (cwt : bool) (hcs : list hcfg) (cs : list call) : list event := trace_conf cwt conf_id hcs cs.
Definition outcomes (cwt : bool) (hcs : list hcfg) (cs : list call) : list outcome :=
  snd (run (init cwt hcs) cs).
