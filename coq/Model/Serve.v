(* Serve.v — model of ONE connection's serve loop: server.go serveConnCounted, with its callers
   (Server.Serve + workerPool.workerFunc, Server.ServeConn) where they report connection states and
   close the connection, and hijackConnHandler.  Owner: C10 / C14 / C17; shared with the other
   serve-loop properties.  Models /repo as of 8ad8bae (server.go as of ce44e94).

   INTERFACE FOR IMPORTERS
     scfg                   the Server fields the loop reads (ReduceMemoryUsage, StreamRequestBody, DisableKeepalive,
                            CloseOnShutdown, KeepHijackedConns, MaxRequestsPerConn, which Expect handler is set)
     reader                 the client's byte stream as the server will see it: bytes already in the
                            bufio.Reader (buf), the chunks the following conn.Read calls return, and what
                            happens after the last chunk (Eof: the client closed; Open: nothing more arrives
                            and the read deadline fires)
     framer / framer_ok     THE REQUEST READER IS A PARAMETER: fhead (head parse of what is buffered: FhOk summary
                            hn | FhMore | FhErr class), fbody (body framing behind the head: FbOk bn | FbMore | FbErr),
                            head_end / body_end (what the reader reports when the source ends mid-message).
                            framer_ok = the two laws the proofs need (0 < hn <= buffered, bn <= buffered).
                            Model/ServeInst.v plugs in Model/ReqHead.v + Model/Body.v (inst_framer, inst_framer_ok
                            in Proof/ServeInstProof.v).
     req_sum                what the loop reads from a parsed head (IsHead, IsHTTP11, ConnectionClose, MayContinue,
                            ContentLength, target)
     env                    the oracles: handler : request number -> req_sum -> list hop; ExpectHandler status /
                            ContinueHandler answer; what s.stop reads at the two places the loop reads it
     hop                    handler operations SetStatus | SetConnClose | SetHdrConn v | HijackOp | HijackNoResp b |
                            TimeoutOp | OtherOp (extensible: add constructors + cases in apply_hop)
     event                  St state | ParseAt off avail | Dispatch num q | Resp r (written into bw) | Flush |
                            Drop (writer released unflushed) | Close | HijackEv src buffered later_reads |
                            HijackClose | OutOfFuel;   resp = kind, status, Connection values
     req_hstate / close_decision / final_rhdr / resp_of
                            the handler's effect, the connectionClose computation, the written Connection state
     first_byte, serve_req, after_head, finish_request, serve_iter
                            one iteration of the `for` loop in the order of the Go code
     serve_loop             the loop (fuel = iterations; OutOfFuel is a distinct result)
     serve_conn             entry (ViaServe | ViaServeConn) x admission (Admit | RejectPerIP | RejectConcurrency | Delegated)
                            + loop + what the caller does afterwards; fuel = S (stream length), proved
                            sufficient (Proof/ServeProof.v serve_conn_fuel_ok)
     hijack_in / hijack_late / ctx_released
                            what the user of a hijacked connection reads inside / after the hijack handler
   Proof/ServeProof.v offers: iter_decomp (normal form of one iteration), iter_next / sinv / linv (stream
   invariant: buffered ++ future reads = suffix of the stream at l_off), and Section TracePred — a generic
   induction for trace predicates (give: insensitivity to the iteration prelude, the error-response case, the
   finish_request case) used for conn_ok / reasons_ok / http10_ok.
   Check/ServeCheck.v offers: mk_scfg, mk_env, run (the concrete framer), wire, dispatched, hijack_of.

   What is NOT modelled (stated in props "assumptions"): write errors and SetDeadline errors (every `break`
   on such an error), NextProto/TLS, HeaderReceived, ErrorHandler, a request-body stream the handler leaves
   unread or detaches (StreamRequestBody: the loop is modelled as if the handler read the stream to its end,
   except for the timed-out handler, which closes), bufio buffer size (ErrSmallBuffer is an error class the
   framer may return), `connectionClose` being declared outside the loop (every path that sets it leaves the loop).

   No proofs here (Proof/ServeProof.v). *)
From FH Require Import Model.Base Gen.GenC10 Model.ConnOpt.
Open Scope nat_scope.

(* ---------- configuration and environment ---------- *)
Inductive conn_state := StNew | StActive | StIdle | StHijacked | StClosed.
Inductive tail := Eof | Open.
Record reader := { buf : bytes; chunks : list bytes; tl : tail }.
Definition remaining (r : reader) : bytes := buf r ++ concat (chunks r).

Inductive expect_mode := XNone | XExpectHandler | XContinueHandler.

Record scfg := {
  reduce_mem : bool;            (* ReduceMemoryUsage *)
  stream_body : bool;           (* StreamRequestBody *)
  disable_keepalive : bool;     (* DisableKeepalive *)
  close_on_shutdown : bool;     (* CloseOnShutdown *)
  keep_hijacked : bool;         (* KeepHijackedConns *)
  max_reqs : N;                 (* MaxRequestsPerConn; 0 = unlimited *)
  xmode : expect_mode           (* which of ExpectHandler / ContinueHandler is set (ExpectHandler wins) *)
}.

(* error classes, as far as defaultErrorHandler tells them apart *)
Inductive eclass := EcSmallBuf | EcTimeout | EcOther.
Definition status_of_eclass (e : eclass) : Z :=
  match e with
  | EcSmallBuf => StatusRequestHeaderFieldsTooLarge
  | EcTimeout => StatusRequestTimeout
  | EcOther => StatusBadRequest
  end.

(* what the loop reads from a parsed request head *)
Record req_sum := {
  q_head : bool;                (* ctx.IsHead() *)
  q_http11 : bool;              (* Header.IsHTTP11() *)
  q_close : bool;               (* Header.ConnectionClose() after parsing *)
  q_expect : bool;              (* Request.MayContinue() *)
  q_cl : Z;                     (* Header.ContentLength(): -2 none, -1 chunked, n *)
  q_tag : bytes                 (* request target: lets the handler oracle tell requests apart *)
}.

Inductive fh_res := FhOk (q : req_sum) (hn : nat) | FhMore | FhErr (e : eclass).
Inductive fb_res := FbOk (bn : nat) | FbMore | FbErr (e : eclass).

Record framer := {
  (* RequestHeader.tryRead's parse of everything buffered so far (+ parseURI):
     FhOk q hn: accepted, hn bytes are discarded; FhMore: ErrNeedMore; FhErr: rejected *)
  fhead : bytes -> fh_res;
  (* readLimitBody / ContinueReadBody on the bytes buffered behind the head *)
  fbody : req_sum -> bytes -> fb_res;
  (* the source is exhausted while the head / body is incomplete:
     None = the reader reports io.EOF (silent close); Some e = an error of class e *)
  head_end : bytes -> tail -> option eclass;
  body_end : req_sum -> bytes -> tail -> option eclass
}.

Definition framer_ok (F : framer) : Prop :=
  (forall b q hn, fhead F b = FhOk q hn -> 0 < hn <= length b) /\
  (forall q b bn, fbody F q b = FbOk bn -> bn <= length b).

(* handler operations *)
Inductive hop :=
| SetStatus (c : Z)
| SetConnClose                  (* ctx.SetConnectionClose() / Response.SetConnectionClose() *)
| SetHdrConn (v : bytes)        (* ctx.Response.Header.Set("Connection", v) (Add behaves the same) *)
| HijackOp                      (* ctx.Hijack(h) *)
| HijackNoResp (b : bool)       (* ctx.HijackSetNoResponse(b) *)
| TimeoutOp                     (* ctx.TimeoutError(...): the response is replaced by the timeout response *)
| SkipBodyOp                    (* ctx.Response.SkipBody = true *)
| ResetConnClose                (* ctx.Response.Header.ResetConnectionClose() *)
| DelHdrConn                    (* ctx.Response.Header.Del("Connection") *)
| RespReset (c : Z)             (* ctx.Error(msg, c) / ctx.Response.Reset() + SetStatusCode(c): a fresh response *)
| ReqSetConnClose               (* ctx.Request.Header.SetConnectionClose(): too late, the request's wish was stored before *)
| TimeoutRespClose              (* ctx.TimeoutErrorWithResponse(r) with r.SetConnectionClose() *)
| OtherOp.                      (* anything that does not touch the above (body, other headers, ...) *)

Record env := {
  handler : N -> req_sum -> list hop;
  expect_status : N -> req_sum -> Z;     (* ExpectHandler(ctx); StatusContinue = go on *)
  continue_ok : N -> req_sum -> bool;    (* ContinueHandler(&header) *)
  stop_at_close : N -> bool;             (* s.stop.Load() == 1 where the close decision of request n is taken *)
  stop_at_idle : N -> bool;              (* s.stop.Load() == 1 after StateIdle of request n *)
  gone_at_start : N -> bool              (* at the first byte of request n: s.stop.Load() == 1 and Shutdown has already
                                            closed this connection as idle (it is no longer in s.idleConns) *)
}.

(* ---------- events ---------- *)
Inductive rkind :=
| RkContinue                    (* "HTTP/1.1 100 Continue" *)
| RkHandler (num : N)           (* the response the handler of request num built *)
| RkRejected (num : N)          (* expectation rejected: handler not called *)
| RkError (e : eclass)          (* writeErrorResponse *)
| RkFast.                       (* writeFastError (concurrency limit) *)
Record resp := { r_kind : rkind; r_status : Z; r_conn : list bytes (* values of its Connection lines *) }.

Inductive hj_src := HjConn | HjBr | HjBrFbr.   (* the io.Reader handed to the hijack handler *)

Inductive event :=
| St (s : conn_state)                        (* ConnState hook *)
| ParseAt (off avail : nat)                  (* first byte of a request available: stream offset, bytes buffered *)
| Dispatch (num : N) (q : req_sum)           (* s.Handler(ctx) *)
| Resp (r : resp)                            (* a response written into the bufio.Writer (or straight to the conn) *)
| Flush                                      (* bw.Flush(): everything written so far is on the wire *)
| Drop                                       (* the writer is released with unflushed responses in it *)
| Close                                      (* c.Close() by the server *)
| HijackEv (src : hj_src) (hbuf : bytes) (hchunks : list bytes) (* go hijackConnHandler: reader buffer, future reads *)
| HijackClose                                (* c.Close() after the hijack handler returned *)
| OutOfFuel.

(* ---------- the handler's effect on ctx ---------- *)
Record hstate := {
  h_status : Z; h_rh : rhdr; h_hijack : bool; h_noresp : bool; h_timeout : bool; h_skip : bool; h_tclose : bool }.
Definition hstate_init : hstate :=
  {| h_status := StatusOK; h_rh := rhdr_init; h_hijack := false; h_noresp := false; h_timeout := false; h_skip := false; h_tclose := false |}.

Definition apply_hop (h : hstate) (o : hop) : hstate :=
  match o with
  | SetStatus c => {| h_status := c; h_rh := h_rh h; h_hijack := h_hijack h; h_noresp := h_noresp h; h_timeout := h_timeout h; h_skip := h_skip h; h_tclose := h_tclose h |}
  | SetConnClose => {| h_status := h_status h; h_rh := rhdr_set_close (h_rh h); h_hijack := h_hijack h; h_noresp := h_noresp h; h_timeout := h_timeout h; h_skip := h_skip h; h_tclose := h_tclose h |}
  | SetHdrConn v => {| h_status := h_status h; h_rh := rhdr_set_conn (h_rh h) v; h_hijack := h_hijack h; h_noresp := h_noresp h; h_timeout := h_timeout h; h_skip := h_skip h; h_tclose := h_tclose h |}
  | HijackOp => {| h_status := h_status h; h_rh := h_rh h; h_hijack := true; h_noresp := h_noresp h; h_timeout := h_timeout h; h_skip := h_skip h; h_tclose := h_tclose h |}
  | HijackNoResp b => {| h_status := h_status h; h_rh := h_rh h; h_hijack := h_hijack h; h_noresp := b; h_timeout := h_timeout h; h_skip := h_skip h; h_tclose := h_tclose h |}
  | TimeoutOp => {| h_status := h_status h; h_rh := h_rh h; h_hijack := h_hijack h; h_noresp := h_noresp h; h_timeout := true; h_skip := h_skip h; h_tclose := h_tclose h |}
  | SkipBodyOp => {| h_status := h_status h; h_rh := h_rh h; h_hijack := h_hijack h; h_noresp := h_noresp h; h_timeout := h_timeout h; h_skip := true; h_tclose := h_tclose h |}
  | ResetConnClose => {| h_status := h_status h; h_rh := rhdr_reset_close (h_rh h); h_hijack := h_hijack h; h_noresp := h_noresp h; h_timeout := h_timeout h; h_skip := h_skip h; h_tclose := h_tclose h |}
  | DelHdrConn => {| h_status := h_status h; h_rh := rhdr_del (h_rh h); h_hijack := h_hijack h; h_noresp := h_noresp h; h_timeout := h_timeout h; h_skip := h_skip h; h_tclose := h_tclose h |}
  | RespReset c => {| h_status := c; h_rh := rhdr_init; h_hijack := h_hijack h; h_noresp := h_noresp h; h_timeout := h_timeout h; h_skip := false; h_tclose := h_tclose h |}
  | ReqSetConnClose => h
  | TimeoutRespClose => {| h_status := h_status h; h_rh := h_rh h; h_hijack := h_hijack h; h_noresp := h_noresp h; h_timeout := true; h_skip := h_skip h; h_tclose := true |}
  | OtherOp => h
  end.

(* after the handler returned: `if timeoutResponse != nil { ctx = s.acquireCtx(c); timeoutResponse.CopyTo(&ctx.Response) }`
   — the fresh ctx has no hijack handler and the timeout response has its own (empty) Connection state *)
Definition after_handler (h : hstate) : hstate :=
  if h_timeout h
  then {| h_status := StatusRequestTimeout; h_rh := (if h_tclose h then rhdr_set_close rhdr_init else rhdr_init);
          h_hijack := false; h_noresp := false; h_timeout := true; h_skip := false; h_tclose := h_tclose h |}
  else h.

Definition run_handler (ops : list hop) (h0 : hstate) : hstate := after_handler (fold_left apply_hop ops h0).

(* ---------- reading ---------- *)
(* one successful fill of an empty bufio buffer: the next non-empty chunk *)
Fixpoint fill1 (cs : list bytes) : option (bytes * list bytes) :=
  match cs with
  | [] => None
  | [] :: cs' => fill1 cs'
  | c :: cs' => Some (c, cs')
  end.
(* br.Peek(1) *)
Definition peek1 (b : bytes) (cs : list bytes) : option (bytes * list bytes) :=
  match b with [] => fill1 cs | _ => Some (b, cs) end.

(* acquireByteReader: one byte is read from the conn, then a bufio.Reader over firstByteReader is used;
   firstByteReader.Read returns that byte together with the next conn.Read.  Result: the chunks that
   reader will see; None = the 1-byte read failed (every error is turned into io.EOF). *)
Definition fbr_chunks (cs : list bytes) : option (list bytes) :=
  match fill1 cs with
  | None => None
  | Some (c, cs') =>
      match c with
      | [x] => match fill1 cs' with
               | None => Some [[x]]
               | Some (d, cs'') => Some ((x :: d) :: cs'')
               end
      | _ => Some (c :: cs')
      end
  end.

(* ---------- hijackConnHandler / hijackConn.Read: what the user of the hijacked connection reads ----------
   hijackConn.Read reads from the io.Reader chosen by the loop (src): the conn itself, the loop's
   bufio.Reader br, or br over ctx.fbr (ReduceMemoryUsage: firstByteReader{c, ch, byteRead}).
   Inside the hijack handler every source yields hbuf followed by the later reads.
   After the handler returned, hijackConnHandler releases the reader and closes the conn unless
   KeepHijackedConns.  It then calls s.releaseCtx(ctx) -> ctx.reset() -> ctx.fbr.reset() — except when the
   connection is kept, the reader is a *bufio.Reader and ctx.fbr.c != nil (ReduceMemoryUsage: the ctx in use at
   that point came out of acquireByteReader): then the ctx is neither reset nor pooled, because the escaped
   reader may still read through ctx.fbr.  A reader through a RESET firstByteReader would deliver what br has
   buffered and then dereference the nil conn (panic). *)
Inductive late_read :=
| LateAll (bs : bytes)          (* the rest of the stream, then what the client does next *)
| LatePanic (bs : bytes)        (* these bytes, then a nil-pointer panic in firstByteReader.Read *)
| LateClosed                    (* the connection was closed by hijackConnHandler *)
| LateUnmodelled.               (* a reset firstByteReader and the handler read beyond br's buffer *)

(* bytes read inside the handler when it reads k bytes (k <= what is there) *)
Definition hijack_in (hb : bytes) (hcs : list bytes) (k : nat) : bytes := firstn k (hb ++ concat hcs).

(* does hijackConnHandler reset the ctx?  rm = ReduceMemoryUsage, keep = KeepHijackedConns *)
Definition ctx_released (rm keep : bool) (src : hj_src) : bool :=
  negb (keep && (match src with HjConn => false | _ => true end) && rm).

(* reads after the handler returned, having read k bytes inside *)
Definition hijack_late (rm keep : bool) (src : hj_src) (hb : bytes) (hcs : list bytes) (k : nat) : late_read :=
  if negb keep then LateClosed
  else match src with
       | HjBrFbr => if ctx_released rm keep src
                    then (if k <=? length hb then LatePanic (skipn k hb) else LateUnmodelled)
                    else LateAll (skipn k (hb ++ concat hcs))
       | _ => LateAll (skipn k (hb ++ concat hcs))
       end.

Section Loop.
Variable F : framer.
Variable cfg : scfg.
Variable E : env.

(* RequestHeader.Read: tryRead on what is buffered; ErrNeedMore -> Peek one more chunk *)
Inductive rh_res := RhOk (q : req_sum) (hn : nat) (b : bytes) (cs : list bytes) | RhErr (e : eclass) | RhEnd (b : bytes).
Fixpoint read_head (b : bytes) (cs : list bytes) : rh_res :=
  match fhead F b with
  | FhOk q hn => RhOk q hn b cs
  | FhErr e => RhErr e
  | FhMore => match cs with
              | [] => RhEnd b
              | c :: cs' => read_head (b ++ c) cs'
              end
  end.

Inductive rb_res := RbOk (bn : nat) (b : bytes) (cs : list bytes) | RbErr (e : eclass) | RbEnd (b : bytes).
Fixpoint read_body (q : req_sum) (b : bytes) (cs : list bytes) : rb_res :=
  match fbody F q b with
  | FbOk bn => RbOk bn b cs
  | FbErr e => RbErr e
  | FbMore => match cs with
              | [] => RbEnd b
              | c :: cs' => read_body q (b ++ c) cs'
              end
  end.

(* loop-carried state *)
Record lst := {
  l_num : N;                    (* connRequestNum *)
  l_br : bool;                  (* br != nil *)
  l_fbr : bool;                 (* br reads through ctx.fbr (acquireByteReader) *)
  l_rd : reader;                (* buf = br's buffer ([] when br == nil) *)
  l_off : nat;                  (* stream bytes consumed by completed requests *)
  l_dirty : bool;               (* bw != nil && bw.Buffered() > 0 *)
  l_noresp : bool               (* ctx.hijackNoResponse left behind by the requests served so far *)
}.

Inductive iter_end := Next (s : lst) | Exit | ExitHijack.

Definition err_resp (e : eclass) : resp :=
  {| r_kind := RkError e; r_status := status_of_eclass e; r_conn := [strClose] |}.
Definition continue_resp : resp := {| r_kind := RkContinue; r_status := StatusContinue; r_conn := [] |}.

(* `bw = s.writeErrorResponse(bw, ctx, serverName, err); break` — SetConnectionClose, write, Flush *)
Definition error_exit (e : eclass) : list event * iter_end := ([Resp (err_resp e); Flush], Exit).
(* `err = nil; break` (io.EOF, or nothing read on a keep-alive connection): the writer is released unflushed *)
Definition silent_exit (dirty : bool) : list event * iter_end := ((if dirty then [Drop] else []), Exit).

Definition isnil (b : bytes) : bool := match b with [] => true | _ => false end.

(* `if (!s.StreamRequestBody && s.ReduceMemoryUsage && br.Buffered() == 0) { releaseReader(s, br); br = nil }` *)
Definition release_rule (b : bytes) (fbr : bool) : bool * bool * bytes :=
  if negb (stream_body cfg) && reduce_mem cfg && isnil b
  then (false, false, [])     (* br = nil: its (empty) buffer is gone *)
  else (true, fbr, b).

(* the handler's effect; st0 = status already set by a rejected expectation; cont = continueReadingRequest;
   nr0 = ctx.hijackNoResponse as earlier requests on this connection left it (the RequestCtx is kept between the
   requests of a connection; ctx.hijackHandler is nil at this point: the loop cleared it after the previous request) *)
Definition hstate0 (st0 : Z) (nr0 : bool) : hstate :=
  {| h_status := st0; h_rh := rhdr_init; h_hijack := false; h_noresp := nr0; h_timeout := false; h_skip := false; h_tclose := false |}.
Definition req_hstate (num : N) (q : req_sum) (cont : bool) (st0 : Z) (nr0 : bool) : hstate :=
  if cont then run_handler (handler E num q) (hstate0 st0 nr0) else hstate0 st0 nr0.

(* s.MaxRequestsPerConn > 0 && connRequestNum >= uint64(s.MaxRequestsPerConn) *)
Definition max_reached (num : N) : bool := ((0 <? max_reqs cfg) && (max_reqs cfg <=? num))%N.

(* `reqStream != nil && hijackHandler == nil && timeoutResponse != nil`: the handler timed out while it still owns
   the streamed request body (StreamRequestBody; every request with Content-Length or chunked framing gets a
   *requestStream).  The other stream cases (body detached unread, rest of the body cannot be discarded) are
   outside the model: a streamed body is taken to be read to its end. *)
Definition stream_timeout_close (q : req_sum) (h : hstate) : bool :=
  stream_body cfg && negb (Z.eqb (q_cl q) (-2)) && h_timeout h.

(* ResponseHeader.mustSkipContentLength: 1xx, 204, 304 *)
Definition must_skip_content_length (st : Z) : bool :=
  if Z.ltb st 100 || Z.eqb st StatusOK then false
  else Z.eqb st StatusNotModified || Z.eqb st StatusNoContent || Z.ltb st 200.

(* `else if ctx.Response.SkipBody && !ctx.Response.Header.mustSkipContentLength() { connectionClose = true }`
   (not for HEAD): the handler skips the body of a response whose head announces one *)
Definition skip_body_close (q : req_sum) (h : hstate) : bool :=
  negb (q_head q) && h_skip h && negb (must_skip_content_length (h_status h)).

(* connectionClose after all assignments; cc0 = set by a rejected expectation *)
Definition close_decision (num : N) (q : req_sum) (cc0 : bool) (h : hstate) : bool :=
  cc0 || disable_keepalive cfg || q_close q || skip_body_close q h || stream_timeout_close q h || max_reached num || rh_close (h_rh h)
  || (close_on_shutdown cfg && stop_at_close E num).

(* the response header's Connection state when it is written *)
Definition final_rhdr (q : req_sum) (h : hstate) (cc : bool) : rhdr :=
  if cc then rhdr_set_close (h_rh h)
  else if negb (q_http11 q) then rhdr_set_nonspecial (h_rh h) strKeepAlive
  else h_rh h.
Definition resp_of (num : N) (q : req_sum) (cont : bool) (h : hstate) (cc : bool) : resp :=
  {| r_kind := if cont then RkHandler num else RkRejected num; r_status := h_status h;
     r_conn := rhdr_written (final_rhdr q h cc) |}.

(* `var hjr io.Reader = c; if br != nil { hjr = br }` *)
Definition hj_src_of (br fbr : bool) : hj_src := if br then (if fbr then HjBrFbr else HjBr) else HjConn.

(* From "store req.ConnectionClose ..." to the end of the loop body. *)
Definition finish_request (num : N) (q : req_sum) (cont : bool) (cc0 : bool) (st0 : Z)
           (br fbr : bool) (b : bytes) (cs : list bytes) (t : tail) (off : nat) (dirty : bool) (nr0 : bool)
  : list event * iter_end :=
  let h := req_hstate num q cont st0 nr0 in
  let ev_disp := if cont then [Dispatch num q] else [] in
  let hijack := h_hijack h in
  let noresp := h_noresp h && hijack in         (* ctx.hijackNoResponse && hijackHandler != nil *)
  let cc := close_decision num q cc0 h in
  let r := resp_of num q cont h cc in
  (* if !hijackNoResponse { writeResponse; maybe Flush; if connectionClose { break } } *)
  let flush1 := negb br || isnil b || cc || (reduce_mem cfg && negb hijack) in
  let ev_resp := if noresp then [] else Resp r :: (if flush1 then [Flush] else []) in
  let dirty1 := if noresp then dirty else negb flush1 in
  if negb noresp && cc then (ev_disp ++ ev_resp, Exit)
  else if hijack then
    (* hjr = br or c; bw.Flush(); go hijackConnHandler(...); err = errHijacked; break *)
    (ev_disp ++ ev_resp ++ (if dirty1 then [Flush] else []) ++ [HijackEv (hj_src_of br fbr) b cs], ExitHijack)
  else
    (* idleConnTime.Store(...) only when nothing is buffered in br and bw (ce44e94; not an event: it only decides
       whether Shutdown may close the connection as idle, i.e. when gone_at_start can be true);
       s.setState(c, StateIdle); if s.stop.Load() == 1 { bw.Flush(); break } *)
    if stop_at_idle E num
    then (ev_disp ++ ev_resp ++ [St StIdle] ++ (if dirty1 then [Flush] else []), Exit)
    else (ev_disp ++ ev_resp ++ [St StIdle],
          Next {| l_num := num; l_br := br; l_fbr := fbr; l_rd := {| buf := b; chunks := cs; tl := t |};
                  l_off := off; l_dirty := dirty1;
                  l_noresp := false (* `ctx.hijackNoResponse = false` right after the flag was read: nothing is carried over *) |}).

(* ---- one iteration of the `for` loop, in three steps ---- *)

(* 1. wait for the first byte of the request *)
Inductive fb_out :=
| FbGot (b : bytes) (cs : list bytes) (fbr : bool)   (* b = what br holds now (non-empty), cs = later reads *)
| FbSilent                                           (* io.EOF, or ErrNothingRead on a keep-alive connection *)
| FbTimeout.                                         (* ErrNothingRead on the first request: error response *)

Definition first_byte (s : lst) : fb_out :=
  let rd := l_rd s in
  if negb (reduce_mem cfg) || l_br s then
    (* br = acquireReader(ctx) if nil; b, err = br.Peek(1) *)
    match peek1 (buf rd) (chunks rd) with
    | Some (b, cs) => FbGot b cs (l_fbr s)
    | None => match tl rd with
              | Eof => FbSilent                                   (* io.EOF *)
              | Open => if (1 <? l_num s + 1)%N then FbSilent     (* ErrNothingRead, connRequestNum > 1 *)
                        else FbTimeout
              end
    end
  else
    (* br, err = acquireByteReader(&ctx): every error becomes io.EOF *)
    match fbr_chunks (chunks rd) with
    | None => FbSilent
    | Some cs0 => match peek1 [] cs0 with
                  | Some (b, cs) => FbGot b cs true
                  | None => FbSilent                              (* not reachable: fbr_chunks starts with a non-empty chunk *)
                  end
    end.

(* 3. after the head was read (hn bytes discarded, b2 still buffered): body, Expect handling, handler, response *)
Definition after_head (s : lst) (fbr dirty : bool) (q : req_sum) (hn : nat) (b2 : bytes) (cs1 : list bytes)
  : list event * iter_end :=
  let num := (l_num s + 1)%N in
  let t := tl (l_rd s) in
  let off := l_off s in
  if q_expect q then
    (* readLimitBody returns without reading the body; the reader may be released *)
    let '(br, fbr', b3) := release_rule b2 fbr in
    (* continueReadingRequest = false; br.Reset(ctx.c) drops what is buffered; connectionClose = true *)
    let reject (st : Z) := finish_request num q false true st br fbr' [] cs1 t (off + hn) dirty (l_noresp s) in
    (* write + Flush "100 Continue"; br = acquireReader(ctx) if nil; ContinueReadBody; every error is answered *)
    let go_on :=
      let ev_c := [Resp continue_resp; Flush] in
      match read_body q b3 cs1 with
      | RbErr e => (ev_c ++ fst (error_exit e), Exit)
      | RbEnd b' => (ev_c ++ fst (error_exit (match body_end F q b' t with Some e => e | None => EcOther end)), Exit)
      | RbOk bn b4 cs4 =>
          let '(br2, fbr2, b6) := release_rule (skipn bn b4) (br && fbr') in
          let r := finish_request num q true false StatusOK br2 fbr2 b6 cs4 t (off + hn + bn) false (l_noresp s) in
          (ev_c ++ fst r, snd r)
      end in
    match xmode cfg with
    | XExpectHandler =>
        let st := expect_status E num q in
        if Z.eqb st StatusContinue then go_on else reject st
    | XContinueHandler =>
        if continue_ok E num q then go_on else reject StatusExpectationFailed
    | XNone => go_on
    end
  else
    match read_body q b2 cs1 with
    | RbErr e => error_exit e
    | RbEnd b' => match body_end F q b' t with
                  | None => silent_exit dirty
                  | Some e => error_exit e
                  end
    | RbOk bn b3 cs3 =>
        let '(br, fbr', b5) := release_rule (skipn bn b3) fbr in
        finish_request num q true false StatusOK br fbr' b5 cs3 t (off + hn + bn) dirty (l_noresp s)
    end.

(* 2. the head.  Responses of pipelined requests still in bw: readLoop once, Flush before waiting for more input *)
Definition serve_req (s : lst) (b0 : bytes) (cs0 : list bytes) (fbr : bool) : list event * iter_end :=
  let need0 := match fhead F b0 with FhMore => true | _ => false end in
  let ev_fl := if l_dirty s && need0 then [Flush] else [] in
  let dirty := l_dirty s && negb need0 in
  let r := match read_head b0 cs0 with
           | RhErr e => error_exit e
           | RhEnd b' => match head_end F b' (tl (l_rd s)) with
                         | None => silent_exit dirty
                         | Some e => error_exit e
                         end
           | RhOk q hn b1 cs1 => after_head s fbr dirty q hn (skipn hn b1) cs1
           end in
  (ev_fl ++ fst r, snd r).

Definition serve_iter (s : lst) : list event * iter_end :=
  match first_byte s with
  | FbSilent => silent_exit (l_dirty s)
  | FbTimeout => error_exit EcTimeout
  | FbGot b0 cs0 fbr =>
      (* idleConnTime.Store(0); if s.stop.Load() == 1 && !tracked { break } *)
      if gone_at_start E (l_num s + 1)%N then silent_exit (l_dirty s)
      else
      (* s.setState(c, StateActive) *)
      let r := serve_req s b0 cs0 fbr in
      (St StActive :: ParseAt (l_off s) (length b0) :: fst r, snd r)
  end.

Inductive loop_end := LExit | LHijack | LOutOfFuel.

Fixpoint serve_loop (fuel : nat) (s : lst) : list event * loop_end :=
  match fuel with
  | O => ([], LOutOfFuel)
  | S f =>
      let (e1, r) := serve_iter s in
      match r with
      | Next s' => let (e2, r2) := serve_loop f s' in (e1 ++ e2, r2)
      | Exit => (e1, LExit)
      | ExitHijack => (e1, LHijack)
      end
  end.

(* ---------- entry points ---------- *)
Inductive entry := ViaServe | ViaServeConn.
Inductive admission :=
| Admit | RejectPerIP | RejectConcurrency
| Delegated.   (* admitted, but serveConnCounted hands the conn to a NextProto handler (TLS ALPN) and returns *)

Definition fast_resp : resp := {| r_kind := RkFast; r_status := StatusServiceUnavailable; r_conn := [strClose] |}.

Definition perip_resp : resp := {| r_kind := RkFast; r_status := StatusTooManyRequests; r_conn := [strClose] |}.

Definition lst_init (rd : reader) : lst :=
  {| l_num := 0%N; l_br := false; l_fbr := false; l_rd := {| buf := []; chunks := buf rd :: chunks rd; tl := tl rd |};
     l_off := 0; l_dirty := false; l_noresp := false |}.

(* what follows serveConnCounted in workerFunc / ServeConn, and hijackConnHandler's end *)
Definition after_loop (r : loop_end) : list event :=
  match r with
  | LExit => [Close; St StClosed]
  | LHijack => St StHijacked :: (if keep_hijacked cfg then [] else [HijackClose])
  | LOutOfFuel => [OutOfFuel]
  end.

Definition serve_conn_fuel (fuel : nat) (en : entry) (ad : admission) (rd : reader) : list event :=
  match ad with
  | RejectPerIP =>
      (* wrapPerIPConn (from acceptConn or ServeConn): writeFastError 429, c.Close(); no state is reported *)
      [Resp perip_resp; Flush; Close]
  | RejectConcurrency =>
      match en with
      | ViaServe => [St StNew; Resp fast_resp; Flush; Close; St StClosed]   (* wp.Serve(c) == false *)
      | ViaServeConn => [Resp fast_resp; Flush; Close]                       (* tryAcquireConcurrency failed *)
      end
  | Delegated =>
      (* getNextProto + `return handler(c)`: no request is served here; the caller closes and reports StateClosed *)
      match en with
      | ViaServe => [St StNew; Close; St StClosed]
      | ViaServeConn => [St StNew; Close; St StClosed]
      end
  | Admit =>
      let (ev, r) := serve_loop fuel (lst_init rd) in
      St StNew :: ev ++ after_loop r
  end.

Definition serve_conn (en : entry) (ad : admission) (rd : reader) : list event :=
  serve_conn_fuel (S (length (remaining rd))) en ad rd.

End Loop.
