(* ServeInst.v — Model/Serve.v's request reader instantiated with the concrete head parser
   (Model/ReqHead.v: RequestHeader.parse + validate) and body readers (Model/Body.v).
   Used for evaluation in the C10/C14/C17 harnesses; the theorems of Proof/ServeProof.v hold for every
   framer satisfying `framer_ok`, which `inst_framer_ok` shows for this one (the two guards
   `n = 0` / `n > |b|` below make that immediate; neither is ever taken on a harness case, or the
   correspondence would diverge).

   Server fields fixed here: GetOnly = false, DisablePreParseMultipartForm irrelevant (no multipart
   bodies), HeaderReceived = nil. *)
From FH Require Import Model.Base Gen.GenC09 Gen.GenC10 Model.Lines Model.ReqHead Model.Body Model.ConnOpt Model.Serve.
Open Scope nat_scope.

Definition strHEAD : bytes := s2b "HEAD".

Definition sum_of (hd : req_head) : req_sum :=
  {| q_head := beq (meth hd) strHEAD;
     q_http11 := http11 hd;
     q_close := conn_close hd;
     q_expect := beq (Lines.peekArgBytes (fields hd) GenC09.strExpect) str100Continue;
     q_cl := content_length hd;
     q_tag := target hd |}.

(* bsize = ReadBufferSize: ErrNeedMore with a full buffer is ErrSmallBuffer *)
Definition inst_fhead (hc : hcfg) (bsize : N) (b : bytes) : fh_res :=
  match b with
  | [] => FhMore
  | _ =>
    match req_head_parse hc b with
    | HOk (hd, n) => if (n =? 0) || (length b <? n) then FhErr EcOther else FhOk (sum_of hd) n
    | HNeedMore => if (bsize <=? N.of_nat (length b))%N then FhErr EcSmallBuf else FhMore
    | HErr _ => FhErr EcOther
    | HPanic | HOutOfFuel => FhErr EcOther
    end
  end.

(* maxb = maxRequestBodySize *)
Definition inst_fbody (maxb : Z) (q : req_sum) (b : bytes) : fb_res :=
  match reqReadBody trailer_reject (q_cl q) maxb b with
  | BOk _ rest _ => if length b <? length rest then FbErr EcOther else FbOk (length b - length rest)
  | BErr EUnexpectedEOF _ _ | BErr EEOF _ _ => FbMore
  | BErr _ _ _ => FbErr EcOther
  | BPanic | BOutOfFuel => FbErr EcOther
  end.

(* tryRead's error for an incomplete head when the source ends: io.EOF for nothing but CR/LF,
   otherwise the read error wrapped in a parse error (the wrapping hides a timeout from defaultErrorHandler) *)
Definition inst_head_end (b : bytes) (t : tail) : option eclass :=
  if isOnlyCRLF b then None else Some EcOther.

(* incomplete body: io.ErrUnexpectedEOF / the read error; a chunked body that ends exactly where a
   chunk size is expected gives readHexInt's bare io.EOF *)
Definition inst_body_end (maxb : Z) (q : req_sum) (b : bytes) (t : tail) : option eclass :=
  match t, reqReadBody trailer_reject (q_cl q) maxb b with
  | Eof, BErr EEOF _ _ => None
  | Eof, _ => Some EcOther          (* io.ErrUnexpectedEOF *)
  | Open, _ => Some EcTimeout       (* the body readers return the net error unwrapped: defaultErrorHandler sees the timeout *)
  end.

Definition inst_framer (hc : hcfg) (bsize : N) (maxb : Z) : framer :=
  {| fhead := inst_fhead hc bsize; fbody := inst_fbody maxb;
     head_end := inst_head_end; body_end := inst_body_end maxb |}.
