(* Model of graceful shutdown in server.go (property C15): a labelled transition system of
     - one acceptor thread per Serve call            (Serve's accept loop)
     - one thread per accepted connection            (workerFunc -> serveConnCounted's request loop -> serveConnCleanup)
     - the thread that calls ShutdownWithContext     (stop flag, closeListenersLocked, close(s.done), loop { closeIdleConns ; serving/open check ; ticker })
     - the environment: clients sending requests / closing, the clock
   with one label per atomic step that matters (stores to idleConnTime, s.stop / s.open / s.serving operations, the critical
   sections under idleConnsMu (closeIdleConns, the 'still tracked?' lookup), reads and writes on the connection).

   Requests are whole units: `inflight` counts requests the client has sent that are still in the socket, `buffered` those already
   in the connection's bufio.Reader.  A read from the connection moves everything in flight into the buffer (requests are small).
   A response is first appended to the bufio.Writer (`unflushed`) and reaches the client when the writer is flushed.

   Ghost fields (started / delivered / lost / lostc / abandoned) record per connection what happened to the requests whose handler
   was started; they do not influence any step.

   Scope: connections accepted through Serve.  The Server can be reused: any number of Serve calls and ShutdownWithContext calls, one
   after the other (s.mu serialises Shutdown calls and keeps Serve out while one runs), also Serve / Shutdown again after a call that
   returned ctx.Err().  No proofs in this file. *)
From Coq Require Import List ZArith Bool Arith.
Import ListNotations.
Open Scope Z_scope.

Record cfg := mkCfg {
  deadlines : bool;         (* ReadTimeout set: the loop calls c.SetReadDeadline before waiting for a request and again after its first byte;
                               the call fails on a closed connection (IdleTimeout alone: the same from the second request on) *)
  closeOnShutdown : bool;   (* Server.CloseOnShutdown *)
  reduceMem : bool          (* Server.ReduceMemoryUsage: the writer is flushed (and released) after every response, also with a pipelined request buffered *)
}.

(* where a connection thread is *)
Inductive cpc :=
| CAccepted     (* Accept returned it; s.open.Add(1) comes next *)
| CQueued       (* counted in s.open and handed to a worker; serveConnCounted has not started *)
| CLoopTop      (* registered in s.idleConns; top of the request loop: SetReadDeadline comes next *)
| CPeek         (* in br.Peek(1): waiting for the first byte of the next request *)
| CGotByte      (* Peek returned data; idleConnTime.Store(0) comes next *)
| CActive       (* marked active (Store(0) done); s.stop.Load() comes next *)
| CStopSeen     (* stop was 1: the lookup of c in s.idleConns (under idleConnsMu) comes next *)
| CReady        (* still tracked, or no Shutdown running; the request is read and parsed next *)
| CHandler      (* s.Handler(ctx) is running *)
| CWrite        (* the handler returned; writeResponse / Flush come next *)
| CWritten      (* response in the writer (flushed or not); the conditional idleConnTime.Store(ctx.time) comes next *)
| CStoredT      (* marked idle (unless in the middle of a pipeline); the s.stop check at the end of the loop comes next *)
| CExiting      (* left the loop; reader / writer released; removal from s.idleConns comes next *)
| CUnreg        (* removed from s.idleConns; serveConnCleanup: s.open.Add(-1) comes next *)
| CClosed.      (* not counted any more; workerFunc closed it (or reported it hijacked) *)

Record conn := mkConn {
  pc : cpc;
  loopid : nat;         (* the Serve call that accepted it *)
  inmap : bool;         (* has an entry in s.idleConns *)
  ival : Z;             (* value of its idleConnTime: 0 = active, else a Unix time *)
  tstart : Z;           (* ctx.time of the current / last request *)
  srvClosed : bool;     (* closeIdleConns closed it *)
  cliClosed : bool;     (* the client closed it *)
  inflight : Z;         (* requests sent by the client, not yet read by the server *)
  buffered : Z;         (* requests in the bufio.Reader *)
  unflushed : Z;        (* responses in the bufio.Writer *)
  hijack : bool;        (* the current handler hijacked the connection *)
  (* ghosts *)
  started : Z;          (* handlers started on this connection *)
  delivered : Z;        (* responses that reached the client *)
  lost : Z;             (* responses of started handlers that the SERVER made undeliverable (closed the connection first, or dropped the writer) *)
  lostc : Z;            (* responses that could not be delivered because the client had closed *)
  abandoned : Z;        (* handlers left running by TimeoutHandler / hijack handlers still running *)
  cdone : option nat    (* the channel ctx.Done() gave to the current / last handler on this connection (None = nil) *)
}.

Record loop := mkLoop {
  lrunning : bool;      (* between s.serving.Add(1) and the return of Serve *)
  lbusy : bool;         (* Accept returned a connection that is not yet handed to a worker *)
  lnopen : bool;        (* its listener has not been closed *)
  inln : bool           (* its listener is in s.ln (appended by Serve, dropped by closeListenersLocked: s.ln = nil) *)
}.

(* the thread inside ShutdownWithContext *)
Inductive spc :=
| SNotCalled
| SStopSet          (* s.stop.Store(1) done (s.mu held from here on) *)
| SLnClosed         (* closeListenersLocked done *)
| SLoop             (* close(s.done) done; closeIdleConns comes next *)
| SReadServing      (* closeIdleConns done; s.serving.Load() comes next *)
| SReadOpen         (* serving was 0; s.open.Load() comes next *)
| SWait             (* select { ctx.Done ; ticker.C } *)
| SReturnedNil      (* the last call returned nil (deferred s.stop.Store(0) done) *)
| SReturnedErr.     (* the last call returned ctx.Err() *)

(* s.done and s.doneClosed.  Channels are numbered in the order Serve makes them. *)
Record dstate := mkD {
  done : option nat;        (* s.done: None = nil *)
  nextch : nat;             (* next fresh channel *)
  closedch : list nat;      (* channels that have been closed *)
  dflag : bool;             (* s.doneClosed *)
  (* ghosts *)
  tainted : bool;           (* a ShutdownWithContext returned ctx.Err() and no Shutdown has gone through its loop to the end since *)
  failed : bool             (* a ShutdownWithContext has returned ctx.Err() at some point *)
}.

(* Serve: if s.done == nil { s.done = make(chan struct{}) } *)
Definition serve_done (d : dstate) : dstate :=
  match done d with
  | None => mkD (Some (nextch d)) (S (nextch d)) (closedch d) (dflag d) (tainted d) (failed d)
  | Some _ => d
  end.
(* ShutdownWithContext: if s.done != nil && !s.doneClosed { close(s.done); s.doneClosed = true } *)
Definition close_done (d : dstate) : dstate :=
  match done d with
  | Some ch => if dflag d then d else mkD (done d) (nextch d) (ch :: closedch d) true (tainted d) (failed d)
  | None => d
  end.
(* the success branch: s.done = nil; s.doneClosed = false *)
Definition reset_done (d : dstate) : dstate := mkD None (nextch d) (closedch d) false false (failed d).
(* the ctx.Done() branch resets nothing *)
Definition give_up (d : dstate) : dstate := mkD (done d) (nextch d) (closedch d) (dflag d) true true.

Definition chan_closed (d : dstate) (ch : nat) : bool := existsb (Nat.eqb ch) (closedch d).

Record st := mkSt {
  stop : bool;          (* s.stop *)
  dn : dstate;          (* s.done / s.doneClosed and the channels made so far *)
  serving : Z;          (* s.serving *)
  open : Z;             (* s.open *)
  now : Z;              (* Unix time *)
  sd : spc;
  conns : list conn;
  loops : list loop
}.

Definition init : st := mkSt false (mkD None O [] false false false) 0 0 100 SNotCalled [] [].

Inductive label :=
(* acceptor threads *)
| LServeStart | LAccept (k : nat) | LOpenInc (c : nat) | LAcceptFail (k : nat)
(* connection threads *)
| LRegIdle (c : nat) | LSetDeadline (c : nat) | LPeekOk (c : nat) | LPeekFail (c : nat) | LStore0 (c : nat)
| LLoadStop (c : nat) | LLookup (c : nat) | LReadReq (c : nat)
| LHandlerEnd (c : nat) | LAbandon (c : nat) | LHijack (c : nat)
| LWrite (c : nat) (close : bool) | LStoreT (c : nat) | LCheckStop (c : nat) | LUnregIdle (c : nat) | LOpenDec (c : nat)
(* ShutdownWithContext *)
| LSetStop | LCloseListeners | LCloseDone | LCloseIdle | LReadServing | LReadOpen | LTicker | LCtxExpire
(* environment *)
| LSend (c : nat) | LClientClose (c : nat) | LTick (d : Z).

Fixpoint upd {A} (l : list A) (i : nat) (x : A) : list A :=
  match l, i with
  | [], _ => []
  | _ :: r, O => x :: r
  | y :: r, S j => y :: upd r j x
  end.

Definition set_pc (r : conn) (p : cpc) : conn :=
  mkConn p (loopid r) (inmap r) (ival r) (tstart r) (srvClosed r) (cliClosed r) (inflight r) (buffered r) (unflushed r) (hijack r)
         (started r) (delivered r) (lost r) (lostc r) (abandoned r) (cdone r).

(* leaving the loop on an error: `if bw != nil { releaseWriter(s, bw) }` - what is still in the writer is dropped (the connection is
   broken anyway).  A hijack flushes the writer itself before the hijack handler is started. *)
Definition exit_loop (r : conn) : conn :=
  mkConn CExiting (loopid r) (inmap r) (ival r) (tstart r) (srvClosed r) (cliClosed r) (inflight r) (buffered r) 0 (hijack r)
         (started r) (delivered r)
         (if cliClosed r then lost r else lost r + unflushed r) (if cliClosed r then lostc r + unflushed r else lostc r) (abandoned r) (cdone r).

(* leaving the loop on the stop flag: `if bw != nil { err = bw.Flush() }; break` (since 66dbd41 the writer is flushed first) *)
Definition flush_exit (r : conn) : conn :=
  if srvClosed r || cliClosed r then exit_loop r
  else mkConn CExiting (loopid r) (inmap r) (ival r) (tstart r) (srvClosed r) (cliClosed r) (inflight r) (buffered r) 0 (hijack r)
              (started r) (delivered r + unflushed r) (lost r) (lostc r) (abandoned r) (cdone r).

(* closeIdleConns looks at one entry of s.idleConns: t := ict.Load(); if t != 0 && now-t >= 0 { c.Close(); delete } *)
Definition close_if_idle (t : Z) (r : conn) : conn :=
  if inmap r && negb (ival r =? 0) && (ival r <=? t) then
    mkConn (pc r) (loopid r) false (ival r) (tstart r) true (cliClosed r) (inflight r) (buffered r) (unflushed r) (hijack r)
           (started r) (delivered r) (lost r) (lostc r) (abandoned r) (cdone r)
  else r.

Definition set_conns (s : st) (cs : list conn) : st := mkSt (stop s) (dn s) (serving s) (open s) (now s) (sd s) cs (loops s).
Definition set_sd (s : st) (p : spc) : st := mkSt (stop s) (dn s) (serving s) (open s) (now s) p (conns s) (loops s).

(* ShutdownWithContext is running: it holds s.mu from its first to its last statement, Serve needs s.mu to register its listener *)
Definition sd_running (s : st) : bool :=
  match sd s with SStopSet | SLnClosed | SLoop | SReadServing | SReadOpen | SWait => true | _ => false end.

Definition step (cf : cfg) (s : st) (l : label) : option st :=
  match l with
  | LServeStart =>            (* Serve: s.mu.Lock(); s.ln = append(s.ln, ln); ...; s.serving.Add(1) *)
      if sd_running s then None else
      Some (mkSt (stop s) (serve_done (dn s)) (serving s + 1) (open s) (now s) (sd s) (conns s) (loops s ++ [mkLoop true false true true]))
  | LAccept k =>              (* ln.Accept() returns a connection *)
      match nth_error (loops s) k with
      | Some lp =>
          if lrunning lp && negb (lbusy lp) && lnopen lp then
            Some (mkSt (stop s) (dn s) (serving s) (open s) (now s) (sd s)
                       (conns s ++ [mkConn CAccepted k false 0 0 false false 0 0 0 false 0 0 0 0 0 None])
                       (upd (loops s) k (mkLoop true true (lnopen lp) (inln lp))))
          else None
      | None => None
      end
  | LOpenInc c =>             (* s.open.Add(1); wp.Serve(c) *)
      match nth_error (conns s) c with
      | Some r =>
          match pc r, nth_error (loops s) (loopid r) with
          | CAccepted, Some lp =>
              Some (mkSt (stop s) (dn s) (serving s) (open s + 1) (now s) (sd s) (upd (conns s) c (set_pc r CQueued))
                         (upd (loops s) (loopid r) (mkLoop (lrunning lp) false (lnopen lp) (inln lp))))
          | _, _ => None
          end
      | None => None
      end
  | LAcceptFail k =>          (* Accept fails on the closed listener: wp.Stop(); Serve returns; deferred s.serving.Add(-1) *)
      match nth_error (loops s) k with
      | Some lp =>
          if lrunning lp && negb (lbusy lp) && negb (lnopen lp) then
            Some (mkSt (stop s) (dn s) (serving s - 1) (open s) (now s) (sd s) (conns s) (upd (loops s) k (mkLoop false false false (inln lp))))
          else None
      | None => None
      end
  | LRegIdle c =>             (* serveConnCounted: s.idleConns[c] = ict; ict.Store(connTime + 5s) *)
      match nth_error (conns s) c with
      | Some r =>
          match pc r with
          | CQueued =>
              Some (set_conns s (upd (conns s) c
                     (mkConn CLoopTop (loopid r) true (now s + 5) (tstart r) (srvClosed r) (cliClosed r) (inflight r) (buffered r) (unflushed r)
                             (hijack r) (started r) (delivered r) (lost r) (lostc r) (abandoned r) (cdone r))))
          | _ => None
          end
      | None => None
      end
  | LSetDeadline c =>         (* c.SetReadDeadline(...) when a timeout is configured: an error on a closed connection ends the loop *)
      match nth_error (conns s) c with
      | Some r =>
          match pc r with
          | CLoopTop =>
              if deadlines cf && srvClosed r then Some (set_conns s (upd (conns s) c (exit_loop r)))
              else Some (set_conns s (upd (conns s) c (set_pc r CPeek)))
          | _ => None
          end
      | None => None
      end
  | LPeekOk c =>              (* br.Peek(1) returns a byte: from the buffer, or after a read from the connection *)
      match nth_error (conns s) c with
      | Some r =>
          match pc r with
          | CPeek =>
              if 0 <? buffered r then Some (set_conns s (upd (conns s) c (set_pc r CGotByte)))
              else if negb (srvClosed r) && (0 <? inflight r) then
                Some (set_conns s (upd (conns s) c
                       (mkConn CGotByte (loopid r) (inmap r) (ival r) (tstart r) (srvClosed r) (cliClosed r) 0 (inflight r) (unflushed r)
                               (hijack r) (started r) (delivered r) (lost r) (lostc r) (abandoned r) (cdone r))))
              else None
          | _ => None
          end
      | None => None
      end
  | LPeekFail c =>            (* nothing buffered and the read fails: the server or the client closed the connection *)
      match nth_error (conns s) c with
      | Some r =>
          match pc r with
          | CPeek =>
              if (buffered r <=? 0) && (srvClosed r || ((inflight r <=? 0) && cliClosed r))
              then Some (set_conns s (upd (conns s) c (exit_loop r)))
              else None
          | _ => None
          end
      | None => None
      end
  | LStore0 c =>              (* idleConnTime.Store(0) *)
      match nth_error (conns s) c with
      | Some r =>
          match pc r with
          | CGotByte =>
              Some (set_conns s (upd (conns s) c
                     (mkConn CActive (loopid r) (inmap r) 0 (tstart r) (srvClosed r) (cliClosed r) (inflight r) (buffered r) (unflushed r)
                             (hijack r) (started r) (delivered r) (lost r) (lostc r) (abandoned r) (cdone r))))
          | _ => None
          end
      | None => None
      end
  | LLoadStop c =>            (* if s.stop.Load() == 1 { ... } (since 3ea360e) *)
      match nth_error (conns s) c with
      | Some r =>
          match pc r with
          | CActive => Some (set_conns s (upd (conns s) c (set_pc r (if stop s then CStopSeen else CReady))))
          | _ => None
          end
      | None => None
      end
  | LLookup c =>              (* idleConnsMu: _, tracked := s.idleConns[c]; if !tracked { break } - Shutdown closed it as idle *)
      match nth_error (conns s) c with
      | Some r =>
          match pc r with
          | CStopSeen =>
              if inmap r then Some (set_conns s (upd (conns s) c (set_pc r CReady)))
              else Some (set_conns s (upd (conns s) c (exit_loop r)))
          | _ => None
          end
      | None => None
      end
  | LReadReq c =>             (* the request is read from the buffer; ctx.time = now; s.Handler(ctx) is called *)
      match nth_error (conns s) c with
      | Some r =>
          match pc r with
          | CReady =>
              (* with ReadTimeout set the loop calls c.SetReadDeadline once more here; on a closed connection that ends the loop *)
              if deadlines cf && srvClosed r then Some (set_conns s (upd (conns s) c (exit_loop r))) else
              if 0 <? buffered r then
                Some (set_conns s (upd (conns s) c
                       (mkConn CHandler (loopid r) (inmap r) (ival r) (now s) (srvClosed r) (cliClosed r) (inflight r) (buffered r - 1) (unflushed r)
                               false (started r + 1) (delivered r) (lost r) (lostc r) (abandoned r) (done (dn s)))))
              else None
          | _ => None
          end
      | None => None
      end
  | LHandlerEnd c =>          (* the handler returns *)
      match nth_error (conns s) c with
      | Some r => match pc r with CHandler => Some (set_conns s (upd (conns s) c (set_pc r CWrite))) | _ => None end
      | None => None
      end
  | LAbandon c =>             (* TimeoutHandler: the serve loop goes on with the timeout response, the handler goroutine keeps running *)
      match nth_error (conns s) c with
      | Some r =>
          match pc r with
          | CHandler =>
              Some (set_conns s (upd (conns s) c
                     (mkConn CWrite (loopid r) (inmap r) (ival r) (tstart r) (srvClosed r) (cliClosed r) (inflight r) (buffered r) (unflushed r)
                             (hijack r) (started r) (delivered r) (lost r) (lostc r) (abandoned r + 1) (cdone r))))
          | _ => None
          end
      | None => None
      end
  | LHijack c =>              (* the handler called ctx.Hijack and returns *)
      match nth_error (conns s) c with
      | Some r =>
          match pc r with
          | CHandler =>
              Some (set_conns s (upd (conns s) c
                     (mkConn CWrite (loopid r) (inmap r) (ival r) (tstart r) (srvClosed r) (cliClosed r) (inflight r) (buffered r) (unflushed r)
                             true (started r) (delivered r) (lost r) (lostc r) (abandoned r) (cdone r))))
          | _ => None
          end
      | None => None
      end
  | LWrite c rc =>            (* writeResponse into the writer; Flush unless another request is buffered (always with ReduceMemoryUsage); break on Connection: close
                                 rc: the request or the handler asked for Connection: close *)
      match nth_error (conns s) c with
      | Some r =>
          match pc r with
          | CWrite =>
              let cclose := rc || (closeOnShutdown cf && stop s) in
              let u := unflushed r + 1 in
              if (buffered r <=? 0) || cclose || hijack r || reduceMem cf then
                (* Flush (a hijack flushes explicitly before starting the hijack handler) *)
                if srvClosed r || cliClosed r then
                  Some (set_conns s (upd (conns s) c
                         (mkConn CExiting (loopid r) (inmap r) (ival r) (tstart r) (srvClosed r) (cliClosed r) (inflight r) (buffered r) 0 (hijack r)
                                 (started r) (delivered r) (if cliClosed r then lost r else lost r + u) (if cliClosed r then lostc r + u else lostc r)
                                 (abandoned r) (cdone r))))
                else
                  Some (set_conns s (upd (conns s) c
                         (mkConn (if cclose || hijack r then CExiting else CWritten)
                                 (loopid r) (inmap r) (ival r) (tstart r) (srvClosed r) (cliClosed r) (inflight r) (buffered r) 0 (hijack r)
                                 (started r) (delivered r + u) (lost r) (lostc r) (if hijack r then abandoned r + 1 else abandoned r) (cdone r))))
              else
                Some (set_conns s (upd (conns s) c
                       (mkConn CWritten (loopid r) (inmap r) (ival r) (tstart r) (srvClosed r) (cliClosed r) (inflight r) (buffered r) u (hijack r)
                               (started r) (delivered r) (lost r) (lostc r) (abandoned r) (cdone r))))
          | _ => None
          end
      | None => None
      end
  | LStoreT c =>              (* if br.Buffered() == 0 && bw.Buffered() == 0 { idleConnTime.Store(ctx.time.Unix()) } (condition since ce44e94):
                                 a connection in the middle of a pipeline stays marked active *)
      match nth_error (conns s) c with
      | Some r =>
          match pc r with
          | CWritten =>
              Some (set_conns s (upd (conns s) c
                     (mkConn CStoredT (loopid r) (inmap r) (if (buffered r =? 0) && (unflushed r =? 0) then tstart r else ival r) (tstart r) (srvClosed r) (cliClosed r) (inflight r) (buffered r) (unflushed r)
                             (hijack r) (started r) (delivered r) (lost r) (lostc r) (abandoned r) (cdone r))))
          | _ => None
          end
      | None => None
      end
  | LCheckStop c =>           (* if s.stop.Load() == 1 { bw.Flush(); break } *)
      match nth_error (conns s) c with
      | Some r =>
          match pc r with
          | CStoredT =>
              if stop s then Some (set_conns s (upd (conns s) c (flush_exit r)))
              else Some (set_conns s (upd (conns s) c (set_pc r CLoopTop)))
          | _ => None
          end
      | None => None
      end
  | LUnregIdle c =>           (* idleConnsMu: delete(s.idleConns, c) *)
      match nth_error (conns s) c with
      | Some r =>
          match pc r with
          | CExiting =>
              Some (set_conns s (upd (conns s) c
                     (mkConn CUnreg (loopid r) false (ival r) (tstart r) (srvClosed r) (cliClosed r) (inflight r) (buffered r) (unflushed r)
                             (hijack r) (started r) (delivered r) (lost r) (lostc r) (abandoned r) (cdone r))))
          | _ => None
          end
      | None => None
      end
  | LOpenDec c =>             (* serveConnCleanup: s.open.Add(-1); then workerFunc closes the connection *)
      match nth_error (conns s) c with
      | Some r =>
          match pc r with
          | CUnreg =>
              Some (mkSt (stop s) (dn s) (serving s) (open s - 1) (now s) (sd s) (upd (conns s) c (set_pc r CClosed)) (loops s))
          | _ => None
          end
      | None => None
      end
  | LSetStop =>               (* a call of ShutdownWithContext (the first one, or a later one - after a successful or a timed-out call):
                                 s.mu.Lock(); s.stop.Store(1); `if s.ln == nil { return nil }` (deferred s.stop.Store(0)) *)
      if sd_running s then None else
      if existsb inln (loops s) then Some (mkSt true (dn s) (serving s) (open s) (now s) SStopSet (conns s) (loops s))
      else Some (set_sd s SReturnedNil)
  | LCloseListeners =>        (* closeListenersLocked *)
      match sd s with
      | SStopSet =>
          Some (mkSt (stop s) (dn s) (serving s) (open s) (now s) SLnClosed (conns s)
                     (map (fun lp => mkLoop (lrunning lp) (lbusy lp) false false) (loops s)))
      | _ => None
      end
  | LCloseDone =>             (* close(s.done) *)
      match sd s with
      | SLnClosed => Some (mkSt (stop s) (close_done (dn s)) (serving s) (open s) (now s) SLoop (conns s) (loops s))
      | _ => None
      end
  | LCloseIdle =>             (* closeIdleConns: one pass over s.idleConns under idleConnsMu *)
      match sd s with
      | SLoop => Some (mkSt (stop s) (dn s) (serving s) (open s) (now s) SReadServing (map (close_if_idle (now s)) (conns s)) (loops s))
      | _ => None
      end
  | LReadServing =>           (* s.serving.Load() == 0 ? *)
      match sd s with
      | SReadServing => Some (set_sd s (if serving s =? 0 then SReadOpen else SWait))
      | _ => None
      end
  | LReadOpen =>              (* s.open.Load() == 0 ? return lnerr (nil), deferred s.stop.Store(0) *)
      match sd s with
      | SReadOpen =>
          if open s =? 0 then Some (mkSt false (reset_done (dn s)) (serving s) (open s) (now s) SReturnedNil (conns s) (loops s))
          else Some (set_sd s SWait)
      | _ => None
      end
  | LTicker =>                (* case <-ticker.C: continue *)
      match sd s with SWait => Some (set_sd s SLoop) | _ => None end
  | LCtxExpire =>             (* case <-ctx.Done(): return ctx.Err(), deferred s.stop.Store(0) *)
      match sd s with
      | SWait => Some (mkSt false (give_up (dn s)) (serving s) (open s) (now s) SReturnedErr (conns s) (loops s))
      | _ => None
      end
  | LSend c =>                (* the client sends one more request *)
      match nth_error (conns s) c with
      | Some r =>
          if cliClosed r then None else
          Some (set_conns s (upd (conns s) c
                 (mkConn (pc r) (loopid r) (inmap r) (ival r) (tstart r) (srvClosed r) (cliClosed r) (inflight r + 1) (buffered r) (unflushed r)
                         (hijack r) (started r) (delivered r) (lost r) (lostc r) (abandoned r) (cdone r))))
      | None => None
      end
  | LClientClose c =>
      match nth_error (conns s) c with
      | Some r =>
          Some (set_conns s (upd (conns s) c
                 (mkConn (pc r) (loopid r) (inmap r) (ival r) (tstart r) (srvClosed r) true (inflight r) (buffered r) (unflushed r)
                         (hijack r) (started r) (delivered r) (lost r) (lostc r) (abandoned r) (cdone r))))
      | None => None
      end
  | LTick d =>
      if d <? 0 then None else Some (mkSt (stop s) (dn s) (serving s) (open s) (now s + d) (sd s) (conns s) (loops s))
  end.

Fixpoint run (cf : cfg) (s : st) (tr : list label) : option st :=
  match tr with
  | [] => Some s
  | l :: r => match step cf s l with Some s' => run cf s' r | None => None end
  end.

Inductive reach (cf : cfg) : st -> Prop :=
| reach_init : reach cf init
| reach_step s l s' : reach cf s -> step cf s l = Some s' -> reach cf s'.

(* ---- observables ------------------------------------------------------------------------------------------------------------ *)
Fixpoint sumf {A} (f : A -> Z) (l : list A) : Z :=
  match l with [] => 0 | x :: r => f x + sumf f r end.
Definition b2z (b : bool) : Z := if b then 1 else 0.

Definition in_handler (r : conn) : bool := match pc r with CHandler => true | _ => false end.
Definition n_handlers (s : st) : Z := sumf (fun r => b2z (in_handler r)) (conns s).
Definition n_lost (s : st) : Z := sumf lost (conns s).
