(* SizeLimits.v — the size-limit logic of fasthttp outside the body readers (C07):

     copyZeroAllocWithLimit + gunzipData / inflateData / unBrotliData / unzstdData
       (Body{Gunzip,Inflate,Unbrotli,Unzstd,Uncompressed}WithLimit of Request and Response),
     Request.MultipartFormWithLimit (which bytes reach the multipart parser),
     the server's choice of maxRequestBodySize (serveConn, incl. the HeaderReceived hook),
     acquireReader's buffer size, defaultErrorHandler + writeErrorResponse (error -> status, close),
     one request-reading step of serveConn for a non-streamed body.

   The decompressors themselves (compress/gzip, flate, brotli, zstd) are not modelled: the
   stream a decoder would yield is a parameter (`inflated`, and whether it ends in an error). *)
From FH Require Import Model.Base Gen.GenC30 Gen.GenC34 Gen.GenC07 Model.Ints Model.Body.
Open Scope Z_scope.

(* ------------------------------------------------------------------ *)
(* *WithLimit decompression helpers                                    *)
(* ------------------------------------------------------------------ *)
Inductive wlres :=
| WLOk (out : bytes)        (* bb.B, nil *)
| WLTooLarge                (* nil, ErrBodyTooLarge *)
| WLErr.                    (* nil, the decoder's error *)

(* copyZeroAllocWithLimit(&bb, zr, maxBodySize) followed by the `if err != nil { return nil, err }`
   of gunzipData & co.  zr yields `inflated` and then io.EOF (bad_end = false) or an error.
   With a limit, a LimitedReader lets at most maxBodySize+1 bytes through; bb.ReadFrom copies
   until that reader reports EOF.  `buffered` = bytes appended to bb (kept or thrown away). *)
Definition withLimit (maxBodySize : Z) (inflated : bytes) (bad_end : bool) : wlres * Z (* buffered *) :=
  if maxBodySize <=? 0 then
    (if bad_end then WLErr else WLOk inflated, blen inflated)
  else
    let n := maxBodySize + 1 in                         (* lr.N *)
    if blen inflated <? n then
      (* the decoder's end (EOF or error) is reached with lr.N > 0 *)
      (if bad_end then WLErr else WLOk inflated, blen inflated)
    else
      (* lr.N drops to 0: lr answers io.EOF itself, the decoder's end is never seen *)
      (WLTooLarge, n).

(* the same decision on lengths only (for bombs of tens of megabytes) *)
Inductive wlclass := KOk (n : Z) | KTooLarge | KErr.
Definition withLimit_len (maxBodySize len : Z) (bad_end : bool) : wlclass * Z :=
  if maxBodySize <=? 0 then (if bad_end then KErr else KOk len, len)
  else if len <? maxBodySize + 1 then (if bad_end then KErr else KOk len, len)
  else (KTooLarge, maxBodySize + 1).

(* ------------------------------------------------------------------ *)
(* Request.MultipartFormWithLimit, body already in memory              *)
(* ------------------------------------------------------------------ *)
Inductive mpres :=
| MPParse (form_bytes : bytes)   (* readMultipartForm runs on these bytes *)
| MPTooLarge
| MPErr.

(* ce: 0 = no Content-Encoding, 1 = gzip, 2 = anything else *)
Definition multipartWithLimit (maxBodySize ce : Z) (body inflated : bytes) (bad_end : bool) : mpres :=
  let after_ce :=
    if ce =? 1 then
      match fst (withLimit maxBodySize inflated bad_end) with
      | WLOk out => inl out
      | WLTooLarge => inr MPTooLarge          (* "cannot gunzip request body: ... ErrBodyTooLarge" *)
      | WLErr => inr MPErr
      end
    else if ce =? 0 then inl body
    else inr MPErr in                          (* unsupported content-encoding *)
  match after_ce with
  | inr e => e
  | inl b => if (maxBodySize >? 0) && (blen b >? maxBodySize) then MPTooLarge else MPParse b
  end.

(* the streamed variant reads the form through io.LimitedReader{N: maxBodySize+1} and rejects
   when N reached 0: at most maxBodySize+1 bytes are pulled from the stream *)
Definition multipartStreamBudget (maxBodySize : Z) : option Z :=
  if maxBodySize >? 0 then Some (maxBodySize + 1) else None.

(* ------------------------------------------------------------------ *)
(* server configuration                                                *)
(* ------------------------------------------------------------------ *)
(* maxRequestBodySize := s.MaxRequestBodySize; if <= 0 { DefaultMaxRequestBodySize } *)
Definition serverMaxBody (cfg : Z) : Z := if cfg <=? 0 then DefaultMaxRequestBodySize else cfg.
(* after the HeaderReceived hook returned reqConf *)
Definition serverMaxBodyHook (cfg reqConf : Z) : Z :=
  if reqConf >? 0 then reqConf else if cfg >? 0 then cfg else DefaultMaxRequestBodySize.
(* acquireReader *)
Definition serverReadBuf (cfg : Z) : Z := if cfg <=? 0 then defaultReadBufferSize else cfg.

(* ------------------------------------------------------------------ *)
(* error -> answer                                                     *)
(* ------------------------------------------------------------------ *)
Inductive srv_err :=
| SESmallBuffer     (* *ErrSmallBuffer *)
| SETimeout         (* *net.OpError with Timeout() *)
| SEOther.          (* everything else: parse errors, ErrBodyTooLarge, ErrBrokenChunk, ... *)

Definition defaultErrorHandler (e : srv_err) : Z :=
  match e with
  | SESmallBuffer => StatusRequestHeaderFieldsTooLarge
  | SETimeout => StatusRequestTimeout
  | SEOther => StatusBadRequest
  end.

(* what one iteration of serveConn does with a request *)
Inductive srv_step :=
| SDispatch (body rest : bytes)          (* the handler runs with this body *)
| SAnswerClose (status : Z)              (* writeErrorResponse: status, Connection: close, then break *)
| SCloseSilently.                        (* io.EOF / nothing read on a keep-alive connection *)

(* writeErrorResponse(bw, ctx, serverName, err) with the default handler: the status, and the
   connection is always closed (ctx.SetConnectionClose(); the caller breaks out of the loop) *)
Definition writeErrorResponse (e : srv_err) : srv_step := SAnswerClose (defaultErrorHandler e).

(* the body part of a request whose head was read: cl = Header.ContentLength(), b = what follows
   the head; non-streamed, no 'Expect: 100-continue', not a pre-parsed multipart form *)
Definition serveReadBody (parseTr : trailer_parser) (cfgMax cl : Z) (b : bytes) : srv_step :=
  match reqReadBody parseTr cl (serverMaxBody cfgMax) b with
  | BOk body rest _ => SDispatch body rest
  | BErr _ _ _ => writeErrorResponse SEOther
  | BPanic | BOutOfFuel => SCloseSilently    (* not reachable with a positive limit *)
  end.

(* ------------------------------------------------------------------ *)
(* Request.ContinueReadBody: the limit guard comes BEFORE the          *)
(* multipart pre-parse branch                                          *)
(* ------------------------------------------------------------------ *)
(* Request.ContinueReadBody(r, maxBodySize, preParseMultipartForm) — reached from
   Request.ReadLimitBody (preParse = true), from serveConn (preParse = !DisablePreParseMultipartForm),
   directly or after 'Expect: 100-continue' was answered.
     isForm = Content-Type is multipart/form-data with a boundary and there is no Content-Encoding;
     formOk = whether mime/multipart accepts the bytes (a parameter: the stdlib is not modelled).
   readMultipartForm(r, boundary, cl, 16 MiB) consumes exactly cl bytes when the form parses. *)
Inductive rqres :=
| RQBody (r : bres)                         (* Request.ReadBody ran *)
| RQForm (form_bytes rest : bytes)          (* the body went to the multipart parser, req.multipartForm is set *)
| RQFormErr.                                (* readMultipartForm failed: req.Reset(), error *)

Definition continueReadBody (parseTr : trailer_parser) (preParse isForm : bool) (formOk : bytes -> bool)
           (cl max : Z) (b : bytes) : rqres :=
  if cl >? 0 then
    if (max >? 0) && (cl >? max) then RQBody (BErr EBodyTooLarge [] 0)
    else if preParse && isForm then
      if (cl <=? blen b) && formOk (btake cl b) then RQForm (btake cl b) (bdrop cl b) else RQFormErr
    else RQBody (reqReadBody parseTr cl max b)
  else RQBody (reqReadBody parseTr cl max b).

(* the server step with it *)
Definition serveContinueReadBody (parseTr : trailer_parser) (preParse isForm : bool) (formOk : bytes -> bool)
           (cfgMax cl : Z) (b : bytes) : srv_step :=
  match continueReadBody parseTr preParse isForm formOk cl (serverMaxBody cfgMax) b with
  | RQBody (BOk body rest _) => SDispatch body rest
  | RQForm form rest => SDispatch form rest           (* the handler gets the parsed form *)
  | RQBody (BErr _ _ _) | RQFormErr => writeErrorResponse SEOther
  | RQBody BPanic | RQBody BOutOfFuel => SCloseSilently
  end.
