(* StreamLife.v — life cycle of the body streams attached to ONE Request or Response,
   as a labelled transition system (C34_close_exactly_once).

   Code modelled (http.go): SetBodyStream (ResetBody, then attach), SetBody / SetBodyString /
   AppendBody / AppendBodyString (closeBodyStream), ResetBody / SetBodyRaw, Reset (and so
   ReleaseRequest / ReleaseResponse / RequestCtx.reset), CloseBodyStream,
   Request.closeBodyStream / Response.closeBodyStream / closeBodyStreamReader,
   Write -> writeBodyStream (close after the write whatever the error; NOT after a panic of
   the stream's Read: Response recovers and returns ErrBodyStreamWritePanic, Request lets the
   panic through — in both cases the stream stays attached), Body() / bodyBytes / SwapBody /
   BodyWriteTo (copyBodyStream, then closeBodyStream; a panic leaves the stream attached),
   gzipBody / deflateBody / brotliBody / zstdBody wrapping the stream in a compressedBodyStream,
   compressedBodyStream.Close -> closeOriginalForDiscard and the compressor goroutine's
   closeOriginal (both under originalLock, guarded by originalClosed).

   Streams are created fresh by SetBodyStream and numbered 0,1,2,… in creation order. *)
From FH Require Import Model.Base.
Open Scope N_scope.

Inductive mkind := MReq | MResp.
Inductive fault :=
| FNone      (* the operation succeeded *)
| FErr       (* it failed without panic: write error, read error, size mismatch *)
| FPanic.    (* the stream's Read panicked *)

Record sinfo := mkSI {
  si_closer : bool;       (* the stream implements io.Closer *)
  si_count : N;           (* how many times Close() has been called on it *)
  si_wrapped : bool;      (* it sits inside a compressedBodyStream *)
  si_origClosed : bool;   (* compressedBodyStream.originalClosed *)
  si_goDone : bool        (* the compressor goroutine has run closeOriginal *)
}.

Record lstate := mkLS { ls_streams : list sinfo; ls_att : option nat }.
Definition ls_init : lstate := mkLS [] None.

Inductive lop :=
| LSetBodyStream (closer : bool)
| LSetBody                  (* SetBody, SetBodyString, AppendBody, AppendBodyString *)
| LResetBody                (* ResetBody, SetBodyRaw *)
| LReset                    (* Reset, ReleaseRequest/ReleaseResponse, RequestCtx.reset *)
| LCloseBodyStream
| LWrite (f : fault)        (* Write / WriteTo *)
| LConsume (f : fault)      (* Body(), SwapBody, BodyWriteTo *)
| LWrap                     (* Response only: the attached stream gets wrapped for compression *)
| LGoDone (i : nat)         (* the compressor goroutine of stream i finishes *)
| LServerDrop.              (* Request only: serveConn's keep-alive path, just before Request.Reset: a pooled
                               requestStream is released and detached; a stream the handler attached stays
                               in place (the streams of this model are such user streams) *)

Fixpoint upd {A} (i : nat) (f : A -> A) (l : list A) : list A :=
  match l, i with
  | [], _ => []
  | x :: r, O => f x :: r
  | x :: r, S j => x :: upd j f r
  end.

Definition bump (r : sinfo) : sinfo :=
  mkSI (si_closer r) (si_count r + 1) (si_wrapped r) (si_origClosed r) (si_goDone r).

(* The wrapped (original) stream has TWO closing sites, both under originalLock and both
   guarded by the originalClosed flag:

   compressedBodyStream.closeOriginalForDiscard — called from compressedBodyStream.Close, i.e.
   whenever the response drops the wrapper (closeBodyStream after a write, CloseBodyStream,
   Reset, SetBody, ...), possibly while the compressor goroutine is still running:
     if originalClosed { return }; if not an io.Closer { return }; originalClosed = true; Close() *)
Definition closeOriginalForDiscard (r : sinfo) : sinfo :=
  if si_origClosed r then r
  else if si_closer r then mkSI true (si_count r + 1) (si_wrapped r) true (si_goDone r)
  else r.

(* compressedBodyStream.closeOriginal — run by the compressor goroutine (compressedBodyStream.write)
   when compress(...) has returned, whether or not the wrapper is still attached:
     if !originalClosed { if io.Closer { Close() }; originalClosed = true }
   (followed by CloseWithError for a ReadCloserWithError, which is not a Close() call) *)
Definition closeOriginal (r : sinfo) : sinfo :=
  if si_origClosed r then r
  else mkSI (si_closer r) (if si_closer r then si_count r + 1 else si_count r) (si_wrapped r) true (si_goDone r).

(* what closeBodyStream does to the attached stream's record *)
Definition close_attached (r : sinfo) : sinfo :=
  if si_wrapped r then
    (* closeBodyStreamReader(compressedBodyStream) -> compressedBodyStream.Close -> closeOriginalForDiscard *)
    closeOriginalForDiscard r
  else
    (* closeBodyStreamReader / Request.closeBodyStream: Close() iff io.Closer *)
    if si_closer r then bump r else r.

(* the goroutine ends: closeOriginal, then close(s.done) *)
Definition go_done (r : sinfo) : sinfo :=
  let r' := closeOriginal r in
  mkSI (si_closer r') (si_count r') (si_wrapped r') (si_origClosed r') true.

Definition closeBodyStream (st : lstate) : lstate :=
  match ls_att st with
  | None => st
  | Some i => mkLS (upd i close_attached (ls_streams st)) None
  end.

Definition lstep (k : mkind) (st : lstate) (o : lop) : option lstate :=
  match o with
  | LSetBodyStream c =>
      let st1 := closeBodyStream st in
      Some (mkLS (ls_streams st1 ++ [mkSI c 0 false false false]) (Some (length (ls_streams st1))))
  | LSetBody | LResetBody | LReset | LCloseBodyStream => Some (closeBodyStream st)
  | LWrite f | LConsume f =>
      match ls_att st with
      | None => Some st
      | Some i =>
          match f with
          | FPanic =>
              (* the panic unwinds past closeBodyStream; with a wrapped stream the Read runs in
                 the compressor goroutine, where a panic kills the process: not a transition *)
              match nth_error (ls_streams st) i with
              | Some r => if si_wrapped r then None else Some st
              | None => None
              end
          | _ => Some (closeBodyStream st)
          end
      end
  | LWrap =>
      match k, ls_att st with
      | MResp, Some i =>
          match nth_error (ls_streams st) i with
          | Some r =>
              if si_wrapped r then None
              else Some (mkLS (upd i (fun r => mkSI (si_closer r) (si_count r) true false false) (ls_streams st)) (Some i))
          | None => None
          end
      | _, _ => None
      end
  | LServerDrop =>
      match k with
      | MReq => Some st
      | MResp => None
      end
  | LGoDone i =>
      match nth_error (ls_streams st) i with
      | Some r => if si_wrapped r && negb (si_goDone r) then Some (mkLS (upd i go_done (ls_streams st)) (ls_att st)) else None
      | None => None
      end
  end.

Fixpoint lrun (k : mkind) (st : lstate) (ops : list lop) : option lstate :=
  match ops with
  | [] => Some st
  | o :: r => match lstep k st o with Some st' => lrun k st' r | None => None end
  end.

(* observables *)
Definition ls_counts (st : lstate) : list N := map si_count (ls_streams st).
Definition ls_attached (st : lstate) : bool := match ls_att st with Some _ => true | None => false end.
