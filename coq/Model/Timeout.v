(* Timeout.v — labelled transition system of TimeoutHandler / TimeoutWithCodeHandler, RequestCtx.TimeoutError*, and the
   part of serveConnCounted that deals with a timed-out ctx (server.go):

     TimeoutWithCodeHandler   select { case concurrencyCh <- {}: default: ctx.Error(msg, 429); return }
                              go func() { h(ctx); ch <- {}; <-concurrencyCh }()
                              select { case <-ch: case <-timer.C: ctx.TimeoutErrorWithCode(msg, statusCode) }
     TimeoutErrorWithResponse ctx.timeoutResponse = copy of resp
     serveConnCounted         s.Handler(ctx); timeoutResponse = ctx.timeoutResponse
                              if timeoutResponse != nil { ctx = s.acquireCtx(c); timeoutResponse.CopyTo(&ctx.Response) }
                              writeResponse(ctx, bw); ctx.Request.Reset(); ctx.Response.Reset()      (next request)
                              s.releaseCtx(ctx)                                                       (connection end)
                              the ctx that was swapped out is dropped: it is never passed to releaseCtx

   Threads: one server loop per connection, one goroutine per wrapped handler call (it may outlive its request and its
   connection).  Shared: the RequestCtx objects (by reference), the ctx pool, the semaphore concurrencyCh.
   A response value is an abstract V tagged with a ghost owner (connection, request number) recording on whose behalf it was
   written; the ghost never influences a step.
   Timers are not timed: the timer branch of the select may be taken whenever the wrapper waits (a fired timer and a
   finished handler may both be ready; Go's select picks either).
   Not modelled: data races between the late handler and the server loop on one memory word (C37); a handler that
   keeps using ctx.Conn() or the pointer returned by LastTimeoutErrorResponse. *)
From Coq Require Import List Arith Bool.
Import ListNotations.

Section LTS.
  Variable V : Type.
  Variable timeout_resp : V.     (* what the wrapper passes to TimeoutErrorWithCode: statusCode, msg *)
  Variable too_many : V.         (* ctx.Error(msg, StatusTooManyRequests) *)
  Variable init_resp : V.        (* a Response after Reset *)
  Variable cap : nat.            (* cap(concurrencyCh) = Server.Concurrency *)

  Definition owner := (nat * nat)%type.
  Record rv := mkRV { rv_own : owner; rv_val : V }.

  Record ctx := mkCtx {
    cx_resp : rv;                (* ctx.Response *)
    cx_tresp : option rv;        (* ctx.timeoutResponse *)
    cx_pooled : bool             (* the object sits in Server.ctxPool *)
  }.

  (* where a connection's serve loop is *)
  Inductive phase :=
  | PIdle                        (* between requests *)
  | PWaiting (h : nat)           (* inside the wrapper: select { <-ch, <-timer } for goroutine h *)
  | PReturned                    (* s.Handler(ctx) returned *)
  | PRead (v : rv)               (* timeoutResponse = ctx.timeoutResponse was non-nil *)
  | PSwapped (v : rv)            (* ctx = s.acquireCtx(c) done, CopyTo pending *)
  | PReady (tr : option rv).     (* about to writeResponse; tr = the timeoutResponse that was seen *)

  Record conn := mkConn {
    k_open : bool;
    k_ctx : nat;                                (* the serve loop's ctx variable *)
    k_req : nat;                                (* requests completed on this connection *)
    k_phase : phase;
    k_log : list (nat * option rv * rv)         (* ghost: request number, timeoutResponse seen, response serialised *)
  }.

  Inductive hstate := HRunning | HSent | HReleased.   (* in h(ctx) | after ch <- {} | after <-concurrencyCh *)
  Record hth := mkH { h_ctx : nat; h_conn : nat; h_req : nat; h_st : hstate }.

  Record state := mkS {
    s_ctx : nat -> ctx;   s_nctx : nat;         (* ctx objects 0 .. s_nctx-1 exist *)
    s_conn : nat -> conn; s_nconn : nat;
    s_h : nat -> hth;     s_nh : nat;
    s_sem : nat                                  (* len(concurrencyCh) *)
  }.

  Definition upd {A} (f : nat -> A) (i : nat) (a : A) : nat -> A := fun j => if Nat.eqb j i then a else f j.

  Definition set_ctx (s : state) (i : nat) (c : ctx) : state :=
    mkS (upd (s_ctx s) i c) (s_nctx s) (s_conn s) (s_nconn s) (s_h s) (s_nh s) (s_sem s).
  Definition set_conn (s : state) (i : nat) (k : conn) : state :=
    mkS (s_ctx s) (s_nctx s) (upd (s_conn s) i k) (s_nconn s) (s_h s) (s_nh s) (s_sem s).
  Definition set_h (s : state) (i : nat) (h : hth) : state :=
    mkS (s_ctx s) (s_nctx s) (s_conn s) (s_nconn s) (upd (s_h s) i h) (s_nh s) (s_sem s).
  Definition set_sem (s : state) (n : nat) : state :=
    mkS (s_ctx s) (s_nctx s) (s_conn s) (s_nconn s) (s_h s) (s_nh s) n.

  Definition dummy_rv : rv := mkRV (0, 0) init_resp.
  Definition dummy_ctx : ctx := mkCtx dummy_rv None false.
  Definition dummy_conn : conn := mkConn false 0 0 PIdle [].
  Definition dummy_h : hth := mkH 0 0 0 HReleased.
  Definition init : state := mkS (fun _ => dummy_ctx) 0 (fun _ => dummy_conn) 0 (fun _ => dummy_h) 0 0.

  (* acquireCtx: a pooled object (the pick-th candidate id, if it is pooled) or a new one; the object's Response is
     in the Reset state either way *)
  Definition acquire (s : state) (pick : nat) : state * nat :=
    if (pick <? s_nctx s) && cx_pooled (s_ctx s pick) then
      (set_ctx s pick (mkCtx (cx_resp (s_ctx s pick)) (cx_tresp (s_ctx s pick)) false), pick)
    else
      (mkS (upd (s_ctx s) (s_nctx s) (mkCtx dummy_rv None false)) (S (s_nctx s)) (s_conn s) (s_nconn s) (s_h s) (s_nh s) (s_sem s),
       s_nctx s).

  Inductive label :=
  | LConnOpen (pick : nat)                  (* a connection is accepted: ctx := s.acquireCtx(c) *)
  | LReqStart (c : nat)                     (* a request was read; s.Handler(ctx) enters the wrapper, which tries the semaphore *)
  | LHandlerWrite (h : nat) (v : V)         (* the wrapped handler changes ctx.Response *)
  | LHandlerTimeoutErr (h : nat) (v : V)    (* the wrapped handler calls ctx.TimeoutError* / TimeoutErrorWithResponse *)
  | LHandlerFinish (h : nat)                (* h(ctx) returns; ch <- struct{}{} *)
  | LHandlerRelease (h : nat)               (* <-concurrencyCh *)
  | LWrapperDone (c : nat)                  (* select takes <-ch *)
  | LTimerFire (c : nat)                    (* select takes <-timer.C: ctx.TimeoutErrorWithCode(msg, statusCode) *)
  | LReadTimeout (c : nat)                  (* timeoutResponse = ctx.timeoutResponse *)
  | LSwapCtx (c : nat) (pick : nat)         (* ctx = s.acquireCtx(c) *)
  | LCopyResp (c : nat)                     (* timeoutResponse.CopyTo(&ctx.Response) *)
  | LSerialize (c : nat)                    (* writeResponse, then Request.Reset / Response.Reset for the next request *)
  | LConnClose (c : nat).                   (* the loop ends: s.releaseCtx(ctx) *)

  Definition with_phase (k : conn) (p : phase) : conn := mkConn (k_open k) (k_ctx k) (k_req k) p (k_log k).
  Definition with_resp (x : ctx) (r : rv) : ctx := mkCtx r (cx_tresp x) (cx_pooled x).
  Definition with_tresp (x : ctx) (t : option rv) : ctx := mkCtx (cx_resp x) t (cx_pooled x).

  Definition is_running (st : hstate) : bool := match st with HRunning => true | _ => false end.
  Definition is_idle (p : phase) : bool := match p with PIdle => true | _ => false end.

  Definition step (s : state) (l : label) : option state :=
    match l with
    | LConnOpen pick =>
        let '(s1, x) := acquire s pick in
        let c := s_nconn s1 in
        let s2 := set_ctx s1 x (mkCtx (mkRV (c, 0) init_resp) None false) in
        Some (mkS (s_ctx s2) (s_nctx s2) (upd (s_conn s2) c (mkConn true x 0 PIdle [])) (S c) (s_h s2) (s_nh s2) (s_sem s2))
    | LReqStart c =>
        let k := s_conn s c in
        if (c <? s_nconn s) && k_open k && is_idle (k_phase k) then
          if s_sem s <? cap then
            let h := s_nh s in
            let s1 := mkS (s_ctx s) (s_nctx s) (s_conn s) (s_nconn s) (upd (s_h s) h (mkH (k_ctx k) c (k_req k) HRunning)) (S h) (S (s_sem s)) in
            Some (set_conn s1 c (with_phase k (PWaiting h)))
          else
            let x := k_ctx k in
            let s1 := set_ctx s x (with_resp (s_ctx s x) (mkRV (c, k_req k) too_many)) in
            Some (set_conn s1 c (with_phase k PReturned))
        else None
    | LHandlerWrite h v =>
        let t := s_h s h in
        if (h <? s_nh s) && is_running (h_st t) then
          Some (set_ctx s (h_ctx t) (with_resp (s_ctx s (h_ctx t)) (mkRV (h_conn t, h_req t) v)))
        else None
    | LHandlerTimeoutErr h v =>
        let t := s_h s h in
        if (h <? s_nh s) && is_running (h_st t) then
          Some (set_ctx s (h_ctx t) (with_tresp (s_ctx s (h_ctx t)) (Some (mkRV (h_conn t, h_req t) v))))
        else None
    | LHandlerFinish h =>
        let t := s_h s h in
        if (h <? s_nh s) && is_running (h_st t) then Some (set_h s h (mkH (h_ctx t) (h_conn t) (h_req t) HSent)) else None
    | LHandlerRelease h =>
        let t := s_h s h in
        match h_st t with
        | HSent => if h <? s_nh s then Some (set_sem (set_h s h (mkH (h_ctx t) (h_conn t) (h_req t) HReleased)) (pred (s_sem s))) else None
        | _ => None
        end
    | LWrapperDone c =>
        let k := s_conn s c in
        match k_phase k with
        | PWaiting h =>
            if (c <? s_nconn s) && k_open k && negb (is_running (h_st (s_h s h))) then Some (set_conn s c (with_phase k PReturned)) else None
        | _ => None
        end
    | LTimerFire c =>
        let k := s_conn s c in
        match k_phase k with
        | PWaiting h =>
            if (c <? s_nconn s) && k_open k then
              let x := k_ctx k in
              let s1 := set_ctx s x (with_tresp (s_ctx s x) (Some (mkRV (c, k_req k) timeout_resp))) in
              Some (set_conn s1 c (with_phase k PReturned))
            else None
        | _ => None
        end
    | LReadTimeout c =>
        let k := s_conn s c in
        match k_phase k with
        | PReturned =>
            if (c <? s_nconn s) && k_open k then
              match cx_tresp (s_ctx s (k_ctx k)) with
              | Some v => Some (set_conn s c (with_phase k (PRead v)))
              | None => Some (set_conn s c (with_phase k (PReady None)))
              end
            else None
        | _ => None
        end
    | LSwapCtx c pick =>
        let k := s_conn s c in
        match k_phase k with
        | PRead v =>
            if (c <? s_nconn s) && k_open k then
              let '(s1, x) := acquire s pick in
              Some (set_conn s1 c (mkConn (k_open k) x (k_req k) (PSwapped v) (k_log k)))
            else None
        | _ => None
        end
    | LCopyResp c =>
        let k := s_conn s c in
        match k_phase k with
        | PSwapped v =>
            if (c <? s_nconn s) && k_open k then
              let x := k_ctx k in
              let s1 := set_ctx s x (with_resp (s_ctx s x) v) in
              Some (set_conn s1 c (with_phase k (PReady (Some v))))
            else None
        | _ => None
        end
    | LSerialize c =>
        let k := s_conn s c in
        match k_phase k with
        | PReady tr =>
            if (c <? s_nconn s) && k_open k then
              let x := k_ctx k in
              match cx_tresp (s_ctx s x) with
              | Some _ => None      (* writeResponse: "cannot write timed out response" — unreachable (Proof) *)
              | None =>
                  let w := cx_resp (s_ctx s x) in
                  let s1 := set_ctx s x (with_resp (s_ctx s x) (mkRV (c, S (k_req k)) init_resp)) in
                  Some (set_conn s1 c (mkConn true x (S (k_req k)) PIdle (k_log k ++ [(k_req k, tr, w)])))
              end
            else None
        | _ => None
        end
    | LConnClose c =>
        let k := s_conn s c in
        if (c <? s_nconn s) && k_open k && is_idle (k_phase k) then
          let x := k_ctx k in
          match cx_tresp (s_ctx s x) with
          | Some _ => None          (* releaseCtx panics: "BUG: cannot release timed out RequestCtx" — unreachable (Proof) *)
          | None =>
              let s1 := set_ctx s x (mkCtx (cx_resp (s_ctx s x)) None true) in
              Some (set_conn s1 c (mkConn false x (k_req k) PIdle (k_log k)))
          end
        else None
    end.

  Fixpoint run (s : state) (ls : list label) : option state :=
    match ls with
    | [] => Some s
    | l :: r => match step s l with Some s' => run s' r | None => None end
    end.

  Inductive reachable : state -> Prop :=
  | reach_init : reachable init
  | reach_step s l s' : reachable s -> step s l = Some s' -> reachable s'.
End LTS.

Arguments LConnOpen {V}. Arguments LReqStart {V}. Arguments LHandlerWrite {V}. Arguments LHandlerTimeoutErr {V}.
Arguments LHandlerFinish {V}. Arguments LHandlerRelease {V}. Arguments LWrapperDone {V}. Arguments LTimerFire {V}.
Arguments LReadTimeout {V}. Arguments LSwapCtx {V}. Arguments LCopyResp {V}. Arguments LSerialize {V}. Arguments LConnClose {V}.
